package main

import (
	"encoding/binary"
	"errors"
	"reflect"

	"github.com/cloudwego/gopkg/bufiox"
	"github.com/cloudwego/gopkg/protocol/thrift"
	"github.com/cloudwego/gopkg/protocol/thrift/base"
)

// C12 — message envelope round-trips; strict version; exceptions surface as errors.
// Case formats: see coq/Corr/C12.v.  Sources, sinks and error classes are those of c01.go.

var c12ErrStub = errors.New("verif: stub FastRead failure")

// recording FastCodec stub
type c12Stub struct {
	enc      []byte
	rfail    bool
	called   bool
	recorded []byte
}

func (s *c12Stub) BLength() int { return len(s.enc) }
func (s *c12Stub) FastWriteNocopy(buf []byte, _ thrift.NocopyWriter) int {
	return copy(buf, s.enc)
}
func (s *c12Stub) FastRead(buf []byte) (int, error) {
	s.called = true
	s.recorded = append([]byte(nil), buf...)
	if s.rfail {
		return 0, c12ErrStub
	}
	return len(buf), nil
}

func c12ErrCls(err error) V {
	if err == c12ErrStub {
		return Ls(I(-3), I(50))
	}
	if ae, ok := err.(*thrift.ApplicationException); ok {
		return Ls(I(-4), I64(int64(ae.TypeId())), Str(ae.Msg()))
	}
	return c01ErrCls(err)
}

func c12MsgVal(name string, ty int32, seq int32, n int) V {
	return Ls(Str(name), I64(int64(ty)), I64(int64(seq)), I(n))
}

func c12BR(buf []byte) V {
	name, ty, seq, l, err := thrift.Binary.ReadMessageBegin(buf)
	if err != nil {
		return Ls(Ls(), c12ErrCls(err))
	}
	return Ls(c12MsgVal(name, ty, seq, l), Ls())
}

func c12SR(rd bufiox.Reader, prelen int) V {
	if rd == nil {
		return Ls()
	}
	if prelen > 0 {
		if _, err := rd.Next(prelen); err != nil {
			return Ls(Ls(), c01ErrCls(err), I(rd.ReadLen()))
		}
	}
	r := thrift.NewBufferReader(rd)
	name, ty, seq, err := r.ReadMessageBegin()
	if err != nil {
		return Ls(Ls(), c12ErrCls(err), I(rd.ReadLen()))
	}
	return Ls(c12MsgVal(name, ty, seq, int(r.Readn())), Ls(), I(rd.ReadLen()))
}

type c12Payload struct {
	pk     int
	ex     *thrift.ApplicationException
	bs     *base.Base
	stub   *c12Stub
	codec  thrift.FastCodec
	target thrift.FastCodec
}

func c12MkPayload(pk int, pv []V, rfail bool) *c12Payload {
	p := &c12Payload{pk: pk}
	switch pk {
	case 0:
		p.ex = thrift.NewApplicationException(int32(AsI64(pv[0])), string(AsBytes(pv[1])))
		p.codec = p.ex
		p.target = thrift.NewApplicationException(77, "untouched")
	case 1:
		b := base.NewBase()
		b.LogID, b.Caller, b.Addr = string(AsBytes(pv[0])), string(AsBytes(pv[1])), string(AsBytes(pv[2]))
		if AsInt(pv[3]) != 0 {
			b.Extra = map[string]string{string(AsBytes(pv[4])): string(AsBytes(pv[5]))}
		}
		p.bs = b
		p.codec = b
		p.target = c12Sentinel()
	case 2:
		p.stub = &c12Stub{enc: AsBytes(pv[0])}
		p.codec = p.stub
		p.target = &c12Stub{rfail: rfail}
	default:
		panic("c12: bad payload kind")
	}
	return p
}

func c12TargetState(p *c12Payload) V {
	switch p.pk {
	case 0:
		t := p.target.(*thrift.ApplicationException)
		return Ls(I64(int64(t.TypeId())), Str(t.Msg()))
	case 1:
		t := p.target.(*base.Base)
		switch {
		case reflect.DeepEqual(t, p.bs):
			return Ls(I(1))
		case reflect.DeepEqual(t, c12Sentinel()):
			return Ls(I(2))
		}
		return Ls(I(0))
	}
	t := p.target.(*c12Stub)
	return Ls(Bo(t.called), Bs(t.recorded))
}

// the fresh target of a Base payload: distinguishable from every generated payload
func c12Sentinel() *base.Base {
	b := base.NewBase()
	b.LogID = "untouched-sentinel"
	return b
}

func c12Unmarshal(data []byte, p *c12Payload) V {
	// the frame arrives in the caller's receive buffer, which is reused as soon as the call returns:
	// the method name, the decoded payload and a surfaced exception must not change with it
	data = append([]byte(nil), data...)
	method, seq, err := thrift.UnmarshalFastMsg(data, p.target)
	for i := range data {
		data[i] = 0xEE
	}
	return Ls(Str(method), I64(int64(seq)), c12ErrCls(err))
}

func c12Run(in V) V {
	a := AsList(in)
	switch AsInt(a[0]) {
	case 0:
		name := string(AsBytes(a[1]))
		ty, seq := int32(AsI64(a[2])), int32(AsI64(a[3]))
		off0, slack, seed := AsInt(a[4]), AsInt(a[5]), AsInt(a[6])
		pre, rest, script := AsBytes(a[7]), AsBytes(a[8]), a[9]
		ln := thrift.Binary.MessageBeginLength(name)
		buf := Pat(seed, off0+ln+slack)
		wn := thrift.Binary.WriteMessageBegin(buf[off0:], name, ty, seq)
		ab := thrift.Binary.AppendMessageBegin(append([]byte(nil), pre...), name, ty, seq)
		sink := &c01Sink{}
		bw := bufiox.NewDefaultWriter(sink)
		w := thrift.NewBufferWriter(bw)
		var errs VL
		stop := false
		if len(pre) > 0 {
			b, err := bw.Malloc(len(pre))
			errs = append(errs, c01ErrCls(err))
			if err == nil {
				copy(b, pre)
			} else {
				stop = true
			}
		}
		if !stop {
			errs = append(errs, c01ErrCls(w.WriteMessageBegin(name, ty, seq)))
		}
		wl := bw.WrittenLen()
		ferr := bw.Flush()
		sk := Ls()
		if sink.got {
			sk = Ls(Bs(sink.last))
		}
		data := append(append([]byte(nil), ab...), rest...)
		return Ls(Ls(Bs(buf), I(wn)), Bs(ab), I(ln), Ls(errs, I(wl), c01ErrCls(ferr), sk),
			c12BR(data[len(pre):]), c12SR(c01Reader(script, data), len(pre)))
	case 1:
		data := AsBytes(a[1])
		prelen := AsInt(a[2])
		return Ls(c12BR(data[prelen:]), c12SR(c01Reader(a[3], data), prelen))
	case 2:
		name := string(AsBytes(a[1]))
		ty, seq := int32(AsI64(a[2])), int32(AsI64(a[3]))
		p := c12MkPayload(AsInt(a[4]), AsList(a[5]), AsBool(a[6]))
		pbytes := thrift.FastMarshal(p.codec)
		mb, err := thrift.MarshalFastMsg(name, ty, seq, p.codec)
		if err != nil {
			return Ls(I(1), Bs(nil), Bs(pbytes), Ls(Bs(nil), I(0), Ls()), Ls())
		}
		u := c12Unmarshal(mb, p)
		return Ls(I(0), Bs(mb), Bs(pbytes), u, c12TargetState(p))
	case 3:
		pv := []V{I(0), Bs(nil)}
		if AsInt(a[2]) == 2 {
			pv = []V{Bs(nil)}
		}
		p := c12MkPayload(AsInt(a[2]), pv, AsBool(a[3]))
		u := c12Unmarshal(AsBytes(a[1]), p)
		return Ls(u, c12TargetState(p))
	case 4:
		name := string(AsBytes(a[1]))
		ty, seq := int32(AsI64(a[2])), int32(AsI64(a[3]))
		buf := Pat(AsInt(a[5]), AsInt(a[4]))
		return func() (out V) {
			defer func() {
				if r := recover(); r != nil {
					out = Ls(I(1))
				}
			}()
			n := thrift.Binary.WriteMessageBegin(buf, name, ty, seq)
			return Ls(I(0), I(n), Bs(buf))
		}()
	}
	panic("c12: bad mode")
}

func c12Enc(name []byte, ty, seq int32) []byte {
	b := binary.BigEndian.AppendUint32(nil, 0x80010000|uint32(ty)&0xffff)
	b = binary.BigEndian.AppendUint32(b, uint32(len(name)))
	b = append(b, name...)
	return binary.BigEndian.AppendUint32(b, uint32(seq))
}

func c12Gen(g *Gen) {
	cnt := 0
	names := []V{Bs(nil), Str("a"), Str("Echo"), Bs([]byte{0}), Bs([]byte{0xff, 0xfe, 0x80, 0x00, 0xc0}), Str("méthode/ünï"), PatV(3, 31), PatV(4, 32), PatV(5, 100),
		PatV(6, 255), PatV(7, 256), PatV(8, 1000)}
	bigNames := []V{PatV(9, 4083), PatV(10, 4084), PatV(11, 4085), PatV(12, 4096), PatV(13, 8192), PatV(14, 20000)}
	seqs := []int64{0, 1, -1, 2, 255, 256, 65535, 65536, 1<<31 - 1, -1 << 31, 0x01020304, -0x01020304}
	nameLen := func(v V) int { return len(AsBytes(v)) }
	env := func(class string, name V, ty, seq int64, scSel int) {
		n := nameLen(name)
		scs := c01Scripts(n + 64)
		sc := scs[scSel%len(scs)]
		if c01IsBytewise(sc.name) && n > 4100 {
			sc = scs[0]
		}
		cnt++
		pl := []int{0, 3, 0, 17, 4090}[cnt%5]
		if n > 1000 && pl > 100 {
			pl = 2
		}
		g.Add(class+"/"+sc.name, Ls(I(0), name, I64(ty), I64(seq), I(cnt%5), I(cnt%3), I(cnt%256), PatV(cnt, pl), PatV(cnt+1, []int{0, 2, 9}[cnt%3]), sc.v))
	}
	// 1. all 65536 message types (low halves), high halves varied; names and seq ids rotate
	for lo := 0; lo < 65536; lo++ {
		if !g.Thor && lo > 40 && lo%4 != 1 && lo < 65500 { // quick: every 4th + both ends; mode 2 below covers all 65536
			continue
		}
		hi := []int64{0, 0, 0x7fff, -0x8000, 1, -1}[lo%6]
		ty := hi<<16 | int64(lo)
		ty = int64(int32(ty))
		env("types", names[lo%len(names)], ty, seqs[lo%len(seqs)], lo)
	}
	// 2. names x seq ids x scripts
	for ni, nm := range names {
		for si, sq := range seqs {
			env("names", nm, int64([]int{1, 2, 3, 4, 0, 0xffff}[(ni+si)%6]), sq, ni*7+si)
		}
	}
	for ni, nm := range bigNames {
		for j := 0; j < 4; j++ {
			env("bignames", nm, int64(1+j), seqs[(ni+j)%len(seqs)], ni+j*2)
		}
	}
	for i := 0; i < g.Scale(400, 20000); i++ {
		n := g.R.Intn(40)
		nm := make([]byte, n)
		g.R.Read(nm)
		env("random", Bs(nm), int64(int32(g.R.Uint32())), int64(int32(g.R.Uint32())), g.R.Intn(9))
	}
	// 3. mode 1: first-word sweep (all 65536 upper halves), truncation, name length field
	dec := func(class string, data []byte, prelen int, sc V) { g.Add(class, Ls(I(1), Bs(data), I(prelen), sc)) }
	tailv := c12Enc([]byte("m"), 0, 7)[4:]
	for hi := 0; hi < 65536; hi++ {
		if false {
			continue
		}
		d := binary.BigEndian.AppendUint32(nil, uint32(hi)<<16|uint32(hi*31)&0xffff)
		d = append(d, tailv...)
		dec("firstword", d, 0, c01Scripts(16)[hi%9].v)
	}
	for _, nm := range [][]byte{{}, []byte("a"), []byte("Echo"), Pat(1, 40), Pat(2, 300)} {
		e := c12Enc(nm, 2, -5)
		for cut := 0; cut <= len(e); cut++ {
			for si, sc := range c01Scripts(len(e) + 8) {
				if len(e) > 30 && cut > 12 && cut < len(e)-6 && (si+cut)%5 != 0 {
					continue
				}
				dec("trunc/"+sc.name, e[:cut], 0, sc.v)
			}
			dec("trunc/pre", append(Pat(cut, 2), e[:cut]...), 2, c01Scripts(8)[cut%9].v)
		}
	}
	noSR := Ls(I(2))
	for _, lf := range []uint32{0x80000000, 0xffffffff, 0xfffffffe, 0xc0000000, 0x7fffffff, 0x40000000, 0x00100000, 0x00010000, 9, 8, 7, 1} {
		d := binary.BigEndian.AppendUint32(nil, 0x80010001)
		d = binary.BigEndian.AppendUint32(d, lf)
		d = append(d, 1, 2, 3, 4, 5, 6, 7, 8, 9, 10, 11, 12)
		if lf >= 0x80000000 || lf <= 0x00100000 {
			for _, sc := range c01Scripts(32) {
				dec("namelen/"+sc.name, d, 0, sc.v)
			}
		} else {
			dec("namelen/buf-only", d, 0, noSR)
		}
	}
	// 4. mode 2: marshal / unmarshal with the three payload kinds; all 65536 types through the stub
	m2 := func(class string, name V, ty, seq int64, pk int, payload V, rfail int) {
		g.Add(class, Ls(I(2), name, I64(ty), I64(seq), I(pk), payload, I(rfail)))
	}
	for lo := 0; lo < 65536; lo++ {
		hi := []int64{0, 0x7fff, -0x8000, -1}[lo%4]
		ty := int64(int32(hi<<16 | int64(lo)))
		switch {
		case lo%64 == 7 || lo < 8:
			m2("marshal/types-ex", names[1+lo%5], ty, seqs[lo%len(seqs)], 0, Ls(I64(int64(int32(lo*2654435))), PatV(lo, lo%19)), 0)
		default:
			m2("marshal/types-stub", Str("m"), ty, int64(lo), 2, Ls(PatV(lo, lo%7)), 0)
		}
	}
	exTypes := []int64{3, 3 | 0x10000, 3 | -0x10000, 3 | 0x7fff0000}
	tids := []int64{0, 1, 6, 10, 11, -1, 1<<31 - 1, -1 << 31}
	msgs := []V{Bs(nil), Str("x"), Str("boom: \xff\x00"), PatV(1, 200), PatV(2, 5000)}
	for ti, tid := range tids {
		for mi, mv := range msgs {
			for _, ty := range append([]int64{1, 2, 4, 0}, exTypes...) {
				m2("marshal/appex", names[(ti+mi)%len(names)], ty, seqs[(ti*3+mi)%len(seqs)], 0, Ls(I64(tid), mv), 0)
			}
		}
	}
	for i, nm := range names {
		for _, ty := range append([]int64{1, 2, 4}, exTypes...) {
			extra := i % 2
			if ty&0xffff == 3 {
				extra = 0
			}
			m2("marshal/base", nm, ty, seqs[i%len(seqs)], 1, Ls(PatV(i, i*3%40), Str("caller"), PatV(i+1, i%5), I(extra), Str("k"), PatV(i, 9)), 0)
			m2("marshal/stub", nm, ty, seqs[(i+1)%len(seqs)], 2, Ls(PatV(i, i*7%50)), i%2)
		}
	}
	m2("marshal/base", Str("m"), 1, 1, 1, Ls(Bs(nil), Bs(nil), Bs(nil), I(0), Bs(nil), Bs(nil)), 0)
	// exception payloads with unknown scalar / string fields, other field orders, truncations
	fld := func(t byte, id int16, body []byte) []byte {
		b := []byte{t}
		b = binary.BigEndian.AppendUint16(b, uint16(id))
		return append(b, body...)
	}
	str := func(s string) []byte { return append(binary.BigEndian.AppendUint32(nil, uint32(len(s))), s...) }
	exPayloads := [][]byte{
		append(append(fld(11, 1, str("msg")), fld(8, 2, []byte{0, 0, 0, 6})...), 0),
		append(append(fld(8, 2, []byte{0xff, 0xff, 0xff, 0xfe}), fld(11, 1, str("reversed"))...), 0),
		append(append(append(fld(11, 9, str("unknown string first")), fld(11, 1, str("after unknown"))...), fld(8, 2, []byte{0, 0, 0, 1})...), 0),
		append(append(append(fld(10, 3, []byte{1, 2, 3, 4, 5, 6, 7, 8}), fld(2, 4, []byte{1})...), fld(11, 1, str("m"))...), 0),
		append(append(fld(8, 1, []byte{0, 0, 0, 9}), fld(11, 2, str("wrong types for ids"))...), 0),
		{0},
		{},
		fld(11, 1, str("no stop")),
		append(fld(11, 1, []byte{0xff, 0xff, 0xff, 0xff}), 0),
		append(append(fld(4, 7, []byte{1, 2, 3, 4, 5, 6, 7, 8}), fld(6, 8, []byte{1, 2})...), fld(3, 9, []byte{1})...),
		append(fld(1, 1, nil), 0), // VOID: unknown data type
		append(fld(0x7f, 1, nil), 0),
	}
	// unknown CONTAINER fields (the model runs the full Binary.Skip): list<string>, set<i64> (fast path),
	// map<i32,string>, nested struct, map<string,list<i16>>, nesting beyond the depth limit, negative
	// counts, an unknown element type, each followed by the known fields
	be32 := func(n int32) []byte { return binary.BigEndian.AppendUint32(nil, uint32(n)) }
	cat := func(bs ...[]byte) []byte {
		var o []byte
		for _, b := range bs {
			o = append(o, b...)
		}
		return o
	}
	known := cat(fld(11, 1, str("after a container")), fld(8, 2, be32(42)), []byte{0})
	deep := func(n int) []byte { // n nested lists around one byte
		var o []byte
		for i := 0; i < n; i++ {
			o = append(o, 15)
			o = append(o, be32(1)...)
		}
		o = append(o, 3)
		o = append(o, be32(1)...)
		return append(o, 7)
	}
	exPayloads = append(exPayloads,
		cat(fld(15, 5, cat([]byte{11}, be32(2), str("a"), str("bc"))), known),
		cat(fld(14, 6, cat([]byte{10}, be32(3), make([]byte, 24))), known),
		cat(fld(13, 7, cat([]byte{8, 11}, be32(2), be32(1), str("x"), be32(2), str("yz"))), known),
		cat(fld(12, 8, cat(fld(8, 1, be32(5)), fld(12, 2, cat(fld(2, 1, []byte{1}), []byte{0})), []byte{0})), known),
		cat(fld(13, 9, cat([]byte{11, 15}, be32(1), str("k"), []byte{6}, be32(2), []byte{0, 1, 0, 2})), known),
		cat(fld(15, 10, deep(10)), known),
		cat(fld(15, 10, deep(62)), known),
		cat(fld(15, 10, deep(63)), known),
		cat(fld(15, 10, deep(64)), known),
		cat(fld(15, 10, deep(70)), known),
		cat(fld(15, 11, cat([]byte{11}, be32(-1))), known),
		cat(fld(13, 11, cat([]byte{8, 8}, be32(-2))), known),
		cat(fld(14, 11, cat([]byte{8}, be32(0x7fffffff))), known),
		cat(fld(15, 12, cat([]byte{1}, be32(1))), known),
		cat(fld(13, 12, cat([]byte{11, 0x55}, be32(1), str("k"))), known),
		cat(known[:len(known)-1], fld(15, 5, cat([]byte{12}, be32(2), []byte{0}, fld(3, 1, []byte{9}), []byte{0})), []byte{0}),
	)
	for k := 0; k < 40; k++ { // random well-formed unknown values of every type, then the known fields
		t := []byte{2, 3, 4, 6, 8, 10, 11, 12, 13, 14, 15}[g.R.Intn(11)]
		exPayloads = append(exPayloads, cat(fld(t, int16(20+k), c12RandVal(g, t, 3)), known))
	}
	for _, pb := range exPayloads {
		for _, ty := range []int64{3, 1} {
			m2("marshal/ex-payload", Str("M"), ty, 9, 2, Ls(Bs(pb)), 0)
			full := append(c12Enc([]byte("M"), int32(ty), 9), pb...)
			for cut := len(full) - len(pb); cut <= len(full); cut++ {
				g.Add("unmarshal/ex-payload", Ls(I(3), Bs(full[:cut]), I([]int{0, 2}[cut%2]), I(0)))
			}
		}
	}
	// 5. mode 3: truncations of marshalled messages, version sweep through UnmarshalFastMsg
	for _, ty := range []int32{1, 3} {
		pb, _ := thrift.MarshalFastMsg("Method", ty, 77, thrift.NewApplicationException(6, "internal"))
		for cut := 0; cut <= len(pb); cut++ {
			g.Add("unmarshal/trunc", Ls(I(3), Bs(pb[:cut]), I(0), I(0)))
			g.Add("unmarshal/trunc", Ls(I(3), Bs(pb[:cut]), I(2), I(cut%2)))
		}
	}
	for hi := 0; hi < 65536; hi++ {
		d := binary.BigEndian.AppendUint32(nil, uint32(hi)<<16|uint32(hi%5))
		d = append(d, tailv...)
		d = append(d, 0)
		g.Add("unmarshal/firstword", Ls(I(3), Bs(d), I([]int{2, 0}[hi%2]), I(0)))
	}
	// 6. mode 4: WriteMessageBegin into buffers of every length around the header
	for _, nm := range []string{"", "a", "Echo"} {
		n := len(c12Enc([]byte(nm), 1, 1))
		for bl := 0; bl <= n+2; bl++ {
			g.Add("inplace-fit", Ls(I(4), Str(nm), I(1), I(-2), I(bl), I(bl+3)))
		}
	}
	g.R.Shuffle(len(g.cases), func(i, j int) { g.cases[i], g.cases[j] = g.cases[j], g.cases[i] })
}

// a random well-formed Thrift value of type t (nesting at most d)
func c12RandVal(g *Gen, t byte, d int) []byte {
	be32 := func(n int) []byte { return binary.BigEndian.AppendUint32(nil, uint32(n)) }
	pick := func() byte {
		if d <= 0 {
			return []byte{2, 3, 4, 6, 8, 10, 11}[g.R.Intn(7)]
		}
		return []byte{2, 3, 4, 6, 8, 10, 11, 12, 13, 14, 15}[g.R.Intn(11)]
	}
	switch t {
	case 2, 3:
		return []byte{byte(g.R.Intn(256))}
	case 6:
		return Pat(g.R.Intn(99), 2)
	case 8:
		return Pat(g.R.Intn(99), 4)
	case 4, 10:
		return Pat(g.R.Intn(99), 8)
	case 11:
		n := g.R.Intn(9)
		return append(be32(n), Pat(g.R.Intn(99), n)...)
	case 12:
		var o []byte
		for i, n := 0, g.R.Intn(4); i < n; i++ {
			ft := pick()
			o = append(o, ft, 0, byte(i+1))
			o = append(o, c12RandVal(g, ft, d-1)...)
		}
		return append(o, 0)
	case 13:
		kt, vt, n := pick(), pick(), g.R.Intn(4)
		o := append([]byte{kt, vt}, be32(n)...)
		for i := 0; i < n; i++ {
			o = append(o, c12RandVal(g, kt, d-1)...)
			o = append(o, c12RandVal(g, vt, d-1)...)
		}
		return o
	default: // 14, 15
		et, n := pick(), g.R.Intn(4)
		o := append([]byte{et}, be32(n)...)
		for i := 0; i < n; i++ {
			o = append(o, c12RandVal(g, et, d-1)...)
		}
		return o
	}
}

func init() {
	register("C12", &Prop{Gen: c12Gen, Run: c12Run})
}
