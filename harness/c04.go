package main

import (
	"errors"
	"io"

	"github.com/cloudwego/gopkg/bufiox"
)

// ---- scripted source: exactly Model/BufReader.v src_read ----
var c04ErrInjected = errors.New("verif: injected source error")

type c04Src struct {
	data   []byte
	final  error
	with   bool
	chunks []int
	pos    int
	reads  int
	failed bool // the final error has been delivered once
}

// what a source returns when it is read again after it has reported its error: a reader that has
// latched the source's error never gets here (C04: the source's own error is what surfaces)
var c04ErrReadAfterError = errors.New("c04: source read again after it reported its error")

var c04RelErr = errors.New("the caller's own processing error")
var relN int

func (s *c04Src) Read(p []byte) (int, error) {
	s.reads++
	room := len(p)
	c := room
	if len(s.chunks) > 0 {
		c = s.chunks[0]
		s.chunks = s.chunks[1:]
	}
	if s.failed {
		return 0, c04ErrReadAfterError
	}
	remaining := len(s.data) - s.pos
	if remaining == 0 {
		s.failed = s.final != nil
		return 0, s.final
	}
	m := c
	if room < m {
		m = room
	}
	if remaining < m {
		m = remaining
	}
	copy(p, s.data[s.pos:s.pos+m])
	s.pos += m
	if s.with && m == remaining && m != 0 {
		s.failed = s.final != nil
		return m, s.final
	}
	return m, nil
}

func c04ErrCode(err error) int {
	switch {
	case err == nil:
		return 0
	case err == io.EOF:
		return 20
	case err == c04ErrInjected:
		return 21
	case err == io.ErrNoProgress:
		return 22
	case err == c04ErrReadAfterError:
		return 24
	case err.Error() == "bufiox: negative count":
		return 23
	}
	return 99
}

func c04Expand(v V) []int {
	var out []int
	for _, it := range AsList(v) {
		if l, ok := it.(VL); ok {
			c, k := AsInt(l[0]), AsInt(l[1])
			for i := 0; i < k; i++ {
				out = append(out, c)
			}
		} else {
			out = append(out, AsInt(it))
		}
	}
	return out
}

func c04RunOps(r bufiox.Reader, ops []V) V {
	var outs VL
	for _, o := range ops {
		a := AsList(o)
		switch AsInt(a[0]) {
		case 0, 1:
			var b []byte
			var err error
			if AsInt(a[0]) == 0 {
				b, err = r.Next(AsInt(a[1]))
			} else {
				b, err = r.Peek(AsInt(a[1]))
			}
			if err != nil {
				outs = append(outs, Ls(I(1), I(c04ErrCode(err))))
			} else if b == nil && AsInt(a[1]) != 0 {
				outs = append(outs, Ls(I(2)))
			} else {
				outs = append(outs, Ls(I(0), Bs(b)))
			}
		case 2:
			if err := r.Skip(AsInt(a[1])); err != nil {
				outs = append(outs, Ls(I(1), I(c04ErrCode(err))))
			} else {
				outs = append(outs, Ls(I(3)))
			}
		case 3:
			k := AsInt(a[1])
			bs := make([]byte, k)
			for i := range bs {
				bs[i] = 0xEE
			}
			m, err := r.ReadBinary(bs)
			mm := m
			if mm > k {
				mm = k
			}
			if mm < 0 {
				mm = 0
			}
			outs = append(outs, Ls(I(4), I(m), Bs(bs[:mm]), I(c04ErrCode(err))))
		case 4:
			outs = append(outs, Ls(I(5), I(r.ReadLen())))
		case 5:
			// Release(e): e is the caller's own processing error; it must make no difference to the reader
			if relN++; relN&1 == 0 {
				r.Release(c04RelErr)
			} else {
				r.Release(nil)
			}
			outs = append(outs, Ls(I(3)))
		}
	}
	return outs
}

func init() {
	register("C04", &Prop{
		Gen: genC04,
		Run: func(in V) V {
			a := AsList(in)
			kind := AsInt(a[0])
			data := AsBytes(a[1])
			ops := AsList(a[5])
			if kind == 0 {
				fin := io.EOF
				if AsInt(a[2]) == 21 {
					fin = c04ErrInjected
				}
				src := &c04Src{data: data, final: fin, with: AsBool(a[3]), chunks: c04Expand(a[4])}
				return c04RunOps(bufiox.NewDefaultReader(src), ops)
			}
			extra := AsInt(a[6])
			buf := make([]byte, len(data), len(data)+extra)
			copy(buf, data)
			return c04RunOps(bufiox.NewBytesReader(buf), ops)
		},
	})
}

// c04Case is one generated case before the final interleaving.
type c04Case struct {
	class string
	in    V
}

func genC04(g *Gen) {
	const B = 4096 // boundary alphabet is built around the usual buffer size; the model takes the real one from Consts.v
	var all []c04Case
	add := func(class string, in V) { all = append(all, c04Case{class, in}) }
	sizeAlpha := []int{0, 1, 2, B - 1, B, B + 1, 2*B + 1}
	type script struct {
		name   string
		chunks V
		with   int
	}
	min := func(a, b int) int {
		if a < b {
			return a
		}
		return b
	}
	// script families over a stream of n bytes (DESIGN 5 C04).  1-byte fragmentation covers more than
	// two buffers and then falls back to "as much as fits", so that long streams stay cheap.
	scripts := func(n int) []script {
		bw := min(n+2, 2*B+600)
		return []script{
			{"one", Ls(), 0},
			{"one+eof", Ls(), 1},
			{"bytewise", Ls(Ls(I(1), I(bw))), 0},
			{"bytewise+eof", Ls(Ls(I(1), I(bw))), 1},
			{"short", Ls(I(3), I(1), I(7), I(100), I(2), Ls(I(997), I(n/997+2))), 0},
			{"empties", Ls(I(0), I(5), I(0), I(0), I(700), Ls(I(0), I(99)), I(1), Ls(I(0), I(99)), Ls(I(4000), I(n/4000+2))), 1},
			{"bigchunk", Ls(I(3*B), I(1), Ls(I(5*B), I(n/B+2))), 0},
			{"stall", Ls(I(10), Ls(I(0), I(100)), I(5), Ls(I(0), I(101)), Ls(I(50), I(min(n/50+2, 400)))), 0},
		}
	}
	mkop := func(k, n int) V { return Ls(I(k), I(n)) }
	rl := Ls(I(4))
	rel := Ls(I(5))
	withLen := func(ops ...V) VL { // every op followed by ReadLen
		out := VL{}
		for _, o := range ops {
			out = append(out, o, rl)
		}
		return out
	}
	reader := func(seed, dl, fin, with int, chunks V, ops VL) V {
		return Ls(I(0), PatV(seed, dl), I(fin), I(with), chunks, ops, I(0))
	}

	// 1. bounded-exhaustive op sequences over the boundary alphabet
	maxLen := 2
	var seqs [][]V
	var opsAlpha []V
	for k := 0; k < 4; k++ {
		for _, n := range sizeAlpha {
			opsAlpha = append(opsAlpha, mkop(k, n))
		}
	}
	opsAlpha = append(opsAlpha, rel)
	var rec func(cur []V, d int)
	rec = func(cur []V, d int) {
		if d > 0 {
			seqs = append(seqs, append([]V(nil), cur...))
		}
		if d == maxLen {
			return
		}
		for _, o := range opsAlpha {
			rec(append(cur, o), d+1)
		}
	}
	rec(nil, 0)
	dataLens := []int{0, 1, B, 3*B + 5}
	taken := 0
	for _, seq := range seqs {
		for _, dl := range dataLens {
			// quick tier: every (sequence, length) combination once, scripts rotating; thorough: all 8 scripts
			nsc := 1
			if g.Thor {
				nsc = 8
			}
			for k := 0; k < nsc; k++ {
				scs := scripts(dl)
				sc := scs[taken%len(scs)]
				taken++
				add("exh/"+sc.name, reader(taken, dl, 20+taken%2, sc.with, sc.chunks, withLen(seq...)))
			}
		}
	}
	if g.Thor { // length 3 over a reduced alphabet
		red := []V{mkop(0, 1), mkop(0, B), mkop(0, B+1), mkop(1, 2*B+1), mkop(2, B-1), mkop(3, B+1), mkop(3, 2), rel}
		for _, a := range red {
			for _, b := range red {
				for _, c := range red {
					for _, dl := range dataLens {
						scs := scripts(dl)
						sc := scs[taken%len(scs)]
						taken++
						add("exh3/"+sc.name, reader(taken, dl, 20+taken%2, sc.with, sc.chunks, withLen(a, b, c)))
					}
				}
			}
		}
	}

	// 2. small cases (everything far below the buffer size): many, cheap, feed the in-kernel sample
	for i := 0; i < g.Scale(2200, 30000); i++ {
		dl := g.R.Intn(60)
		var chunks VL
		for j := g.R.Intn(8); j > 0; j-- {
			chunks = append(chunks, I(g.R.Intn(9)))
		}
		var ops VL
		for j := 1 + g.R.Intn(8); j > 0; j-- {
			switch g.R.Intn(10) {
			case 0:
				ops = append(ops, rel)
			case 1:
				ops = append(ops, rl)
			case 2:
				ops = append(ops, mkop(g.R.Intn(3), -1-g.R.Intn(3)))
			default:
				ops = append(ops, mkop(g.R.Intn(4), g.R.Intn(25)))
			}
		}
		ops = append(ops, rl)
		if g.R.Intn(4) == 0 {
			add("small/bytes", Ls(I(1), PatV(i, dl), I(20), I(0), Ls(), ops, I(g.R.Intn(3)*g.R.Intn(40))))
		} else {
			add("small/reader", reader(i, dl, 20+g.R.Intn(2), g.R.Intn(2), chunks, ops))
		}
	}

	// 3. directed: the source fails at every position relative to the request boundaries
	//    (data before the error / together with the error, EOF and injected error), all four consuming ops
	for _, sizes := range [][]int{{4, 6}, {1, 1}, {10, 0}, {B, 1}, {B - 1, 2}, {100, B}, {2 * B, 3}} {
		total := sizes[0] + sizes[1]
		for _, dl := range []int{0, sizes[0] - 1, sizes[0], sizes[0] + 1, total - 1, total, total + 1, total + 7} {
			if dl < 0 {
				continue
			}
			for k := 0; k < 4; k++ {
				for with := 0; with < 2; with++ {
					ops := withLen(mkop(k, sizes[0]), mkop((k+1)%4, sizes[1]), mkop(0, 1), mkop(3, 5))
					var chunks V = Ls()
					switch (k + with + dl) % 3 {
					case 1:
						chunks = Ls(Ls(I(1), I(min(dl, 200))), I(dl)) // 1-byte reads, then the rest in one piece
					case 2:
						chunks = Ls(I(sizes[0]), I(3), I(dl))
					}
					add("errpos", reader(dl+k, dl, 20+(dl+k)%2, with, chunks, ops))
				}
			}
		}
	}
	// D4 shape: more data than requested arrives together with the error
	for _, k := range []int{1, 4, 9, 10, 11} {
		for op := 0; op < 4; op++ {
			add("with-error", reader(k, 10, 20+k%2, 1, Ls(), withLen(mkop(op, k), mkop(3, 6), mkop(0, 1))))
		}
	}

	// 4. directed: runs of empty reads of length 1/99/100/101/199/200 at the start of an acquire and in
	//    the middle of one (after some progress), then ops on the sticky error
	for _, run := range []int{1, 2, 98, 99, 100, 101, 199, 200, 201} {
		for _, pre := range []int{0, 3} {
			for op := 0; op < 4; op++ {
				var ch VL
				if pre > 0 {
					ch = append(ch, I(pre))
				}
				ch = append(ch, Ls(I(0), I(run)), I(2), Ls(I(0), I(run/2)), I(1000))
				ops := withLen(mkop(op, 8), mkop(0, 2), mkop(1, 1), mkop(3, 40), rel, mkop(0, 1))
				add("empties", reader(run+op, 30, 20, op%2, ch, ops))
			}
		}
	}
	// two runs of 60 separated by one byte inside one acquire: not a stall
	add("empties", reader(7, 50, 20, 0, Ls(Ls(I(0), I(60)), I(1), Ls(I(0), I(60)), I(1), Ls(I(0), I(99)), I(100)), withLen(mkop(0, 10), mkop(0, 40))))
	// a run of 150 split over two acquires (60 consumed by the first, which is satisfied before them)
	add("empties", reader(8, 50, 20, 0, Ls(I(4), Ls(I(0), I(99)), I(4), Ls(I(0), I(99)), I(100)), withLen(mkop(0, 4), mkop(0, 4), mkop(0, 4))))

	// a request that is served exactly from the window must not touch the source: an extra Read would use
	// up one entry of the run of empty reads that follows (exact-fit boundary of the fast path)
	for _, k := range []int{0, 1, 10} {
		for op := 0; op < 4; op++ {
			for _, run := range []int{99, 100} {
				var ch VL
				var ops []V
				if k > 0 {
					ch = append(ch, I(k))
					ops = append(ops, mkop(1, k))
				}
				ch = append(ch, Ls(I(0), I(run)), I(50))
				ops = append(ops, mkop(op, k), mkop(0, 3), mkop(0, 1))
				add("exactfit", reader(k+op, 40, 20, 0, ch, withLen(ops...)))
			}
		}
	}

	// 5. directed: allocation and growth boundaries (request against cap-ri), with and without unread tail,
	//    Release with empty / non-empty window, stats-driven allocation after Release, bytes-backed growth
	for _, a := range []int{0, 1, 2, 100, B - 1} {
		for _, c := range []int{B, 2 * B, 4 * B} {
			for d := -1; d <= 1; d++ {
				n := c - a + d
				if n < 0 {
					continue
				}
				for op := 0; op < 4; op++ {
					dl := c + 50
					scs := scripts(dl)
					sc := scs[(a+c/B+d+op+8)%len(scs)]
					ops := withLen(mkop(0, a), mkop(op, n), mkop(0, 3), rel, mkop(op, 5), rel, mkop(1, 2))
					add("grow/"+sc.name, reader(a+op, dl, 20, sc.with, sc.chunks, ops))
				}
			}
		}
	}
	for _, first := range []int{1, B, B + 1, 3*B + 1} { // Release after everything was consumed: the next allocation uses the recorded size
		ops := withLen(mkop(0, first), rel, mkop(0, 1), mkop(1, B), rel, mkop(3, 2*B), mkop(0, 1))
		add("release", reader(first, first+3*B+20, 20, 0, Ls(I(first), I(1), I(5*B), I(5*B)), ops))
		add("release", reader(first, first+3*B+20, 21, 1, Ls(), ops))
	}
	for _, dl := range []int{0, 1, 100, B, B + 1} { // bytes-backed: inside, exactly at and beyond the slice; extra capacity
		for _, extra := range []int{0, 1, 50} {
			for op := 0; op < 4; op++ {
				ops := withLen(mkop(op, dl/2), mkop(1, dl-dl/2), mkop(0, dl-dl/2), mkop(op, 1), rel, mkop(2, 0), mkop(0, 1))
				add("bytes", Ls(I(1), PatV(dl+op, dl), I(20), I(0), Ls(), ops, I(extra)))
				ops2 := withLen(mkop(0, 1), rel, mkop(op, dl+extra), mkop(op, dl), rel, mkop(1, 2*dl+extra+1), mkop(1, 8*(dl+extra)+5), rel, mkop(0, 4), rel, mkop(1, 1))
				add("bytes", Ls(I(1), PatV(dl+op, dl+3), I(20), I(0), Ls(), ops2, I(extra)))
			}
		}
	}

	// 6. random histories: most over streams up to a few buffers, few over long ones
	alpha := []int{0, 1, 2, 3, 7, 100, B - 1, B, B + 1, 2*B - 1, 2 * B, 2*B + 1, 3*B + 1, 20000}
	for i := 0; i < g.Scale(220, 6000); i++ {
		var dl, maxOps int
		switch r := g.R.Intn(100); {
		case r < 30:
			dl, maxOps = 100+g.R.Intn(2000), 40
		case r < 60:
			dl, maxOps = []int{B, 2 * B}[g.R.Intn(2)]-25+g.R.Intn(50), 30
		case r < 88:
			dl, maxOps = 3*B+g.R.Intn(50), 25
		case r < 97:
			dl, maxOps = 10*B+g.R.Intn(50), 12
		default:
			dl, maxOps = 70000+g.R.Intn(50), 10
		}
		if g.Thor {
			maxOps *= 8
		}
		scs := scripts(dl)
		sc := scs[g.R.Intn(len(scs))]
		if g.R.Intn(3) == 0 { // random script
			var ch VL
			for j := 0; j < 30; j++ {
				switch g.R.Intn(6) {
				case 0:
					ch = append(ch, Ls(I(0), I(g.R.Intn(120))))
				case 1:
					ch = append(ch, I(1+g.R.Intn(3*B)))
				default:
					ch = append(ch, Ls(I(1+g.R.Intn(300)), I(1+g.R.Intn(40))))
				}
			}
			sc = script{"random", ch, g.R.Intn(2)}
		}
		nops := 3 + g.R.Intn(maxOps)
		var ops VL
		for j := 0; j < nops; j++ {
			switch g.R.Intn(12) {
			case 0:
				ops = append(ops, rel)
			case 1:
				ops = append(ops, rl)
			case 2:
				ops = append(ops, mkop(g.R.Intn(3), -1))
			case 3, 4:
				ops = append(ops, mkop(g.R.Intn(4), g.R.Intn(300)))
			default:
				ops = append(ops, mkop(g.R.Intn(4), alpha[g.R.Intn(len(alpha))]))
			}
			if g.R.Intn(3) == 0 {
				ops = append(ops, rl)
			}
		}
		if g.R.Intn(5) == 0 {
			add("rand/bytes", Ls(I(1), PatV(i, dl), I(20), I(0), Ls(), ops, I(g.R.Intn(2)*g.R.Intn(5000))))
		} else {
			add("rand/"+sc.name, reader(i, dl, 20+g.R.Intn(2), sc.with, sc.chunks, ops))
		}
	}

	// emit in a fixed interleaved order (stride permutation) so that the expensive long-stream cases are
	// spread evenly over the shards of the model driver
	n := len(all)
	stride := n*618/1000 + 1
	gcd := func(a, b int) int {
		for b != 0 {
			a, b = b, a%b
		}
		return a
	}
	for gcd(stride, n) != 1 {
		stride++
	}
	for i := 0; i < n; i++ {
		c := all[(i*stride)%n]
		g.Add(c.class, c.in)
	}
}
