package main

import (
	"errors"
	"io"

	"github.com/cloudwego/gopkg/bufiox"
)

// ---- scripted source: exactly Model/BufReader.v src_read ----
var c04ErrInjected = errors.New("verif: injected source error")

type c04Src struct {
	data   []byte
	final  error
	with   bool
	chunks []int
	pos    int
	reads  int
}

func (s *c04Src) Read(p []byte) (int, error) {
	s.reads++
	room := len(p)
	c := room
	if len(s.chunks) > 0 {
		c = s.chunks[0]
		s.chunks = s.chunks[1:]
	}
	remaining := len(s.data) - s.pos
	if remaining == 0 {
		return 0, s.final
	}
	m := c
	if room < m {
		m = room
	}
	if remaining < m {
		m = remaining
	}
	copy(p, s.data[s.pos:s.pos+m])
	s.pos += m
	if s.with && m == remaining && m != 0 {
		return m, s.final
	}
	return m, nil
}

func c04ErrCode(err error) int {
	switch {
	case err == nil:
		return 0
	case err == io.EOF:
		return 20
	case err == c04ErrInjected:
		return 21
	case err == io.ErrNoProgress:
		return 22
	case err.Error() == "bufiox: negative count":
		return 23
	}
	return 99
}

func c04Expand(v V) []int {
	var out []int
	for _, it := range AsList(v) {
		if l, ok := it.(VL); ok {
			c, k := AsInt(l[0]), AsInt(l[1])
			for i := 0; i < k; i++ {
				out = append(out, c)
			}
		} else {
			out = append(out, AsInt(it))
		}
	}
	return out
}

func c04RunOps(r bufiox.Reader, ops []V) V {
	var outs VL
	for _, o := range ops {
		a := AsList(o)
		switch AsInt(a[0]) {
		case 0, 1:
			var b []byte
			var err error
			if AsInt(a[0]) == 0 {
				b, err = r.Next(AsInt(a[1]))
			} else {
				b, err = r.Peek(AsInt(a[1]))
			}
			if err != nil {
				outs = append(outs, Ls(I(1), I(c04ErrCode(err))))
			} else if b == nil && AsInt(a[1]) != 0 {
				outs = append(outs, Ls(I(2)))
			} else {
				outs = append(outs, Ls(I(0), Bs(b)))
			}
		case 2:
			if err := r.Skip(AsInt(a[1])); err != nil {
				outs = append(outs, Ls(I(1), I(c04ErrCode(err))))
			} else {
				outs = append(outs, Ls(I(3)))
			}
		case 3:
			k := AsInt(a[1])
			bs := make([]byte, k)
			for i := range bs {
				bs[i] = 0xEE
			}
			m, err := r.ReadBinary(bs)
			mm := m
			if mm > k {
				mm = k
			}
			if mm < 0 {
				mm = 0
			}
			outs = append(outs, Ls(I(4), I(m), Bs(bs[:mm]), I(c04ErrCode(err))))
		case 4:
			outs = append(outs, Ls(I(5), I(r.ReadLen())))
		case 5:
			r.Release(nil)
			outs = append(outs, Ls(I(3)))
		}
	}
	return outs
}

func init() {
	register("C04", &Prop{
		Gen: genC04,
		Run: func(in V) V {
			a := AsList(in)
			kind := AsInt(a[0])
			data := AsBytes(a[1])
			ops := AsList(a[5])
			if kind == 0 {
				fin := io.EOF
				if AsInt(a[2]) == 21 {
					fin = c04ErrInjected
				}
				src := &c04Src{data: data, final: fin, with: AsBool(a[3]), chunks: c04Expand(a[4])}
				return c04RunOps(bufiox.NewDefaultReader(src), ops)
			}
			extra := AsInt(a[6])
			buf := make([]byte, len(data), len(data)+extra)
			copy(buf, data)
			return c04RunOps(bufiox.NewBytesReader(buf), ops)
		},
	})
}

func genC04(g *Gen) {
	const B = 4096
	sizeAlpha := []int{0, 1, 2, B - 1, B, B + 1, 2*B + 1}
	type script struct {
		name   string
		chunks V
		with   int
	}
	scripts := func(n int) []script {
		return []script{
			{"one", Ls(), 0},
			{"one+eof", Ls(), 1},
			{"bytewise", Ls(Ls(I(1), I(n+2))), 0},
			{"bytewise+eof", Ls(Ls(I(1), I(n+2))), 1},
			{"short", Ls(I(3), I(1), I(7), I(100), I(2), Ls(I(997), I(n/997+2))), 0},
			{"empties", Ls(I(0), I(5), I(0), I(0), I(700), Ls(I(0), I(99)), I(1), Ls(I(0), I(99)), Ls(I(4000), I(n/4000+2))), 1},
			{"bigchunk", Ls(I(3*B), I(1), Ls(I(5*B), I(n/B+2))), 0},
			{"stall", Ls(I(10), Ls(I(0), I(100)), I(5), Ls(I(0), I(101)), Ls(I(50), I(n/50+2))), 0},
		}
	}
	mkop := func(k, n int) V { return Ls(I(k), I(n)) }
	// 1. bounded-exhaustive op sequences over the boundary alphabet
	maxLen := 2
	var seqs [][]V
	var opsAlpha []V
	for k := 0; k < 4; k++ {
		for _, n := range sizeAlpha {
			opsAlpha = append(opsAlpha, mkop(k, n))
		}
	}
	opsAlpha = append(opsAlpha, Ls(I(5)))
	var rec func(cur []V, d int)
	rec = func(cur []V, d int) {
		if d > 0 {
			seqs = append(seqs, append([]V(nil), cur...))
		}
		if d == maxLen {
			return
		}
		for _, o := range opsAlpha {
			rec(append(cur, o), d+1)
		}
	}
	rec(nil, 0)
	dataLens := []int{0, 1, B, 3*B + 5}
	cnt := 0
	for _, seq := range seqs {
		// in the quick tier take every 3rd sequence per script/data combination, rotating
		for si, dl := range dataLens {
			scs := scripts(dl)
			sc := scs[(cnt+si)%len(scs)]
			cnt++
			if !g.Thor && cnt%3 != 0 {
				continue
			}
			ops := VL{}
			for _, o := range seq {
				ops = append(ops, o, Ls(I(4)))
			}
			g.Add("exh/"+sc.name, Ls(I(0), PatV(cnt, dl), I(20+cnt%2), I(sc.with), sc.chunks, ops, I(0)))
		}
	}
	// 2. small cases (everything below the buffer size): many, cheap, feed the in-kernel sample
	for i := 0; i < g.Scale(1500, 20000); i++ {
		dl := g.R.Intn(60)
		var chunks VL
		for j := g.R.Intn(8); j > 0; j-- {
			chunks = append(chunks, I(g.R.Intn(9)))
		}
		var ops VL
		for j := 1 + g.R.Intn(8); j > 0; j-- {
			switch g.R.Intn(10) {
			case 0:
				ops = append(ops, Ls(I(5)))
			case 1:
				ops = append(ops, Ls(I(4)))
			case 2:
				ops = append(ops, mkop(g.R.Intn(3), -1-g.R.Intn(3)))
			default:
				ops = append(ops, mkop(g.R.Intn(4), g.R.Intn(25)))
			}
		}
		ops = append(ops, Ls(I(4)))
		if g.R.Intn(4) == 0 {
			g.Add("small/bytes", Ls(I(1), PatV(i, dl), I(20), I(0), Ls(), ops, I(g.R.Intn(3)*g.R.Intn(40))))
		} else {
			g.Add("small/reader", Ls(I(0), PatV(i, dl), I(20+g.R.Intn(2)), I(g.R.Intn(2)), chunks, ops, I(0)))
		}
	}
	// 3. random histories over large streams
	alpha := []int{0, 1, 2, 3, 7, 100, B - 1, B, B + 1, 2*B - 1, 2 * B, 2*B + 1, 3*B + 1, 20000}
	for i := 0; i < g.Scale(250, 6000); i++ {
		dl := []int{100, B, 3 * B, 10 * B, 70000}[g.R.Intn(5)] + g.R.Intn(50)
		scs := scripts(dl)
		sc := scs[g.R.Intn(len(scs))]
		if g.R.Intn(3) == 0 { // random script
			var ch VL
			for j := 0; j < 30; j++ {
				switch g.R.Intn(6) {
				case 0:
					ch = append(ch, Ls(I(0), I(g.R.Intn(120))))
				case 1:
					ch = append(ch, I(1+g.R.Intn(3*B)))
				default:
					ch = append(ch, Ls(I(1+g.R.Intn(300)), I(1+g.R.Intn(40))))
				}
			}
			sc = script{"random", ch, g.R.Intn(2)}
		}
		nops := 3 + g.R.Intn(g.Scale(25, 300))
		var ops VL
		for j := 0; j < nops; j++ {
			switch g.R.Intn(12) {
			case 0:
				ops = append(ops, Ls(I(5)))
			case 1:
				ops = append(ops, Ls(I(4)))
			case 2:
				ops = append(ops, mkop(g.R.Intn(3), -1))
			case 3, 4:
				ops = append(ops, mkop(g.R.Intn(4), g.R.Intn(300)))
			default:
				ops = append(ops, mkop(g.R.Intn(4), alpha[g.R.Intn(len(alpha))]))
			}
			if g.R.Intn(3) == 0 {
				ops = append(ops, Ls(I(4)))
			}
		}
		if g.R.Intn(5) == 0 {
			g.Add("rand/bytes", Ls(I(1), PatV(i, dl), I(20), I(0), Ls(), ops, I(g.R.Intn(2)*g.R.Intn(5000))))
		} else {
			g.Add("rand/"+sc.name, Ls(I(0), PatV(i, dl), I(20+g.R.Intn(2)), I(sc.with), sc.chunks, ops, I(0)))
		}
	}
}
