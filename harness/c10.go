package main

import (
	"encoding/binary"
)

// C10 — TTHeader Decode on hostile frames.  Formats: see coq/Corr/C10.v.
// Frames are built by the harness' own encoder below (nothing from package ttheader).

type c10Sec struct {
	kind int // 0 pad, 1 str kv, 2 int kv, 3 acl
	sk   [][2][]byte
	ik   []int
	iv   [][]byte
	tok  []byte
	cnt  int // count written on the wire; -1: the real number of entries
}

func c10Str(out []byte, s []byte) []byte {
	out = append(out, byte(len(s)>>8), byte(len(s)))
	return append(out, s...)
}

func c10EncSecs(secs []c10Sec) []byte {
	var out []byte
	for _, s := range secs {
		switch s.kind {
		case 0:
			out = append(out, 0)
		case 1:
			n := len(s.sk)
			if s.cnt >= 0 {
				n = s.cnt
			}
			out = append(out, 0x01, byte(n>>8), byte(n))
			for _, kv := range s.sk {
				out = c10Str(out, kv[0])
				out = c10Str(out, kv[1])
			}
		case 2:
			n := len(s.ik)
			if s.cnt >= 0 {
				n = s.cnt
			}
			out = append(out, 0x10, byte(n>>8), byte(n))
			for i, k := range s.ik {
				out = append(out, byte(k>>8), byte(k))
				out = c10Str(out, s.iv[i])
			}
		case 3:
			out = append(out, 0x11)
			out = c10Str(out, s.tok)
		}
	}
	return out
}

// a frame around the given header info (padded with zeros to a multiple of 4), size field set
// to match, total length set for the payload
func c10Frame(flags int, seq uint32, info []byte, payload []byte) []byte {
	for len(info)%4 != 0 {
		info = append(info, 0)
	}
	b := make([]byte, 14, 14+len(info)+len(payload))
	binary.BigEndian.PutUint16(b[4:], 0x1000)
	binary.BigEndian.PutUint16(b[6:], uint16(flags))
	binary.BigEndian.PutUint32(b[8:], seq)
	binary.BigEndian.PutUint16(b[12:], uint16(len(info)/4))
	b = append(b, info...)
	b = append(b, payload...)
	binary.BigEndian.PutUint32(b, uint32(len(b)-4))
	return b
}

func c10Info(pid int, transforms []byte, secs []c10Sec) []byte {
	info := []byte{byte(pid), byte(len(transforms))}
	info = append(info, transforms...)
	return append(info, c10EncSecs(secs)...)
}

func c10RandSec(g *Gen, keyAlphabet int) c10Sec {
	rb := func(n int) []byte {
		b := make([]byte, n)
		g.R.Read(b)
		return b
	}
	key := func() []byte {
		switch g.R.Intn(6) {
		case 0:
			return nil
		case 1:
			return []byte("RPC_TRANSIT_gdpr-token")
		}
		return []byte{byte('a' + g.R.Intn(keyAlphabet))}
	}
	s := c10Sec{cnt: -1}
	switch g.R.Intn(7) {
	case 0, 1:
		s.kind = 0
	case 2, 3:
		s.kind = 1
		for i, n := 0, g.R.Intn(4); i < n; i++ {
			s.sk = append(s.sk, [2][]byte{key(), rb(g.R.Intn(6))})
		}
	case 4, 5:
		s.kind = 2
		for i, n := 0, g.R.Intn(4); i < n; i++ {
			s.ik = append(s.ik, []int{0, 1, 2, 0xFFFF, 0x100}[g.R.Intn(5)])
			s.iv = append(s.iv, rb(g.R.Intn(6)))
		}
	default:
		s.kind = 3
		s.tok = rb(g.R.Intn(8))
	}
	return s
}

func c10Run(in V) V {
	a := AsList(in)
	frame := AsBytes(a[0])
	dec, sameFB, sameST := tthDecodeAll(frame, AsInt(a[1]))
	return Ls(dec, sameFB, sameST)
}

func init() {
	register("C10", &Prop{
		Run: c10Run,
		Gen: func(g *Gen) {
			add := func(class string, b []byte) { g.Add(class, Ls(Bs(b), I(1+g.R.Intn(19)))) }
			// base frames
			secsA := []c10Sec{
				{kind: 3, tok: []byte("tok"), cnt: -1},
				{kind: 1, sk: [][2][]byte{{[]byte("k1"), []byte("v1")}, {[]byte(""), []byte("xyz")}}, cnt: -1},
				{kind: 2, ik: []int{1, 0xFFFF}, iv: [][]byte{[]byte("a"), nil}, cnt: -1},
			}
			payload := make([]byte, 40)
			for i := range payload {
				if i >= 20 {
					payload[i] = byte(i * 37)
				}
			}
			frameA := c10Frame(2, 0x01020304, c10Info(0, nil, secsA), payload)
			frameB := c10Frame(0, 0xFFFFFFFF, c10Info(4, []byte{9, 8, 7}, []c10Sec{{kind: 0}, {kind: 2, ik: []int{5}, iv: [][]byte{[]byte("hello")}, cnt: -1}, {kind: 0}, {kind: 0}, {kind: 1, cnt: -1}, {kind: 3, cnt: -1}}), []byte{1, 2, 3})
			frameC := c10Frame(0xFFFF, 0x80000000, c10Info(0x11, nil, nil), nil)
			frameD := c10Frame(0x10, 7, c10Info(0x10, nil, []c10Sec{{kind: 1, sk: [][2][]byte{{[]byte("a"), []byte("1")}}, cnt: -1}, {kind: 1, sk: [][2][]byte{{[]byte("a"), []byte("2")}, {[]byte("b"), nil}}, cnt: -1}, {kind: 3, tok: []byte("t1"), cnt: -1}, {kind: 1, sk: [][2][]byte{{[]byte("RPC_TRANSIT_gdpr-token"), []byte("t2")}}, cnt: -1}, {kind: 2, ik: []int{1, 1}, iv: [][]byte{[]byte("x"), []byte("y")}, cnt: -1}}), make([]byte, 9))
			bases := [][]byte{frameA, frameB, frameC, frameD}
			for _, f := range bases {
				add("base", f)
			}
			// 0. the total-length field, varied on its own (the decoder does not read the payload: every
			// 32-bit value is a legal declaration): payload length = total + 4 - header length at the
			// 2^31 and 2^32 boundaries, below the header length, and at random
			for _, f := range bases {
				var vals []uint32
				for d := uint32(0); d < 12; d++ {
					vals = append(vals, d, 0x7fffffff-d, 0x80000000+d, 0xffffffff-d, uint32(len(f))-4+d, uint32(len(f))-4-d, 0x3fffffff+d, 0x40000000-d)
				}
				for i := 0; i < 40; i++ {
					vals = append(vals, g.R.Uint32())
				}
				for _, v := range vals {
					b := append([]byte(nil), f...)
					binary.BigEndian.PutUint32(b, v)
					add("total-length", b)
				}
			}
			// 1. short inputs
			for n := 0; n <= 20; n++ {
				if n <= len(frameA) {
					add("short", frameA[:n])
				}
				add("short", make([]byte, n))
				r := make([]byte, n)
				g.R.Read(r)
				add("short", r)
			}
			// 2. the size field: every value (thorough) or a boundary-dense subset (quick) on fixed bodies
			sweep16 := func(quickExtra int) []int {
				if g.Thor {
					out := make([]int, 65536)
					for i := range out {
						out[i] = i
					}
					return out
				}
				seen := map[int]bool{}
				var out []int
				put := func(v int) {
					if v >= 0 && v < 65536 && !seen[v] {
						seen[v] = true
						out = append(out, v)
					}
				}
				for v := 0; v < 300; v++ {
					put(v)
				}
				for sh := 8; sh <= 16; sh++ {
					for d := -20; d <= 20; d++ {
						put(1<<uint(sh) + d)
						put(3<<uint(sh-2) + d)
					}
				}
				for d := -300; d <= 300; d++ {
					put(0x4000 + d)
				}
				for i := 0; i < quickExtra; i++ {
					put(g.R.Intn(65536))
				}
				return out
			}
			for bi, f := range bases[:2] {
				extra := 1200
				if bi > 0 {
					extra = 100
				}
				for _, v := range sweep16(extra) {
					b := append([]byte(nil), f...)
					binary.BigEndian.PutUint16(b[12:], uint16(v))
					add("sizefield", b)
				}
			}
			// 2a. exhaustive in every tier: all 65536 values of the size field and all 65536 values
			// of the flags field on a compact frame (an int section, a string section, padding, a
			// payload that starts with zeros and goes on with garbage)
			frameS := c10Frame(0, 0x80000001, c10Info(3, nil, []c10Sec{
				{kind: 2, ik: []int{0x0102}, iv: [][]byte{[]byte("v")}, cnt: -1},
				{kind: 1, sk: [][2][]byte{{[]byte("k"), nil}}, cnt: -1}}), []byte{0, 0, 0, 0, 0, 0x11, 0, 0, 0, 0, 0, 0, 0x10, 0, 1, 0xAA})
			for v := 0; v < 65536; v++ {
				b := append([]byte(nil), frameS...)
				binary.BigEndian.PutUint16(b[12:], uint16(v))
				g.Add("sizefield-all", Ls(Bs(b), I(1+v%7)))
				b = append([]byte(nil), frameS...)
				binary.BigEndian.PutUint16(b[6:], uint16(v))
				g.Add("flags-all", Ls(Bs(b), I(1+v%7)))
			}
			// 2b. bodies long enough for the mathematically declared size (or one byte short, or
			// longer): 4*v bytes of zeros after a valid protocol id / transform count
			fieldsBig := []int{1, 2, 3, 0x100, 0x3FFE, 0x3FFF, 0x4000, 0x4001, 0x4002, 0x4100, 0x7FFF, 0x8000, 0x8001, 0xC000, 0xC001, 0xFFFE, 0xFFFF}
			if g.Thor {
				for i := 0; i < 300; i++ {
					fieldsBig = append(fieldsBig, g.R.Intn(65536))
				}
			}
			for _, v := range fieldsBig {
				for _, delta := range []int{-1, 0, 7} {
					head := make([]byte, 16)
					binary.BigEndian.PutUint16(head[4:], 0x1000)
					binary.BigEndian.PutUint16(head[12:], uint16(v))
					binary.BigEndian.PutUint32(head, uint32(14+4*v+delta+100))
					head[14] = 4
					n := 4*v - 2 + delta
					if n < 0 {
						n = 0
					}
					var body V = Ls(I(2), I(0), I(n))
					if L := 4*v - 2 - 9; L >= 0 && L <= 65535 {
						// one int-keyed value filling the declared size exactly (the model indexes a
						// list, so tens of thousands of padding bytes would cost minutes per case)
						sec := []byte{0x10, 0, 1, 0, 1, byte(L >> 8), byte(L)}
						body = Ls(I(1), Bs(sec), PatV(v, n-7))
					}
					// a textually long but empty part keeps these lines (short to write, tens of
					// kilobytes to evaluate) out of the in-kernel sample, which takes lines < 600 chars
					filler := []V{I(1)}
					for k := 0; k < 100 && v >= 0x100; k++ {
						filler = append(filler, Ls(I(2), I(0), I(0)))
					}
					g.Add("sizebig", Ls(Ls(I(1), Bs(head), body, Ls(filler...)), I(1+g.R.Intn(5000))))
				}
			}
			// 3. the flags field
			for _, v := range sweep16(400) {
				b := append([]byte(nil), frameA...)
				binary.BigEndian.PutUint16(b[6:], uint16(v))
				add("flags", b)
			}
			// 3b. the magic: every value of each of its two bytes, and of the adjacent bytes
			for pos := 4; pos < 6; pos++ {
				for v := 0; v < 256; v++ {
					b := append([]byte(nil), frameA...)
					b[pos] = byte(v)
					add("magic", b)
				}
			}
			// 4. every protocol id, transform count and info id byte
			for v := 0; v < 256; v++ {
				for _, f := range []([]byte){frameA, frameC} {
					b := append([]byte(nil), f...)
					b[14] = byte(v)
					add("pid", b)
				}
				for _, f := range []([]byte){frameA, frameB, frameC} {
					b := append([]byte(nil), f...)
					b[15] = byte(v)
					add("ntrans", b)
				}
				b := append([]byte(nil), frameA...)
				b[16] = byte(v) // first info id
				add("infoid", b)
				b = append([]byte(nil), frameA...)
				b[22] = byte(v) // second info id (after 11 0003 "tok")
				add("infoid", b)
				b = append([]byte(nil), frameC...)
				b[17] = byte(v) // in the padding
				add("infoid", b)
			}
			// 5. every truncation point
			for _, f := range bases {
				for n := 0; n < len(f); n++ {
					add("trunc", f[:n])
				}
			}
			// 6. structural-byte perturbation: every position x a set of values
			for _, f := range bases {
				for pos := 0; pos < len(f) && pos < 90; pos++ {
					o := f[pos]
					for _, v := range []byte{0, 1, 2, 3, 4, 0x10, 0x11, 0x12, 0x7F, 0x80, 0xFF, o ^ 1, o ^ 0x80, o + 1, o - 1, o + 4, o - 4} {
						if v == o {
							continue
						}
						b := append([]byte(nil), f...)
						b[pos] = v
						add("perturb", b)
					}
				}
			}
			// 7. section orders, repeats, interleaved padding, zero-count sections, wrong counts
			n := g.Scale(2500, 60000)
			for i := 0; i < n; i++ {
				var secs []c10Sec
				for j, m := 0, g.R.Intn(7); j < m; j++ {
					secs = append(secs, c10RandSec(g, 3))
				}
				class := "secs"
				if len(secs) > 0 && g.R.Intn(5) == 0 {
					j := g.R.Intn(len(secs))
					if secs[j].kind == 1 || secs[j].kind == 2 {
						real := len(secs[j].sk) + len(secs[j].ik)
						secs[j].cnt = real + []int{-1, 1, 2, 255, 65535 - real}[g.R.Intn(5)]
						if secs[j].cnt < 0 {
							secs[j].cnt = 0
						}
						class = "secs-badcount"
					}
				}
				var tr []byte
				if g.R.Intn(4) == 0 {
					tr = make([]byte, g.R.Intn(4))
					g.R.Read(tr)
				}
				pl := make([]byte, g.R.Intn(6))
				g.R.Read(pl)
				pid := []int{0, 3, 4, 0x10, 0x11}[g.R.Intn(5)]
				b := c10Frame(g.R.Intn(65536), g.R.Uint32(), c10Info(pid, tr, secs), pl)
				if g.R.Intn(6) == 0 && len(b) > 18 {
					// a string length or any info byte off by one
					pos := 16 + g.R.Intn(len(b)-16-len(pl))
					b[pos] += byte(1 + 254*g.R.Intn(2))
					class = "secs-offbyone"
				}
				add(class, b)
			}
			// 8. random mutation of valid frames
			n = g.Scale(3000, 100000)
			for i := 0; i < n; i++ {
				var secs []c10Sec
				for j, m := 0, g.R.Intn(5); j < m; j++ {
					secs = append(secs, c10RandSec(g, 4))
				}
				pl := make([]byte, g.R.Intn(12))
				b := c10Frame(g.R.Intn(4), g.R.Uint32(), c10Info(0, nil, secs), pl)
				for k, m := 0, 1+g.R.Intn(3); k < m; k++ {
					switch g.R.Intn(5) {
					case 0: // overwrite a byte
						b[g.R.Intn(len(b))] = byte(g.R.Intn(256))
					case 1: // flip a bit
						b[g.R.Intn(len(b))] ^= 1 << uint(g.R.Intn(8))
					case 2: // delete a byte of the info
						if len(b) > 15 {
							p := 14 + g.R.Intn(len(b)-14)
							b = append(b[:p], b[p+1:]...)
						}
					case 3: // insert a byte
						p := 14 + g.R.Intn(len(b)-13)
						b = append(b[:p], append([]byte{byte(g.R.Intn(256))}, b[p:]...)...)
					case 4: // change the size field slightly
						v := int(binary.BigEndian.Uint16(b[12:])) + g.R.Intn(5) - 2
						binary.BigEndian.PutUint16(b[12:], uint16(v))
					}
				}
				add("mutate", b)
			}
			// 9. random bytes behind a valid magic, small size field
			n = g.Scale(1000, 30000)
			for i := 0; i < n; i++ {
				b := make([]byte, 14+g.R.Intn(60))
				g.R.Read(b)
				binary.BigEndian.PutUint16(b[4:], 0x1000)
				binary.BigEndian.PutUint16(b[12:], uint16(g.R.Intn(12)))
				if g.R.Intn(2) == 0 && len(b) > 15 {
					b[14] = byte([]int{0, 3, 4, 0x10, 0x11}[g.R.Intn(5)])
					b[15] = byte(g.R.Intn(3))
				}
				add("random", b)
			}
			// 10. large frames: 65536 bytes of header info filled with sections
			for _, X := range []int{30413, 30412, 30410} {
				big := make([]byte, 30500)
				for i := range big {
					big[i] = byte(i * 13)
				}
				secs := []c10Sec{
					{kind: 1, sk: [][2][]byte{{[]byte("big"), big[:30000]}, {big[:100], big[:5000]}}, cnt: -1},
					{kind: 2, ik: []int{1}, iv: [][]byte{big[:X]}, cnt: -1},
				}
				info := c10Info(0, nil, secs) // 35123 + X bytes, padded to 65536 by c10Frame
				f := c10Frame(0, 1, info, []byte{1, 2, 3, 4, 5})
				g.Add("large", Ls(Bs(f), I(4096)))
				g.Add("large", Ls(Bs(f[:len(f)-6]), I(1000)))
				if X < 30413 {
					f2 := append([]byte(nil), f...)
					f2[14+65535] = 0x10 // a section id as the very last byte: its count is cut
					g.Add("large", Ls(Bs(f2), I(333)))
				}
				f3 := append([]byte(nil), f...)
				binary.BigEndian.PutUint16(f3[12:], 0x4001)
				g.Add("large", Ls(Bs(f3), I(65536)))
			}
		},
	})
}
