package main

// C14 — concurrent use: separate instances are isolated; maps are safe to read.
//
// One case = G goroutines, each repeating R times its own script of create/use/release cycles
// of every pooled type (bufiox readers/writers over the shared mcache pool, the three skip
// decoders and BufferReader/BufferWriter via their New*/Release/Recycle, ttheader
// encode/decode) with self-checking payloads, plus concurrent Get on maps shared by all
// goroutines.  Every goroutine's results are compared (a) with the results of the same script
// run alone before the concurrent phase and (b) — for the bufiox objects and the
// ReaderSkipDecoder — by the model driver with the sequential heap-level models.
// The same binary is also built with -race by ./check and run on the same cases: a race
// report is a failure of the property (exit code 66).
//
// input   (G R (script*) (nkeys seed))     script = (cycle*)   cycle = (kind params ops)
//   kinds 0..4 as in C09 (4 = ReaderSkipDecoder taken from / returned to its sync.Pool)
//   5 (vals)            thrift.BufferWriter over bufiox.BytesWriter, read back by thrift.BufferReader    val = (t x)
//   6 (seq (k v)*)      ttheader.Encode to bytes, Decode from bytes
//   7 (stream (t n)*)   thrift.SkipDecoder over bufiox.BytesReader: Next(t) must return the next n bytes
//   8 (stream (t n)*)   thrift.BytesSkipDecoder
//   9 (idx*)            Get on the shared StrMap[int] and Str2Str
// output  ((cycleout*)*) seqeq repseq (resets)
//   cycleout: kinds 0..4: the per-op value outputs; kinds 5..9: (ok detail)
//   seqeq: concurrent results equal the results of the sequential run; repseq: all repetitions equal
//   resets: what a recycled object of every pooled type looks like (observed sequentially)

import (
	"context"
	"fmt"
	"io"
	"os"
	"sync"

	"github.com/cloudwego/gopkg/bufiox"
	"github.com/cloudwego/gopkg/container/strmap"
	"github.com/cloudwego/gopkg/protocol/thrift"
	"github.com/cloudwego/gopkg/protocol/ttheader"
)

// ---- value-level runners of the C09 cycle formats ----
func c14Reader(kind int, p []V, ops []V) V {
	var r *bufiox.DefaultReader
	if kind == 0 {
		r = bufiox.NewDefaultReader(c09MkSrc(p, nil))
	} else {
		pre, data, spare := AsBytes(p[0]), AsBytes(p[1]), AsBytes(p[2])
		arr := append(append(append(make([]byte, 0, len(pre)+len(data)+len(spare)), pre...), data...), spare...)
		br := bufiox.NewBytesReader(arr[len(pre) : len(pre)+len(data) : len(arr)])
		r = &br.DefaultReader
	}
	var outs VL = VL{}
	for _, o := range ops {
		a := AsList(o)
		switch AsInt(a[0]) {
		case 0, 1:
			n := AsInt(a[1])
			var b []byte
			var err error
			if AsInt(a[0]) == 0 {
				b, err = r.Next(n)
			} else {
				b, err = r.Peek(n)
			}
			if err != nil {
				outs = append(outs, Ls(I(1), I(c09ErrCode(err))))
			} else if b == nil && n != 0 {
				outs = append(outs, Ls(I(2)))
			} else {
				outs = append(outs, Ls(I(0), Bs(b)))
			}
		case 2:
			if err := r.Skip(AsInt(a[1])); err != nil {
				outs = append(outs, Ls(I(1), I(c09ErrCode(err))))
			} else {
				outs = append(outs, Ls(I(3)))
			}
		case 3:
			k := AsInt(a[1])
			bs := make([]byte, k)
			m, err := r.ReadBinary(bs)
			mm := m
			if mm > k {
				mm = k
			}
			if mm < 0 {
				mm = 0
			}
			outs = append(outs, Ls(I(4), I(m), Bs(bs[:mm]), I(c09ErrCode(err))))
		case 4:
			outs = append(outs, Ls(I(5), I(r.ReadLen())))
		case 5:
			r.Release(nil)
			outs = append(outs, Ls(I(3)))
		case 6:
			sd := thrift.NewSkipDecoder(r)
			b, err := sd.Next(thrift.TType(AsInt(a[1])))
			if err != nil {
				outs = append(outs, Ls(I(1), I(c09ErrCode(err))))
			} else {
				outs = append(outs, Ls(I(0), Bs(b)))
			}
			sd.Release()
		}
	}
	return outs
}

func c14Writer(kind int, p []V, ops []V) V {
	var w *bufiox.DefaultWriter
	sink := &c09Sink{}
	var target []byte
	if kind == 2 {
		sink.failAt = AsInt(p[0])
		w = bufiox.NewDefaultWriter(sink)
	} else {
		if AsInt(p[0]) == 0 {
			pre, data, spare := AsBytes(p[1]), AsBytes(p[2]), AsBytes(p[3])
			arr := append(append(append(make([]byte, 0, len(pre)+len(data)+len(spare)), pre...), data...), spare...)
			target = arr[len(pre) : len(pre)+len(data) : len(arr)]
		}
		w = &bufiox.NewBytesWriter(&target).DefaultWriter
	}
	var regions [][]byte
	live := map[int]bool{}
	var outs VL = VL{}
	for _, o := range ops {
		a := AsList(o)
		switch AsInt(a[0]) {
		case 0:
			b, err := w.Malloc(AsInt(a[1]))
			if err == nil {
				live[len(regions)] = true
				regions = append(regions, b)
			}
			outs = append(outs, Ls(I(0), I(c09ErrCode(err)), I(w.WrittenLen())))
		case 1:
			bs := AsBytes(a[1])
			pl := make([]byte, len(bs), len(bs)+AsInt(a[2]))
			copy(pl, bs)
			n, err := w.WriteBinary(pl)
			ec := c09ErrCode(err)
			if err == nil && n != len(pl) {
				ec = 8
			}
			outs = append(outs, Ls(I(0), I(ec), I(w.WrittenLen())))
		case 2:
			k, off, data := AsInt(a[1]), AsInt(a[2]), AsBytes(a[3])
			ec := 9
			if k >= 0 && k < len(regions) && live[k] && len(data) > 0 && off >= 0 && off+len(data) <= len(regions[k]) {
				copy(regions[k][off:], data)
				ec = 0
			}
			outs = append(outs, Ls(I(0), I(ec), I(w.WrittenLen())))
		case 3:
			before := len(sink.got)
			nonnil := bufiox.VerifOwnWriter(w).NonNil
			haderr := bufiox.VerifOwnWriter(w).ErrSet
			err := w.Flush()
			var fl V = Ls()
			if kind == 2 && len(sink.got) > before {
				fl = Ls(Bs(sink.got[len(sink.got)-1]))
				live = map[int]bool{}
			}
			if kind == 3 && err == nil && !haderr && nonnil {
				fl = Ls(Bs(target))
				live = map[int]bool{}
			}
			outs = append(outs, Ls(I(1), I(c09ErrCode(err)), I(w.WrittenLen()), fl))
		case 4:
			outs = append(outs, Ls(I(0), I(0), I(w.WrittenLen())))
		}
	}
	return outs
}

func c14Skip(p []V, ops []V) V {
	d := thrift.NewReaderSkipDecoder(c09MkSrc(p, nil))
	var outs VL = VL{}
	for _, o := range ops {
		a := AsList(o)
		switch AsInt(a[0]) {
		case 0:
			b, err := d.Next(thrift.TType(AsInt(a[1])))
			if err != nil {
				outs = append(outs, Ls(I(1), I(c09ErrCode(err))))
			} else {
				outs = append(outs, Ls(I(0), Bs(b)))
			}
		case 1:
			b, err := d.SkipN(AsInt(a[1]))
			if err != nil {
				outs = append(outs, Ls(I(1), I(c09ErrCode(err))))
			} else {
				outs = append(outs, Ls(I(0), Bs(b)))
			}
		case 2:
			d.Release()
			d = thrift.NewReaderSkipDecoder(c09MkSrc(a[1:], nil))
			outs = append(outs, Ls(I(3)))
		case 3:
			d.Release()
			d = nil
			outs = append(outs, Ls(I(3)))
		case 4:
			d = thrift.NewReaderSkipDecoder(c09MkSrc(a[1:], nil))
			outs = append(outs, Ls(I(3)))
		}
	}
	if d != nil {
		d.Release()
	}
	return outs
}

// ---- self-checking cycles of the other pooled types ----
func c14Codec(p []V) V {
	var target []byte
	bw := bufiox.NewBytesWriter(&target)
	w := thrift.NewBufferWriter(bw)
	vals := AsList(p[0])
	ok := true
	for _, v := range vals {
		a := AsList(v)
		var err error
		switch AsInt(a[0]) {
		case 8:
			err = w.WriteI32(int32(AsInt(a[1])))
		case 10:
			err = w.WriteI64(AsI64(a[1]))
		case 11:
			err = w.WriteString(string(AsBytes(a[1])))
		case 12:
			err = w.WriteBinary(AsBytes(a[1]))
		case 2:
			err = w.WriteBool(AsBool(a[1]))
		}
		if err != nil {
			ok = false
		}
	}
	if err := bw.Flush(); err != nil {
		ok = false
	}
	w.Recycle()
	r := thrift.NewBufferReader(bufiox.NewBytesReader(target))
	for _, v := range vals {
		a := AsList(v)
		switch AsInt(a[0]) {
		case 8:
			x, err := r.ReadI32()
			ok = ok && err == nil && x == int32(AsInt(a[1]))
		case 10:
			x, err := r.ReadI64()
			ok = ok && err == nil && x == AsI64(a[1])
		case 11:
			x, err := r.ReadString()
			ok = ok && err == nil && x == string(AsBytes(a[1]))
		case 12:
			x, err := r.ReadBinary()
			ok = ok && err == nil && string(x) == string(AsBytes(a[1]))
		case 2:
			x, err := r.ReadBool()
			ok = ok && err == nil && x == AsBool(a[1])
		}
	}
	if _, err := r.ReadI32(); err == nil { // nothing may be left
		ok = false
	}
	ok = ok && int(r.Readn()) == len(target)
	r.Recycle()
	return Ls(Bo(ok), Bs(target))
}

func c14Header(p []V) V {
	seq := int32(AsInt(p[0]))
	str := map[string]string{}
	ints := map[uint16]string{}
	for i, kv := range AsList(p[1]) {
		a := AsList(kv)
		if i%2 == 0 {
			str[string(AsBytes(a[0]))] = string(AsBytes(a[1]))
		} else {
			ints[uint16(len(AsBytes(a[0]))+i)] = string(AsBytes(a[1]))
		}
	}
	ep := ttheader.EncodeParam{SeqID: seq, ProtocolID: ttheader.ProtocolIDThriftBinary, IntInfo: ints, StrInfo: str}
	buf, err := ttheader.EncodeToBytes(context.Background(), ep)
	if err != nil {
		return Ls(Bo(false), I(-1))
	}
	tot := len(buf) - 4
	buf[0], buf[1], buf[2], buf[3] = byte(tot>>24), byte(tot>>16), byte(tot>>8), byte(tot)
	dp, err := ttheader.DecodeFromBytes(context.Background(), buf)
	ok := err == nil && dp.SeqID == seq && dp.HeaderLen == len(buf) && dp.PayloadLen == 0
	for k, v := range str {
		ok = ok && dp.StrInfo[k] == v
	}
	for k, v := range ints {
		ok = ok && dp.IntInfo[k] == v
	}
	ok = ok && len(dp.StrInfo) == len(str) && len(dp.IntInfo) == len(ints)
	// the stream variant over bufiox
	var target []byte
	bw := bufiox.NewBytesWriter(&target)
	tl, err := ttheader.Encode(context.Background(), ep, bw)
	if err == nil {
		tl[0], tl[1], tl[2], tl[3] = byte(tot>>24), byte(tot>>16), byte(tot>>8), byte(tot)
		err = bw.Flush()
	}
	ok = ok && err == nil && len(target) == len(buf)
	if err == nil {
		dp2, err2 := ttheader.Decode(context.Background(), bufiox.NewBytesReader(target))
		ok = ok && err2 == nil && dp2.SeqID == seq && len(dp2.StrInfo) == len(str) && len(dp2.IntInfo) == len(ints)
	}
	return Ls(Bo(ok), I(len(buf)))
}

func c14SkipDec(kind int, p []V) V {
	stream := AsBytes(p[0])
	ok := true
	pos := 0
	if kind == 7 {
		rd := bufiox.NewBytesReader(stream)
		d := thrift.NewSkipDecoder(rd)
		for _, v := range AsList(p[1]) {
			a := AsList(v)
			n := AsInt(a[1])
			if AsInt(a[0]) < 0 { // a direct SkipN, on a decoder fresh from the pool (rn is only reset by Next and Release)
				d.Release()
				d = thrift.NewSkipDecoder(rd)
				b, err := d.SkipN(n)
				ok = ok && err == nil && string(b) == string(stream[pos:pos+n])
				// SkipN only peeks: give the bytes to the reader, as Next would
				if err == nil {
					_, rn := thrift.VerifOwnSkipDecoderState(d)
					ok = ok && rn >= n
				}
				d.Release()
				rd.Skip(n)
				d = thrift.NewSkipDecoder(rd)
			} else {
				b, err := d.Next(thrift.TType(AsInt(a[0])))
				ok = ok && err == nil && string(b) == string(stream[pos:pos+n])
			}
			pos += n
		}
		_, err := d.Next(thrift.I32)
		ok = ok && err != nil && int(rd.ReadLen()) == pos
		d.Release()
	} else {
		d := thrift.NewBytesSkipDecoder(stream)
		for _, v := range AsList(p[1]) {
			a := AsList(v)
			n := AsInt(a[1])
			if AsInt(a[0]) < 0 {
				b, err := d.SkipN(n)
				ok = ok && err == nil && string(b) == string(stream[pos:pos+n])
				d.Release()
				d = thrift.NewBytesSkipDecoder(stream[pos+n:])
			} else {
				b, err := d.Next(thrift.TType(AsInt(a[0])))
				ok = ok && err == nil && string(b) == string(stream[pos:pos+n])
			}
			pos += n
		}
		_, err := d.Next(thrift.I32)
		ok = ok && err != nil
		d.Release()
	}
	return Ls(Bo(ok), I(pos))
}

type c14Maps struct {
	keys []string
	ref  map[string]int
	sm   *strmap.StrMap[int]
	s2s  *strmap.Str2Str
}

func c14MkMaps(n, seed int) *c14Maps {
	m := &c14Maps{ref: map[string]int{}}
	vs := make([]int, 0, n)
	svs := make([]string, 0, n)
	for i := 0; i < n; i++ {
		k := fmt.Sprintf("k%d/%x", seed, i*2654435761)
		if i%7 == 0 {
			k = string(Pat(seed+i, i%23))
			if _, dup := m.ref[k]; dup {
				k = fmt.Sprintf("%s#%d", k, i)
			}
		}
		m.keys = append(m.keys, k)
		m.ref[k] = i * 3
		vs = append(vs, i*3)
		svs = append(svs, fmt.Sprintf("v%d", i*3))
	}
	m.sm = strmap.NewFromSlice(m.keys, vs)
	m.s2s = strmap.NewStr2StrFromSlice(m.keys, svs)
	return m
}

func c14Get(m *c14Maps, p []V) V {
	ok := true
	hits := 0
	for _, ix := range AsList(p[0]) {
		i := AsInt(ix)
		var k string
		if i >= 0 && i < len(m.keys) {
			k = m.keys[i]
		} else {
			k = fmt.Sprintf("absent%d", i)
		}
		want, has := m.ref[k]
		v, found := m.sm.Get(k)
		s, found2 := m.s2s.Get(k)
		ok = ok && found == has && found2 == has && (!has || (v == want && s == fmt.Sprintf("v%d", want)))
		if found {
			hits++
		}
	}
	return Ls(Bo(ok), I(hits))
}

func c14Cycle(m *c14Maps, c V) (out V) {
	defer func() {
		if r := recover(); r != nil {
			out = Ls(I(-99), Str(fmt.Sprint(r)))
		}
	}()
	a := AsList(c)
	kind, p := AsInt(a[0]), AsList(a[1])
	switch kind {
	case 0, 1:
		return c14Reader(kind, p, AsList(a[2]))
	case 2, 3:
		return c14Writer(kind, p, AsList(a[2]))
	case 4:
		return c14Skip(p, AsList(a[2]))
	case 5:
		return c14Codec(p)
	case 6:
		return c14Header(p)
	case 7, 8:
		return c14SkipDec(kind, p)
	case 9:
		return c14Get(m, p)
	}
	panic("c14: bad cycle kind")
}

func c14Script(m *c14Maps, s V) V {
	var outs VL = VL{}
	for _, c := range AsList(s) {
		outs = append(outs, c14Cycle(m, c))
	}
	return outs
}

// what a recycled object of every pooled type looks like; observed without concurrency
func c14Resets() V {
	src := &c09Src{data: Pat(1, 40), final: io.EOF}
	rsd := thrift.NewReaderSkipDecoder(src)
	rsd.Next(thrift.I64)
	rsd.SkipN(3)
	rsd.Release()
	_, _, _, n := thrift.VerifOwnRSD(rsd)
	rsdObs := Ls(Bo(thrift.VerifOwnRSDReaderIsNil(rsd)), I(n))
	rd := bufiox.NewBytesReader(Pat(2, 40))
	sd := thrift.NewSkipDecoder(rd)
	sd.SkipN(5)
	sd.Release()
	rnil, rn := thrift.VerifOwnSkipDecoderState(sd)
	sdObs := Ls(Bo(rnil), I(rn))
	bs := thrift.NewBytesSkipDecoder(Pat(3, 40))
	bs.SkipN(7)
	bs.Release()
	ln, _, bn := thrift.VerifOwnBytesSkipDecoderState(bs)
	bsObs := Ls(I(bn), I(ln))
	br := thrift.NewBufferReader(rd)
	br.ReadI32()
	br.Recycle()
	var t []byte
	bw := thrift.NewBufferWriter(bufiox.NewBytesWriter(&t))
	bw.WriteI32(1)
	bw.Recycle()
	return Ls(Bo(thrift.VerifOwnBufferReaderIsReset(br)), Bo(thrift.VerifOwnBufferWriterIsReset(bw)), sdObs, bsObs, rsdObs)
}

func c14Run(in V) V {
	if fn := os.Getenv("VERIF_C14_CUR"); fn != "" { // lets ./check name the case a race report belongs to
		os.WriteFile(fn, []byte(Show(in)), 0o644)
	}
	a := AsList(in)
	G, R := AsInt(a[0]), AsInt(a[1])
	scripts := AsList(a[2])
	mp := AsList(a[3])
	m := c14MkMaps(AsInt(mp[0]), AsInt(mp[1]))
	resets := c14Resets()
	// sequential reference
	ref := make([]string, G)
	for i := 0; i < G; i++ {
		ref[i] = Show(c14Script(m, scripts[i]))
	}
	// concurrent phase
	first := make([]V, G)
	repseq := make([]bool, G)
	var wg sync.WaitGroup
	start := make(chan struct{})
	for i := 0; i < G; i++ {
		wg.Add(1)
		go func(i int) {
			defer wg.Done()
			<-start
			repseq[i] = true
			var f string
			for r := 0; r < R; r++ {
				o := c14Script(m, scripts[i])
				s := Show(o)
				if r == 0 {
					first[i], f = o, s
				} else if s != f {
					repseq[i] = false
				}
			}
		}(i)
	}
	close(start)
	wg.Wait()
	seqeq, reps := true, true
	var outs VL = VL{}
	for i := 0; i < G; i++ {
		outs = append(outs, first[i])
		if Show(first[i]) != ref[i] {
			seqeq = false
		}
		reps = reps && repseq[i]
	}
	return Ls(outs, Bo(seqeq), Bo(reps), resets)
}

func init() {
	register("C14", &Prop{Gen: genC14, Run: c14Run})
}

func genC14(g *Gen) {
	// a library of small bufiox / ReaderSkipDecoder cycles: the C09 generator's cases
	lg := &Gen{R: g.R, Tier: "quick", classes: map[string]int{}}
	genC09With(lg, false)
	var lib []V
	for _, c := range lg.cases {
		if len(Show(c)) < 260 {
			lib = append(lib, c)
		}
	}
	str := func(n int) V { return Bs(Pat(g.R.Intn(250), n)) }
	codec := func() V {
		var vals VL = VL{}
		for j := 1 + g.R.Intn(6); j > 0; j-- {
			switch g.R.Intn(5) {
			case 0:
				vals = append(vals, Ls(I(8), I(g.R.Intn(1<<31)-(1<<30))))
			case 1:
				vals = append(vals, Ls(I(10), I64(g.R.Int63()-(1<<62))))
			case 2:
				vals = append(vals, Ls(I(11), str(g.R.Intn(60))))
			case 3:
				vals = append(vals, Ls(I(12), str([]int{0, 1, 100, 5000}[g.R.Intn(4)])))
			default:
				vals = append(vals, Ls(I(2), I(g.R.Intn(2))))
			}
		}
		return Ls(I(5), Ls(vals), Ls())
	}
	header := func() V {
		var kvs VL = VL{}
		for j := g.R.Intn(5); j > 0; j-- {
			kvs = append(kvs, Ls(Str(fmt.Sprintf("key-%d-%d", j, g.R.Intn(1000))), str(g.R.Intn(40))))
		}
		return Ls(I(6), Ls(I(g.R.Intn(1<<30)), kvs), Ls())
	}
	skipd := func(kind int) V {
		var parts VL = VL{I(1)}
		var items VL = VL{}
		for j := 1 + g.R.Intn(4); j > 0; j-- {
			if g.R.Intn(5) == 0 {
				n := 1 + g.R.Intn(9)
				parts = append(parts, PatV(j, n))
				items = append(items, Ls(I(-1), I(n)))
				continue
			}
			v := c09GenVal(g, false)
			parts = append(parts, v.enc...)
			items = append(items, Ls(I(v.t), I(v.n)))
		}
		return Ls(I(kind), Ls(parts, items), Ls())
	}
	nkeys := 300
	gets := func() V {
		var ix VL = VL{}
		for j := 3 + g.R.Intn(20); j > 0; j-- {
			ix = append(ix, I(g.R.Intn(nkeys+40)-20))
		}
		return Ls(I(9), Ls(ix), Ls())
	}
	for i := 0; i < g.Scale(150, 1200); i++ {
		G := []int{2, 4, 8, 16}[g.R.Intn(4)]
		R := 3 + g.R.Intn(g.Scale(25, 60))
		var scripts VL
		for k := 0; k < G; k++ {
			var s VL
			for j := 1 + g.R.Intn(4); j > 0; j-- {
				switch g.R.Intn(9) {
				case 0:
					s = append(s, codec())
				case 1:
					s = append(s, header())
				case 2:
					s = append(s, skipd(7))
				case 3:
					s = append(s, skipd(8))
				case 4:
					s = append(s, gets())
				default:
					s = append(s, lib[g.R.Intn(len(lib))])
				}
			}
			scripts = append(scripts, s)
		}
		g.Add(fmt.Sprintf("G%d", G), Ls(I(G), I(R), scripts, Ls(I(nkeys), I(i))))
	}
}
