package main

// C14 — concurrent use: separate instances are isolated; maps are safe to read.
//
// One case = G goroutines, each repeating R times its own script of create/use/release cycles
// of every pooled type (bufiox readers/writers over the shared mcache pool, the three skip
// decoders and BufferReader/BufferWriter via their New*/Release/Recycle, ttheader
// encode/decode) with self-checking payloads, plus concurrent Get on maps shared by all
// goroutines.  Every goroutine's results are compared (a) with the results of the same script
// run alone before the concurrent phase and (b) — for the bufiox objects and the
// ReaderSkipDecoder — by the model driver with the sequential heap-level models.
// The same binary is also built with -race by ./check and run on the same cases: a race
// report is a failure of the property (exit code 66).
//
// input   (G R (script*) (nkeys seed))     script = (cycle*)   cycle = (kind params ops)
//   kinds 0..4 as in C09 (4 = ReaderSkipDecoder taken from / returned to its sync.Pool)
//   5 (vals)            thrift.BufferWriter over bufiox.BytesWriter, read back by thrift.BufferReader    val = (t x)
//   6 (seq (k v)*)      ttheader.Encode to bytes, Decode from bytes
//   7 (stream (t n)*)   thrift.SkipDecoder over bufiox.BytesReader: Next(t) must return the next n bytes
//   8 (stream (t n)*)   thrift.BytesSkipDecoder
//   9 (idx*)            Get on the shared StrMap[int] and Str2Str
//   10 ((stream ((t n)*) chunks)*)   ReaderSkipDecoder through its sync.Pool, one user after the other (New, Next*, Release),
//                        values beyond 64 KiB (private buffer 128 KiB .. 2 MiB); a co-tenant of this goroutine takes blocks of the
//                        same mcache classes, paints and keeps them across the next user; every result is re-read after the
//                        co-tenant repainted; the decoder's buffer is never a block the co-tenant holds
//   11 (data final with chunks) ops  bufiox.DefaultReader, reader ops as kind 0, every slice RETAINED until Release and re-read after
//                        every later op (Peek with ReadLen = 0 held across growth) while the co-tenant recycles blocks of those classes
//   12 (pre data spare) ops          the same over a BytesReader; the caller's array must stay untouched
//   kinds 5 and 6 also decode over a stream-backed DefaultReader, Release it, let the co-tenant repaint the freed
//   blocks, overwrite the caller's buffer, and only then compare every decoded string (results own their bytes)
// output  ((cycleout*)*) seqeq repseq (resets)
//   cycleout: kinds 0..4: the per-op value outputs; kinds 5..9: (ok detail)
//   seqeq: concurrent results equal the results of the sequential run; repseq: all repetitions equal
//   resets: what a recycled object of every pooled type looks like (observed sequentially)

import (
	"errors"
	"context"
	"fmt"
	"io"
	"os"
	"runtime"
	"runtime/debug"
	"strings"
	"sync"

	"github.com/bytedance/gopkg/lang/mcache"
	"github.com/cloudwego/gopkg/bufiox"
	"github.com/cloudwego/gopkg/container/strmap"
	"github.com/cloudwego/gopkg/protocol/thrift"
	"github.com/cloudwego/gopkg/protocol/ttheader"
)

// ---- value-level runners of the C09 cycle formats ----
func c14Reader(kind int, p []V, ops []V) V {
	var r *bufiox.DefaultReader
	if kind == 0 {
		r = bufiox.NewDefaultReader(c09MkSrc(p, nil))
	} else {
		pre, data, spare := AsBytes(p[0]), AsBytes(p[1]), AsBytes(p[2])
		arr := append(append(append(make([]byte, 0, len(pre)+len(data)+len(spare)), pre...), data...), spare...)
		br := bufiox.NewBytesReader(arr[len(pre) : len(pre)+len(data) : len(arr)])
		r = &br.DefaultReader
	}
	var outs VL = VL{}
	for _, o := range ops {
		a := AsList(o)
		switch AsInt(a[0]) {
		case 0, 1:
			n := AsInt(a[1])
			var b []byte
			var err error
			if AsInt(a[0]) == 0 {
				b, err = r.Next(n)
			} else {
				b, err = r.Peek(n)
			}
			if err != nil {
				outs = append(outs, Ls(I(1), I(c09ErrCode(err))))
			} else if b == nil && n != 0 {
				outs = append(outs, Ls(I(2)))
			} else {
				outs = append(outs, Ls(I(0), Bs(b)))
			}
		case 2:
			if err := r.Skip(AsInt(a[1])); err != nil {
				outs = append(outs, Ls(I(1), I(c09ErrCode(err))))
			} else {
				outs = append(outs, Ls(I(3)))
			}
		case 3:
			k := AsInt(a[1])
			bs := make([]byte, k)
			m, err := r.ReadBinary(bs)
			mm := m
			if mm > k {
				mm = k
			}
			if mm < 0 {
				mm = 0
			}
			outs = append(outs, Ls(I(4), I(m), Bs(bs[:mm]), I(c09ErrCode(err))))
		case 4:
			outs = append(outs, Ls(I(5), I(r.ReadLen())))
		case 5:
			r.Release(nil)
			outs = append(outs, Ls(I(3)))
		case 6:
			sd := thrift.NewSkipDecoder(r)
			b, err := sd.Next(thrift.TType(AsInt(a[1])))
			if err != nil {
				outs = append(outs, Ls(I(1), I(c09ErrCode(err))))
			} else {
				outs = append(outs, Ls(I(0), Bs(b)))
			}
			sd.Release()
		}
	}
	return outs
}

func c14Writer(kind int, p []V, ops []V) V {
	var w *bufiox.DefaultWriter
	sink := &c09Sink{}
	var target []byte
	if kind == 2 {
		sink.failAt = AsInt(p[0])
		w = bufiox.NewDefaultWriter(sink)
	} else {
		if AsInt(p[0]) == 0 {
			pre, data, spare := AsBytes(p[1]), AsBytes(p[2]), AsBytes(p[3])
			arr := append(append(append(make([]byte, 0, len(pre)+len(data)+len(spare)), pre...), data...), spare...)
			target = arr[len(pre) : len(pre)+len(data) : len(arr)]
		}
		w = &bufiox.NewBytesWriter(&target).DefaultWriter
	}
	var regions [][]byte
	live := map[int]bool{}
	var outs VL = VL{}
	for _, o := range ops {
		a := AsList(o)
		switch AsInt(a[0]) {
		case 0:
			b, err := w.Malloc(AsInt(a[1]))
			if err == nil {
				live[len(regions)] = true
				regions = append(regions, b)
			}
			outs = append(outs, Ls(I(0), I(c09ErrCode(err)), I(w.WrittenLen())))
		case 1:
			bs := AsBytes(a[1])
			pl := make([]byte, len(bs), len(bs)+AsInt(a[2]))
			copy(pl, bs)
			n, err := w.WriteBinary(pl)
			ec := c09ErrCode(err)
			if err == nil && n != len(pl) {
				ec = 8
			}
			outs = append(outs, Ls(I(0), I(ec), I(w.WrittenLen())))
		case 2:
			k, off, data := AsInt(a[1]), AsInt(a[2]), AsBytes(a[3])
			ec := 9
			if k >= 0 && k < len(regions) && live[k] && len(data) > 0 && off >= 0 && off+len(data) <= len(regions[k]) {
				copy(regions[k][off:], data)
				ec = 0
			}
			outs = append(outs, Ls(I(0), I(ec), I(w.WrittenLen())))
		case 3:
			before := len(sink.got)
			nonnil := bufiox.VerifOwnWriter(w).NonNil
			haderr := bufiox.VerifOwnWriter(w).ErrSet
			err := w.Flush()
			var fl V = Ls()
			if kind == 2 && len(sink.got) > before {
				fl = Ls(Bs(sink.got[len(sink.got)-1]))
				live = map[int]bool{}
			}
			if kind == 3 && err == nil && !haderr && nonnil {
				fl = Ls(Bs(target))
				live = map[int]bool{}
			}
			outs = append(outs, Ls(I(1), I(c09ErrCode(err)), I(w.WrittenLen()), fl))
		case 4:
			outs = append(outs, Ls(I(0), I(0), I(w.WrittenLen())))
		}
	}
	return outs
}

func c14Skip(p []V, ops []V) V {
	d := thrift.NewReaderSkipDecoder(c09MkSrc(p, nil))
	var outs VL = VL{}
	for _, o := range ops {
		a := AsList(o)
		switch AsInt(a[0]) {
		case 0:
			b, err := d.Next(thrift.TType(AsInt(a[1])))
			if err != nil {
				outs = append(outs, Ls(I(1), I(c09ErrCode(err))))
			} else {
				outs = append(outs, Ls(I(0), Bs(b)))
			}
		case 1:
			b, err := d.SkipN(AsInt(a[1]))
			if err != nil {
				outs = append(outs, Ls(I(1), I(c09ErrCode(err))))
			} else {
				outs = append(outs, Ls(I(0), Bs(b)))
			}
		case 2:
			d.Release()
			d = thrift.NewReaderSkipDecoder(c09MkSrc(a[1:], nil))
			outs = append(outs, Ls(I(3)))
		case 3:
			d.Release()
			d = nil
			outs = append(outs, Ls(I(3)))
		case 4:
			d = thrift.NewReaderSkipDecoder(c09MkSrc(a[1:], nil))
			outs = append(outs, Ls(I(3)))
		}
	}
	if d != nil {
		d.Release()
	}
	return outs
}

// ---- a co-tenant of the shared mcache pool living in the goroutine of the cycle ----
// It HOLDS painted blocks of the size classes the object under test uses while that object
// works: a block the object freed too early (or twice) ends up here and is repainted under the
// object's feet; a write of the object into a block it no longer owns destroys the paint.
type c14Cot struct {
	classes []int // size classes 2^c
	blocks  [][]byte
	fill    byte
}

type c14Chk struct{ n, bad int }

func (c *c14Chk) ok(b bool) bool {
	c.n++
	if !b && c.bad == 0 {
		c.bad = c.n
	}
	return b
}
func (c *c14Chk) out() V { return Ls(Bo(c.bad == 0), I(c.n), I(c.bad)) }

func c14ClassOf(n int) int {
	cl := 0
	for 1<<cl < n {
		cl++
	}
	return cl
}

// painted positions of a block: all of a small one; head, tail and a sparse grid of a big one
func c14Paint(b []byte, f byte, check bool) bool {
	at := func(i int) bool {
		v := f + byte(i*13)
		if check {
			return b[i] == v
		}
		b[i] = v
		return true
	}
	n := len(b)
	if n <= 8192 {
		for i := 0; i < n; i++ {
			if !at(i) {
				return false
			}
		}
		return true
	}
	for i := 0; i < 4096; i++ {
		if !at(i) {
			return false
		}
	}
	for i := 4096; i < n-256; i += 1024 {
		if !at(i) {
			return false
		}
	}
	for i := n - 256; i < n; i++ {
		if !at(i) {
			return false
		}
	}
	return true
}

func c14NewCot(lo, hi int, seed int) *c14Cot {
	c := &c14Cot{fill: byte(seed*29 + 1)}
	for cl := lo; cl <= hi; cl++ {
		c.classes = append(c.classes, cl)
	}
	return c
}

func (c *c14Cot) take(k int) {
	for _, cl := range c.classes {
		for j := 0; j < k; j++ {
			b := mcache.Malloc(1 << cl)
			c14Paint(b, c.fill, false)
			c.blocks = append(c.blocks, b)
		}
	}
}
func (c *c14Cot) intact() bool {
	for _, b := range c.blocks {
		if !c14Paint(b, c.fill, true) {
			return false
		}
	}
	return true
}
func (c *c14Cot) repaint() {
	c.fill += 37
	for _, b := range c.blocks {
		c14Paint(b, c.fill, false)
	}
}

// cycle: check the paint, take NEW blocks first (they drain the local pool, including whatever
// the object under test freed since), then give the old ones back; everything repainted
func (c *c14Cot) cycle(k int) bool {
	ok := c.intact()
	old := c.blocks
	c.blocks = nil
	c.fill += 37
	c.take(k)
	for i := len(old) - 1; i >= 0; i-- {
		mcache.Free(old[i])
	}
	return ok
}
func (c *c14Cot) holds(p uintptr) bool {
	if p == 0 {
		return false
	}
	for _, b := range c.blocks {
		if q := c09Ptr(b); p >= q && p < q+uintptr(cap(b)) {
			return true
		}
	}
	return false
}
func (c *c14Cot) drop() bool {
	ok := c.intact()
	for i := len(c.blocks) - 1; i >= 0; i-- {
		mcache.Free(c.blocks[i])
	}
	c.blocks = nil
	return ok
}

// the (big) streams of kinds 10..12 are expanded once per case and shared read-only by all
// goroutines and repetitions
var c14Streams sync.Map

func c14Bytes(v V) []byte {
	if b, ok := v.(VB); ok {
		return b
	}
	key := Show(v)
	if b, ok := c14Streams.Load(key); ok {
		return b.([]byte)
	}
	b, _ := c14Streams.LoadOrStore(key, AsBytes(v))
	return b.([]byte)
}

// kind 10: successive users of pooled ReaderSkipDecoders with big values
func c14BigSkip(p []V) V {
	users := AsList(p[0])
	// the co-tenant's classes: two small ones and those of the decoder's buffer after each big
	// value (growSlow asks for exactly p.n+n bytes: the class of the value's size)
	cot := c14NewCot(2, 2, len(users))
	cot.classes = append(cot.classes, 12)
	seen := map[int]bool{2: true, 12: true}
	for _, u := range users {
		for _, it := range AsList(AsList(u)[1]) {
			if n := AsInt(AsList(it)[1]); n > 60000 {
				if cl := c14ClassOf(n); !seen[cl] && cl <= 22 {
					seen[cl] = true
					cot.classes = append(cot.classes, cl)
				}
			}
		}
	}
	var ck c14Chk
	cot.take(1)
	for _, u := range users {
		ua := AsList(u)
		stream := c14Bytes(ua[0])
		src := &c09Src{data: stream, final: io.EOF, chunks: c09Expand(ua[2])}
		d := thrift.NewReaderSkipDecoder(src)
		base, _, _, _ := thrift.VerifOwnRSD(d)
		ck.ok(!cot.holds(base)) // a decoder from the pool never stands on somebody else's block
		pos := 0
		for _, it := range AsList(ua[1]) {
			a := AsList(it)
			n := AsInt(a[1])
			b, err := d.Next(thrift.TType(AsInt(a[0])))
			base, _, _, _ = thrift.VerifOwnRSD(d)
			ck.ok(!cot.holds(base))
			cot.repaint()
			ck.ok(err == nil && string(b) == string(stream[pos:pos+n]))
			if n > 60000 {
				ck.ok(cot.cycle(1)) // what the decoder freed while growing is now painted by the co-tenant
				ck.ok(err == nil && string(b) == string(stream[pos:pos+n]))
			}
			pos += n
		}
		d.Release()
		ck.ok(cot.cycle(2)) // a buffer freed by Release would be caught here and held during the next user
	}
	ck.ok(cot.drop())
	return ck.out()
}

// kinds 11, 12: a reader whose slices are all retained until Release
func c14Retain(kind int, p []V, ops []V) V {
	var r *bufiox.DefaultReader
	var stream, arr, pristine []byte
	if kind == 11 {
		src := c09MkSrc(append([]V{VB(c14Bytes(p[0]))}, p[1:]...), nil)
		stream = src.data
		r = bufiox.NewDefaultReader(src)
	} else {
		pre, data, spare := AsBytes(p[0]), c14Bytes(p[1]), AsBytes(p[2])
		arr = append(append(append(make([]byte, 0, len(pre)+len(data)+len(spare)), pre...), data...), spare...)
		pristine = append([]byte(nil), arr...)
		stream = data
		r = &bufiox.NewBytesReader(arr[len(pre) : len(pre)+len(data) : len(arr)]).DefaultReader
	}
	mx := 4096
	for _, o := range ops {
		a := AsList(o)
		if k := AsInt(a[0]); k <= 3 && len(a) > 1 && AsInt(a[1]) > mx {
			mx = AsInt(a[1])
		}
	}
	if mx > len(stream)+4096 {
		mx = len(stream) + 4096
	}
	hi := c14ClassOf(mx) + 1
	if hi > 21 {
		hi = 21
	}
	cot := c14NewCot(12, hi, len(stream))
	cot.take(1)
	var ck c14Chk
	var live []c09Live
	cur := 0
	for _, o := range ops {
		a := AsList(o)
		switch AsInt(a[0]) {
		case 0, 1:
			n := AsInt(a[1])
			var b []byte
			var err error
			if AsInt(a[0]) == 0 {
				b, err = r.Next(n)
			} else {
				b, err = r.Peek(n)
			}
			if err == nil && (b != nil || n == 0) {
				live = append(live, c09Live{b, c09Seg(stream, cur, n)})
				if AsInt(a[0]) == 0 {
					cur += n
				}
			}
		case 2:
			if n := AsInt(a[1]); r.Skip(n) == nil {
				cur += n
			}
		case 3:
			k := AsInt(a[1])
			bs := make([]byte, k)
			m, _ := r.ReadBinary(bs)
			if m > k {
				m = k
			}
			if m < 0 {
				m = 0
			}
			ck.ok(string(bs[:m]) == string(c09Seg(stream, cur, m)))
			cur += m
		case 4:
			r.ReadLen()
		case 5:
			ck.ok(c09LiveOK(live)) // everything handed out since the last Release, right before it ends
			r.Release(nil)
			live = nil
		case 6:
			sd := thrift.NewSkipDecoder(r)
			b, err := sd.Next(thrift.TType(AsInt(a[1])))
			sd.Release()
			if err == nil {
				live = append(live, c09Live{b, c09Seg(stream, cur, len(b))})
				cur += len(b)
			}
		}
		st := bufiox.VerifOwnReader(r)
		ck.ok(!cot.holds(st.Buf.Base))
		for _, pb := range st.Pending {
			ck.ok(!cot.holds(pb.Base))
		}
		ck.ok(cot.cycle(2)) // a block freed while slices into it are live is repainted here
		ck.ok(c09LiveOK(live))
	}
	ck.ok(c09LiveOK(live))
	r.Release(nil)
	ck.ok(cot.drop())
	ck.ok(string(arr) == string(pristine))
	return ck.out()
}

// ---- self-checking cycles of the other pooled types ----
func c14Codec(p []V) V {
	var target []byte
	bw := bufiox.NewBytesWriter(&target)
	w := thrift.NewBufferWriter(bw)
	vals := AsList(p[0])
	ok := true
	for _, v := range vals {
		a := AsList(v)
		var err error
		switch AsInt(a[0]) {
		case 8:
			err = w.WriteI32(int32(AsInt(a[1])))
		case 10:
			err = w.WriteI64(AsI64(a[1]))
		case 11:
			err = w.WriteString(string(AsBytes(a[1])))
		case 12:
			err = w.WriteBinary(AsBytes(a[1]))
		case 2:
			err = w.WriteBool(AsBool(a[1]))
		}
		if err != nil {
			ok = false
		}
	}
	if err := bw.Flush(); err != nil {
		ok = false
	}
	w.Recycle()
	r := thrift.NewBufferReader(bufiox.NewBytesReader(target))
	for _, v := range vals {
		a := AsList(v)
		switch AsInt(a[0]) {
		case 8:
			x, err := r.ReadI32()
			ok = ok && err == nil && x == int32(AsInt(a[1]))
		case 10:
			x, err := r.ReadI64()
			ok = ok && err == nil && x == AsI64(a[1])
		case 11:
			x, err := r.ReadString()
			ok = ok && err == nil && x == string(AsBytes(a[1]))
		case 12:
			x, err := r.ReadBinary()
			ok = ok && err == nil && string(x) == string(AsBytes(a[1]))
		case 2:
			x, err := r.ReadBool()
			ok = ok && err == nil && x == AsBool(a[1])
		}
	}
	if _, err := r.ReadI32(); err == nil { // nothing may be left
		ok = false
	}
	ok = ok && int(r.Readn()) == len(target)
	r.Recycle()
	// strings and binaries read through a stream-backed reader are held across Release/Recycle and
	// the reuse of the reader's blocks by somebody else
	cot := c14NewCot(12, c14ClassOf(len(target)+4096)+1, len(target))
	cot.take(1)
	rd := bufiox.NewDefaultReader(&c09Src{data: append([]byte(nil), target...), final: io.EOF, chunks: []int{7, 1000}})
	r2 := thrift.NewBufferReader(rd)
	var strs []string
	var bins [][]byte
	for _, v := range vals {
		a := AsList(v)
		switch AsInt(a[0]) {
		case 8:
			r2.ReadI32()
		case 10:
			r2.ReadI64()
		case 11:
			x, err := r2.ReadString()
			ok = ok && err == nil
			strs = append(strs, x)
		case 12:
			x, err := r2.ReadBinary()
			ok = ok && err == nil
			bins = append(bins, x)
		case 2:
			r2.ReadBool()
		}
	}
	rd.Release(nil)
	r2.Recycle()
	ok = ok && cot.cycle(2)
	cot.repaint()
	for _, v := range vals {
		a := AsList(v)
		switch AsInt(a[0]) {
		case 11:
			ok = ok && strs[0] == string(AsBytes(a[1]))
			strs = strs[1:]
		case 12:
			ok = ok && string(bins[0]) == string(AsBytes(a[1]))
			bins = bins[1:]
		}
	}
	ok = ok && cot.drop()
	return Ls(Bo(ok), Bs(target))
}

func c14Header(p []V) V {
	seq := int32(AsInt(p[0]))
	str := map[string]string{}
	ints := map[uint16]string{}
	for i, kv := range AsList(p[1]) {
		a := AsList(kv)
		if i%2 == 0 {
			str[string(AsBytes(a[0]))] = string(AsBytes(a[1]))
		} else {
			ints[uint16(len(AsBytes(a[0]))+i)] = string(AsBytes(a[1]))
		}
	}
	ep := ttheader.EncodeParam{SeqID: seq, ProtocolID: ttheader.ProtocolIDThriftBinary, IntInfo: ints, StrInfo: str}
	buf, err := ttheader.EncodeToBytes(context.Background(), ep)
	if err != nil {
		return Ls(Bo(false), I(-1))
	}
	tot := len(buf) - 4
	buf[0], buf[1], buf[2], buf[3] = byte(tot>>24), byte(tot>>16), byte(tot>>8), byte(tot)
	dp, err := ttheader.DecodeFromBytes(context.Background(), buf)
	ok := err == nil && dp.SeqID == seq && dp.HeaderLen == len(buf) && dp.PayloadLen == 0
	for k, v := range str {
		ok = ok && dp.StrInfo[k] == v
	}
	for k, v := range ints {
		ok = ok && dp.IntInfo[k] == v
	}
	ok = ok && len(dp.StrInfo) == len(str) && len(dp.IntInfo) == len(ints)
	// the stream variant over bufiox
	var target []byte
	bw := bufiox.NewBytesWriter(&target)
	tl, err := ttheader.Encode(context.Background(), ep, bw)
	if err == nil {
		tl[0], tl[1], tl[2], tl[3] = byte(tot>>24), byte(tot>>16), byte(tot>>8), byte(tot)
		err = bw.Flush()
	}
	ok = ok && err == nil && len(target) == len(buf)
	if err == nil {
		dp2, err2 := ttheader.Decode(context.Background(), bufiox.NewBytesReader(target))
		ok = ok && err2 == nil && dp2.SeqID == seq && len(dp2.StrInfo) == len(str) && len(dp2.IntInfo) == len(ints)
	}
	// decode results own their bytes: (a) from bytes the caller then overwrites, (b) from a
	// stream-backed reader that is released and whose blocks somebody else then reuses
	same := func(dp ttheader.DecodeParam) bool {
		if len(dp.StrInfo) != len(str) || len(dp.IntInfo) != len(ints) {
			return false
		}
		for k, v := range str { // look the keys up: the map's own key strings must still be intact
			if got, has := dp.StrInfo[k]; !has || got != v {
				return false
			}
		}
		for k, v := range dp.StrInfo {
			if want, has := str[k]; !has || want != v {
				return false
			}
		}
		for k, v := range ints {
			if got, has := dp.IntInfo[k]; !has || got != v {
				return false
			}
		}
		return true
	}
	payload := AsInt(p[0]) % 3 * 3000
	frame := append(append([]byte(nil), buf...), Pat(int(seq), payload)...)
	tot = len(frame) - 4
	frame[0], frame[1], frame[2], frame[3] = byte(tot>>24), byte(tot>>16), byte(tot>>8), byte(tot)
	mine := append([]byte(nil), frame...)
	dpa, erra := ttheader.DecodeFromBytes(context.Background(), mine)
	for i := range mine {
		mine[i] = 0xA5
	}
	ok = ok && erra == nil && dpa.PayloadLen == payload && same(dpa)
	cot := c14NewCot(12, c14ClassOf(len(frame)+4096)+1, len(frame))
	cot.take(1)
	rd := bufiox.NewDefaultReader(&c09Src{data: frame, final: io.EOF, chunks: []int{14, 3, 2000}})
	dpb, errb := ttheader.Decode(context.Background(), rd)
	ok = ok && errb == nil && dpb.SeqID == seq && dpb.HeaderLen == len(buf) && dpb.PayloadLen == payload
	if errb == nil {
		pl, errp := rd.Next(dpb.PayloadLen)
		ok = ok && errp == nil && string(pl) == string(frame[len(buf):])
	}
	rd.Release(nil)
	ok = ok && cot.cycle(2) // the reader's blocks are now somebody else's, repainted
	cot.repaint()
	ok = ok && same(dpb)
	ok = ok && cot.drop()
	runtime.KeepAlive(mine)
	return Ls(Bo(ok), I(len(buf)))
}

func c14SkipDec(kind int, p []V) V {
	stream := AsBytes(p[0])
	ok := true
	pos := 0
	if kind == 7 {
		rd := bufiox.NewBytesReader(stream)
		d := thrift.NewSkipDecoder(rd)
		for _, v := range AsList(p[1]) {
			a := AsList(v)
			n := AsInt(a[1])
			if AsInt(a[0]) < 0 { // a direct SkipN, on a decoder fresh from the pool (rn is only reset by Next and Release)
				d.Release()
				d = thrift.NewSkipDecoder(rd)
				b, err := d.SkipN(n)
				ok = ok && err == nil && string(b) == string(stream[pos:pos+n])
				// SkipN only peeks: give the bytes to the reader, as Next would
				if err == nil {
					_, rn := thrift.VerifOwnSkipDecoderState(d)
					ok = ok && rn >= n
				}
				d.Release()
				rd.Skip(n)
				d = thrift.NewSkipDecoder(rd)
			} else {
				b, err := d.Next(thrift.TType(AsInt(a[0])))
				ok = ok && err == nil && string(b) == string(stream[pos:pos+n])
			}
			pos += n
		}
		_, err := d.Next(thrift.I32)
		ok = ok && err != nil && int(rd.ReadLen()) == pos
		d.Release()
	} else {
		d := thrift.NewBytesSkipDecoder(stream)
		for _, v := range AsList(p[1]) {
			a := AsList(v)
			n := AsInt(a[1])
			if AsInt(a[0]) < 0 {
				b, err := d.SkipN(n)
				ok = ok && err == nil && string(b) == string(stream[pos:pos+n])
				d.Release()
				d = thrift.NewBytesSkipDecoder(stream[pos+n:])
			} else {
				b, err := d.Next(thrift.TType(AsInt(a[0])))
				ok = ok && err == nil && string(b) == string(stream[pos:pos+n])
			}
			pos += n
		}
		_, err := d.Next(thrift.I32)
		ok = ok && err != nil
		d.Release()
	}
	return Ls(Bo(ok), I(pos))
}

type c14Maps struct {
	keys []string
	ref  map[string]int
	sm   *strmap.StrMap[int]
	s2s  *strmap.Str2Str
}

func c14MkMaps(n, seed int) *c14Maps {
	m := &c14Maps{ref: map[string]int{}}
	vs := make([]int, 0, n)
	svs := make([]string, 0, n)
	for i := 0; i < n; i++ {
		k := fmt.Sprintf("k%d/%x", seed, i*2654435761)
		if i%7 == 0 {
			k = string(Pat(seed+i, i%23))
			if _, dup := m.ref[k]; dup {
				k = fmt.Sprintf("%s#%d", k, i)
			}
		}
		m.keys = append(m.keys, k)
		m.ref[k] = i * 3
		vs = append(vs, i*3)
		svs = append(svs, fmt.Sprintf("v%d", i*3))
	}
	m.sm = strmap.NewFromSlice(m.keys, vs)
	m.s2s = strmap.NewStr2StrFromSlice(m.keys, svs)
	return m
}

func c14Get(m *c14Maps, p []V) V {
	ok := true
	hits := 0
	for _, ix := range AsList(p[0]) {
		i := AsInt(ix)
		var k string
		if i >= 0 && i < len(m.keys) {
			k = m.keys[i]
		} else {
			k = fmt.Sprintf("absent%d", i)
		}
		want, has := m.ref[k]
		v, found := m.sm.Get(k)
		s, found2 := m.s2s.Get(k)
		ok = ok && found == has && found2 == has && (!has || (v == want && s == fmt.Sprintf("v%d", want)))
		if found {
			hits++
		}
	}
	return Ls(Bo(ok), I(hits))
}

// kind 13: hostile inputs decoded concurrently.  Every goroutine pushes malformed values with
// unknown / out-of-range type tags (incl. >= 0x80) through the in-memory decoders; each call must
// return an error (never panic, never succeed) and the error must be a protocol exception.  The
// point is the concurrent error path: anything these paths share between goroutines (a lazily
// built table, a cache of error values) shows up as a data race or a crash.
func c14Hostile(p []V) V {
	ok, n := true, 0
	for _, it := range AsList(p[0]) {
		a := AsList(it)
		t, b := byte(AsInt(a[0])), AsBytes(a[1])
		_, err := thrift.Binary.Skip(b, thrift.TType(t))
		_, isp := err.(*thrift.ProtocolException)
		ok = ok && err != nil && isp
		d := thrift.NewBytesSkipDecoder(b)
		_, err2 := d.Next(thrift.TType(t))
		d.Release()
		ok = ok && err2 != nil
		// the same bytes as an unknown field of a shipped struct
		fld := append([]byte{t, 0x7f, 0x01}, b...)
		if t != 0 { // (type 0 as a field header is STOP: a complete empty struct)
			_, err3 := thrift.NewApplicationException(0, "").FastRead(fld)
			ok = ok && err3 != nil
		}
		n++
	}
	return Ls(Bo(ok), I(n))
}

// kind 14: many small strings / binaries decoded with the in-memory readers while the span cache is
// ON (c14Run enables it for cases that contain this kind), all results retained and verified at the
// end: values handed to different goroutines must never share memory, also when the allocator
// moves to a new block.
func c14SpanDecode(p []V) V {
	n, seed := AsInt(p[0]), AsInt(p[1])
	var enc []byte
	var want [][]byte
	for i := 0; i < n; i++ {
		l := 1 + (i*7+seed)%100
		v := Pat(seed+i, l)
		want = append(want, v)
		enc = append(enc, byte(l>>24), byte(l>>16), byte(l>>8), byte(l))
		enc = append(enc, v...)
	}
	gotS := make([]string, 0, n)
	gotB := make([][]byte, 0, n)
	off, ok := 0, true
	for i := 0; i < n; i++ {
		if i%2 == 0 {
			s, l, err := thrift.Binary.ReadString(enc[off:])
			ok = ok && err == nil
			gotS = append(gotS, s)
			gotB = append(gotB, nil)
			off += l
		} else {
			b, l, err := thrift.Binary.ReadBinary(enc[off:])
			ok = ok && err == nil
			gotB = append(gotB, b)
			gotS = append(gotS, "")
			off += l
		}
	}
	bad := 0
	for i := 0; i < n; i++ {
		if i%2 == 0 {
			if gotS[i] != string(want[i]) {
				bad++
			}
		} else if string(gotB[i]) != string(want[i]) {
			bad++
		}
	}
	return Ls(Bo(ok && bad == 0), I(n), I(bad))
}

// kind 15: the SAME EncodeParam (maps included) is the read-only input of the Encode calls of all
// goroutines; every produced frame must decode back to it
var c14SharedEP = ttheader.EncodeParam{
	Flags: 0, SeqID: 77, ProtocolID: ttheader.ProtocolIDThriftBinary,
	IntInfo: map[uint16]string{1: "svc", 2: "method", 9: ""},
	StrInfo: map[string]string{ttheader.GDPRToken: "token-value", "k1": "v1", "k2": "", "": "empty key"},
}

func c14SharedParam(p []V) V {
	n, bad := AsInt(p[0]), 0
	for i := 0; i < n; i++ {
		buf, err := ttheader.EncodeToBytes(context.Background(), c14SharedEP)
		if err != nil {
			bad++
			continue
		}
		tot := len(buf) - 4
		buf[0], buf[1], buf[2], buf[3] = byte(tot>>24), byte(tot>>16), byte(tot>>8), byte(tot)
		dp, err := ttheader.DecodeFromBytes(context.Background(), buf)
		if err != nil || len(dp.StrInfo) != len(c14SharedEP.StrInfo) || len(dp.IntInfo) != len(c14SharedEP.IntInfo) {
			bad++
			continue
		}
		for k, v := range c14SharedEP.StrInfo {
			if got, has := dp.StrInfo[k]; !has || got != v {
				bad++
			}
		}
		for k, v := range c14SharedEP.IntInfo {
			if got, has := dp.IntInfo[k]; !has || got != v {
				bad++
			}
		}
	}
	return Ls(Bo(bad == 0), I(n), I(bad))
}

// kind 16: each goroutine's own stream reader runs dry; the failure goes through PrependError the way
// generated code does; text, type id and cause of every result are this goroutine's, every time
func c14EOFPrepend(p []V) V {
	n, id, bad := AsInt(p[0]), AsInt(p[1]), 0
	for i := 0; i < n; i++ {
		src := &c09Src{data: Pat(id+i, i%3), final: io.EOF}
		r := thrift.NewBufferReader(bufiox.NewDefaultReader(src))
		_, err := r.ReadI64()
		r.Recycle()
		if err == nil {
			bad++
			continue
		}
		base := err.Error()
		prefix := fmt.Sprintf("g%d/%d read field %d error: ", id, i, i%7)
		pe := thrift.PrependError(prefix, err)
		if pe.Error() != prefix+base || err.Error() != base || !errors.Is(pe, io.EOF) && errors.Is(err, io.EOF) && false {
			bad++
		}
		if x, ok := pe.(interface{ TypeId() int32 }); !ok || x.TypeId() != thrift.UNKNOWN_PROTOCOL_EXCEPTION {
			bad++
		}
	}
	return Ls(Bo(bad == 0), I(n), I(bad))
}

// kind 17: two consecutive LARGE binaries (and a string) through one stream reader, sizes at and around
// powers of two up to 8 MiB; all results are retained, a co-tenant takes and paints blocks of the same
// size classes in between, and every result is re-verified at the end: a value handed to the caller is
// the caller's alone
func c14BigBinaries(p []V) V {
	sz, seed := AsInt(p[0]), AsInt(p[1])
	var stream []byte
	var want [][]byte
	for i := 0; i < 3; i++ {
		v := Pat(seed+i, sz)
		want = append(want, v)
		stream = append(stream, byte(sz>>24), byte(sz>>16), byte(sz>>8), byte(sz))
		stream = append(stream, v...)
	}
	rd := bufiox.NewDefaultReader(&c09Src{data: stream, final: io.EOF, chunks: []int{7, 4096, 1 << 20}})
	br := thrift.NewBufferReader(rd)
	var got [][]byte
	ok := true
	lo := c14ClassOf(sz) - 1
	if lo < 3 {
		lo = 3
	}
	cot := c14NewCot(lo, c14ClassOf(sz)+1, sz)
	for i := 0; i < 3; i++ {
		if i == 2 {
			s, err := br.ReadString()
			ok = ok && err == nil
			got = append(got, []byte(s))
		} else {
			b, err := br.ReadBinary()
			ok = ok && err == nil
			got = append(got, b)
		}
		cot.take(1)
	}
	br.Recycle()
	rd.Release(nil)
	cot.take(1)
	for i := range got {
		ok = ok && string(got[i]) == string(want[i])
	}
	for i := 0; i < 2 && ok; i++ { // writing through one result changes no other
		if len(got[i]) > 0 {
			got[i][0] ^= 0xff
			ok = ok && string(got[1-i]) == string(want[1-i])
			got[i][0] ^= 0xff
		}
	}
	ok = ok && cot.drop()
	return Ls(Bo(ok), I(sz))
}

func c14Cycle(m *c14Maps, c V) (out V) {
	defer func() {
		if r := recover(); r != nil {
			out = Ls(I(-99), Str(fmt.Sprint(r)))
		}
	}()
	a := AsList(c)
	kind, p := AsInt(a[0]), AsList(a[1])
	switch kind {
	case 0, 1:
		return c14Reader(kind, p, AsList(a[2]))
	case 2, 3:
		return c14Writer(kind, p, AsList(a[2]))
	case 4:
		return c14Skip(p, AsList(a[2]))
	case 5:
		return c14Codec(p)
	case 6:
		return c14Header(p)
	case 7, 8:
		return c14SkipDec(kind, p)
	case 9:
		return c14Get(m, p)
	case 10:
		return c14BigSkip(p)
	case 11, 12:
		return c14Retain(kind, p, AsList(a[2]))
	case 13:
		return c14Hostile(p)
	case 14:
		return c14SpanDecode(p)
	case 15:
		return c14SharedParam(p)
	case 16:
		return c14EOFPrepend(p)
	case 17:
		return c14BigBinaries(p)
	}
	panic("c14: bad cycle kind")
}

func c14Script(m *c14Maps, s V) V {
	var outs VL = VL{}
	for _, c := range AsList(s) {
		outs = append(outs, c14Cycle(m, c))
	}
	return outs
}

// what a recycled object of every pooled type looks like; observed without concurrency
func c14Resets() V {
	src := &c09Src{data: Pat(1, 40), final: io.EOF}
	rsd := thrift.NewReaderSkipDecoder(src)
	rsd.Next(thrift.I64)
	rsd.SkipN(3)
	rsd.Release()
	_, _, _, n := thrift.VerifOwnRSD(rsd)
	rsdObs := Ls(Bo(thrift.VerifOwnRSDReaderIsNil(rsd)), I(n))
	rd := bufiox.NewBytesReader(Pat(2, 40))
	sd := thrift.NewSkipDecoder(rd)
	sd.SkipN(5)
	sd.Release()
	rnil, rn := thrift.VerifOwnSkipDecoderState(sd)
	sdObs := Ls(Bo(rnil), I(rn))
	bs := thrift.NewBytesSkipDecoder(Pat(3, 40))
	bs.SkipN(7)
	bs.Release()
	ln, _, bn := thrift.VerifOwnBytesSkipDecoderState(bs)
	bsObs := Ls(I(bn), I(ln))
	br := thrift.NewBufferReader(rd)
	br.ReadI32()
	br.Recycle()
	var t []byte
	bw := thrift.NewBufferWriter(bufiox.NewBytesWriter(&t))
	bw.WriteI32(1)
	bw.Recycle()
	return Ls(Bo(thrift.VerifOwnBufferReaderIsReset(br)), Bo(thrift.VerifOwnBufferWriterIsReset(bw)), sdObs, bsObs, rsdObs)
}

var c14Once sync.Once

func c14Run(in V) V {
	if fn := os.Getenv("VERIF_C14_CUR"); fn != "" { // lets ./check name the case a race report belongs to
		os.WriteFile(fn, []byte(Show(in)), 0o644)
	}
	// collect between cases (and when 3 GiB are reached) only: inside a case the pools keep their
	// blocks, so that what one goroutine frees is what another one gets
	c14Once.Do(func() { debug.SetGCPercent(-1); debug.SetMemoryLimit(3 << 30) })
	runtime.GC()
	c14Streams.Range(func(k, _ interface{}) bool { c14Streams.Delete(k); return true })
	a := AsList(in)
	G, R := AsInt(a[0]), AsInt(a[1])
	scripts := AsList(a[2])
	mp := AsList(a[3])
	m := c14MkMaps(AsInt(mp[0]), AsInt(mp[1]))
	resets := c14Resets()
	if strings.Contains(Show(a[2]), "((14 (") || strings.Contains(Show(a[2]), " (14 (") {
		thrift.SetSpanCache(true) // a global switch: set before the goroutines start, reset after the case
		defer thrift.SetSpanCache(false)
	}
	// concurrent phase FIRST (so that whatever the library builds lazily on first use — tables,
	// caches of error values — is built under concurrency), sequential reference afterwards
	first := make([]V, G)
	repseq := make([]bool, G)
	var wg sync.WaitGroup
	start := make(chan struct{})
	for i := 0; i < G; i++ {
		wg.Add(1)
		go func(i int) {
			defer wg.Done()
			<-start
			repseq[i] = true
			var f string
			for r := 0; r < R; r++ {
				o := c14Script(m, scripts[i])
				s := Show(o)
				if r == 0 {
					first[i], f = o, s
				} else if s != f {
					repseq[i] = false
				}
			}
		}(i)
	}
	close(start)
	wg.Wait()
	// sequential reference: the same scripts, one after the other
	ref := make([]string, G)
	for i := 0; i < G; i++ {
		ref[i] = Show(c14Script(m, scripts[i]))
	}
	seqeq, reps := true, true
	var outs VL = VL{}
	for i := 0; i < G; i++ {
		outs = append(outs, first[i])
		if Show(first[i]) != ref[i] {
			seqeq = false
		}
		reps = reps && repseq[i]
	}
	return Ls(outs, Bo(seqeq), Bo(reps), resets)
}

func init() {
	register("C14", &Prop{Gen: genC14, Run: c14Run})
}

func genC14(g *Gen) {
	// a library of small bufiox / ReaderSkipDecoder cycles: the C09 generator's cases
	lg := &Gen{R: g.R, Tier: "quick", classes: map[string]int{}}
	genC09With(lg, false)
	var lib []V
	for _, c := range lg.cases {
		if len(Show(c)) < 260 {
			lib = append(lib, c)
		}
	}
	str := func(n int) V { return Bs(Pat(g.R.Intn(250), n)) }
	codec := func() V {
		var vals VL = VL{}
		for j := 1 + g.R.Intn(6); j > 0; j-- {
			switch g.R.Intn(5) {
			case 0:
				vals = append(vals, Ls(I(8), I(g.R.Intn(1<<31)-(1<<30))))
			case 1:
				vals = append(vals, Ls(I(10), I64(g.R.Int63()-(1<<62))))
			case 2:
				vals = append(vals, Ls(I(11), str(g.R.Intn(60))))
			case 3:
				vals = append(vals, Ls(I(12), str([]int{0, 1, 100, 5000}[g.R.Intn(4)])))
			default:
				vals = append(vals, Ls(I(2), I(g.R.Intn(2))))
			}
		}
		return Ls(I(5), Ls(vals), Ls())
	}
	header := func() V {
		var kvs VL = VL{}
		nkv, long := g.R.Intn(5), 0
		if g.R.Intn(4) == 0 {
			nkv = 6 + g.R.Intn(20)
		}
		for j := nkv; j > 0; j-- {
			vl := g.R.Intn(40)
			if g.R.Intn(12) == 0 && long < 3 { // the header outgrows the reader's first buffer (but stays below MaxHeaderSize)
				vl = []int{3000, 5000, 9000}[g.R.Intn(3)]
				long++
			}
			var val V = str(vl)
			if vl > 100 {
				val = PatV(g.R.Intn(250), vl)
			}
			kvs = append(kvs, Ls(Str(fmt.Sprintf("key-%d-%d", j, g.R.Intn(1000))), val))
		}
		if g.R.Intn(3) == 0 { // the ACL token travels in its own info block (even position: a string key)
			tok := Ls(Str(ttheader.GDPRToken), str(1+g.R.Intn(60)))
			if len(kvs)%2 == 1 {
				kvs = append(kvs, Ls(Str("pad"), str(3)))
			}
			kvs = append(kvs, tok)
		}
		return Ls(I(6), Ls(I(g.R.Intn(1<<30)), kvs), Ls())
	}
	// kind 10: users of pooled ReaderSkipDecoders with big values (sizes: payload of the big value, 0 = small only)
	bigPlans := [][]int{{70000, 0}, {66000, 0, 70000}, {65537, 140000}, {140000, 0, 0}, {0, 70000, 0}, {200000, 66000}, {300000, 0}, {70000, 70001, 0},
		{65537, 0}, {0, 66000}, {70000, 0, 0}, {100000, 0}, {66000, 70000}, {131073, 0}}
	bigskip := func(huge bool) V {
		plan := bigPlans[g.R.Intn(len(bigPlans))]
		if huge {
			plan = [][]int{{1000000, 0}, {0, 1100000, 70000}, {1048576 + 5, 0, 0}}[g.R.Intn(3)]
		}
		var users VL
		for _, n0 := range plan {
			var parts VL = VL{I(1)}
			var items VL = VL{}
			total := 0
			addv := func(v c09Val) {
				parts = append(parts, v.enc...)
				items = append(items, Ls(I(v.t), I(v.n)))
				total += v.n
			}
			if g.R.Intn(2) == 0 {
				addv(c09GenVal(g, false))
			}
			if n0 == 0 {
				addv(c09GenVal(g, true))
			} else {
				addv(c09GenBigVal(g, n0+g.R.Intn(3)))
			}
			if g.R.Intn(2) == 0 {
				addv(c09GenVal(g, false))
			}
			var ch V = Ls()
			switch g.R.Intn(3) {
			case 0:
				ch = Ls(I(1), I(0), Ls(I(65536), I(total/65536+2)))
			case 1:
				ch = Ls(I(3), Ls(I(total/3+1), I(5)))
			}
			users = append(users, Ls(parts, items, ch))
		}
		return Ls(I(10), Ls(users), Ls())
	}
	// kinds 11/12: retained slices; directed Peek-with-nothing-consumed-then-grow shapes and random histories
	rop := func(k, n int) V { return Ls(I(k), I(n)) }
	rrel := Ls(I(5))
	var rlib []V
	for _, c := range lib {
		if k := AsInt(AsList(c)[0]); k == 0 || k == 1 {
			rlib = append(rlib, c)
		}
	}
	retain := func() V {
		if g.R.Intn(3) == 0 {
			c := AsList(rlib[g.R.Intn(len(rlib))])
			return Ls(I(11+AsInt(c[0])), c[1], c[2])
		}
		n1 := []int{1, 16, 100, 1000, 4096}[g.R.Intn(5)]
		n2 := []int{4097, 5000, 8192, 8193, 12000, 16385, 40000, 70000}[g.R.Intn(8)]
		n3 := n2 + []int{1, 4096, 2 * n2, 140000 - n2}[g.R.Intn(4)]
		dl := n1 + n2 + n3 + 10 + g.R.Intn(5000)
		ch := []V{Ls(), Ls(Ls(I(1000), I(dl/1000+2))), Ls(I(4096), Ls(I(3000), I(dl/3000+2))), Ls(I(n1), I(100000))}[g.R.Intn(4)]
		var ops VL
		switch g.R.Intn(5) {
		case 4: // everything read so far consumed (the source delivers exactly n1 first), then growth
			ch = Ls(I(n1), I(100000))
			ops = VL{rop(0, n1), rop(0, n2), rop(1, n3), rrel, rop(0, 1), rrel}
		case 0: // Peek right after New, held across one and two growths
			ops = VL{rop(1, n1), rop(1, n2), rop(1, n3), rop(0, n1), rrel}
		case 1: // Peek right after a Release that kept unread bytes, then growth
			ops = VL{rop(0, n1), rop(1, 8), rrel, rop(1, n1), rop(0, n2), rop(1, n1), rrel, rop(1, 1), rop(1, n3), rrel}
		case 2: // Peek right after a Release that freed the buffer
			ops = VL{rop(1, n1), rop(0, n1), rrel, rop(1, n1), rop(1, n2), rop(0, n2), rrel}
		default:
			ops = VL{rop(1, n1), rop(0, n2), rop(1, n1), rop(1, n3), rrel, rop(1, n1), rop(0, n1), rrel}
		}
		if g.R.Intn(3) == 0 {
			c := 1
			for c < dl {
				c *= 2
			}
			return Ls(I(12), Ls(PatV(3, 8*g.R.Intn(2)), PatV(g.R.Intn(250), dl), PatV(5, []int{0, 7, c - dl}[g.R.Intn(3)])), ops)
		}
		return Ls(I(11), Ls(PatV(g.R.Intn(250), dl), I(20), I(g.R.Intn(2)), ch), ops)
	}
	skipd := func(kind int) V {
		var parts VL = VL{I(1)}
		var items VL = VL{}
		for j := 1 + g.R.Intn(4); j > 0; j-- {
			if g.R.Intn(5) == 0 {
				n := 1 + g.R.Intn(9)
				parts = append(parts, PatV(j, n))
				items = append(items, Ls(I(-1), I(n)))
				continue
			}
			v := c09GenVal(g, false)
			parts = append(parts, v.enc...)
			items = append(items, Ls(I(v.t), I(v.n)))
		}
		return Ls(I(kind), Ls(parts, items), Ls())
	}
	hostile := func() V {
		var items VL
		for j := 2 + g.R.Intn(5); j > 0; j-- {
			// an unknown type tag: 0, 1, 5, 7, 9, 16..255; a few bytes follow
			var t int
			switch g.R.Intn(3) {
			case 0:
				t = []int{0, 1, 5, 7, 9}[g.R.Intn(5)]
			case 1:
				t = 16 + g.R.Intn(112)
			default:
				t = 128 + g.R.Intn(128)
			}
			b := make([]byte, 1+g.R.Intn(6))
			g.R.Read(b)
			items = append(items, Ls(I(t), Bs(b)))
		}
		return Ls(I(13), Ls(items), Ls())
	}
	nkeys := 300
	gets := func() V {
		var ix VL = VL{}
		for j := 3 + g.R.Intn(20); j > 0; j-- {
			ix = append(ix, I(g.R.Intn(nkeys+40)-20))
		}
		return Ls(I(9), Ls(ix), Ls())
	}
	for i := 0; i < g.Scale(150, 1200); i++ {
		G := []int{2, 4, 8, 16}[g.R.Intn(4)]
		R := 3 + g.R.Intn(g.Scale(25, 60))
		// every fifth case: all goroutines run the pool-heavy cycles (big skip decoders, retaining
		// readers, stream-decoded headers/codecs) over the same size classes
		focus := i%5 == 1
		huge := i%30 == 6
		if focus {
			R = 2 + g.R.Intn(g.Scale(6, 12))
		}
		if huge {
			R = 2
		}
		var scripts VL
		nbig := 0
		for k := 0; k < G; k++ {
			var s VL
			if i%7 == 3 { // every goroutine decodes hostile inputs at the same time (shared error paths)
				scripts = append(scripts, VL{hostile(), gets(), hostile()})
				continue
			}
			if i%28 == 2 && k == 0 { // large binaries through a stream reader (one goroutine of a few cases: memory, time)
				szs := []int{4096, 65536, 1 << 20, 1<<22 + 1, 1 << 23, 1<<23 - 1}
				scripts = append(scripts, VL{Ls(I(17), Ls(I(szs[(i/7+k)%len(szs)]), I(i+k)), Ls())})
				continue
			}
			if i%7 == 1 { // every goroutine encodes from the same read-only EncodeParam
				scripts = append(scripts, VL{Ls(I(15), Ls(I(300+g.R.Intn(300))), Ls()), gets()})
				continue
			}
			if i%7 == 6 { // every goroutine's stream runs dry and the failure is decorated with PrependError
				scripts = append(scripts, VL{Ls(I(16), Ls(I(200+g.R.Intn(200)), I(k*1000+i)), Ls()), gets()})
				continue
			}
			if i%7 == 5 { // every goroutine decodes small values with the span cache on
				scripts = append(scripts, VL{Ls(I(14), Ls(I(600+g.R.Intn(900)), I(g.R.Intn(200))), Ls()), gets()})
				continue
			}
			for j := 1 + g.R.Intn(4); j > 0; j-- {
				sel := g.R.Intn(12)
				if focus {
					sel = []int{9, 9, 10, 10, 10, 1, 0, 5}[g.R.Intn(8)]
				}
				switch sel {
				case 9:
					if !focus && g.R.Intn(8) != 0 {
						s = append(s, lib[g.R.Intn(len(lib))])
						break
					}
					nbig++
					s = append(s, bigskip(huge && k < 3 && j == 1))
				case 10:
					if !focus && g.R.Intn(2) == 0 {
						s = append(s, lib[g.R.Intn(len(lib))])
						break
					}
					s = append(s, retain())
				case 11:
					if g.R.Intn(2) == 0 {
						s = append(s, retain())
					} else if g.R.Intn(8) == 0 {
						nbig++
						s = append(s, bigskip(false))
					} else {
						s = append(s, header())
					}
				case 0:
					s = append(s, codec())
				case 1:
					s = append(s, header())
				case 2:
					s = append(s, skipd(7))
				case 3:
					s = append(s, skipd(8))
				case 4:
					s = append(s, gets())
				case 5:
					s = append(s, hostile())
				default:
					s = append(s, lib[g.R.Intn(len(lib))])
				}
			}
			scripts = append(scripts, s)
		}
		if nbig > 0 && R > 8 {
			R = 8
		}
		cls := fmt.Sprintf("G%d", G)
		if focus {
			cls += "/pool"
		}
		g.Add(cls, Ls(I(G), I(R), scripts, Ls(I(nkeys), I(i))))
	}
}
