package main

import (
	"bytes"
	"context"
	"errors"
	"io"
	"math"
	"reflect"
	"sync"
	"unsafe"

	"github.com/cloudwego/gopkg/bufiox"
	"github.com/cloudwego/gopkg/protocol/thrift"
	"github.com/cloudwego/gopkg/protocol/thrift/apache"
)

// C19 — Apache bridge: buffer transport is the buffer; callbacks pass through.
// Format: see coq/Corr/C19.v.

// ---- objects handed to NewDefaultTransport ----
type c19RW struct {
	wrote [][]byte
	reads int
}

func (o *c19RW) Write(p []byte) (int, error) {
	o.wrote = append(o.wrote, append([]byte(nil), p...))
	return len(p), nil
}
func (o *c19RW) Read(p []byte) (int, error) {
	o.reads++
	for i := range p {
		p[i] = 0x5a
	}
	return len(p), nil
}

type c19Readable struct { // implements ReadableLen() int
	c19RW
	n int
}

func (o *c19Readable) ReadableLen() int { return o.n }

type c19Len struct { // has Len() int only: not what defaultTransport looks for
	c19RW
	n int
}

func (o *c19Len) Len() int { return o.n }

// objects that already have the whole TTransport method set (with their own, different, idea of
// RemainingBytes): NewDefaultTransport must still wrap them like any other ReadWriter
type c19Full struct{ c19RW }

func (o *c19Full) Close() error                  { return nil }
func (o *c19Full) RemainingBytes() uint64        { return 3 }
func (o *c19Full) Flush(context.Context) error   { return nil }
func (o *c19Full) Open() error                   { return nil }
func (o *c19Full) IsOpen() bool                  { return true }

type c19FullReadable struct {
	c19Full
	n int
}

func (o *c19FullReadable) ReadableLen() int { return o.n }

// an object whose readable length DROPS between two looks (a buffer drained by its consumer):
// n at the first call after the harness armed it, 0 afterwards
type c19Dropping struct {
	c19RW
	n, calls int
}

func (o *c19Dropping) ReadableLen() int {
	o.calls++
	if o.calls == 1 {
		return o.n
	}
	return 0
}

// ---- registry callbacks ----
var (
	c19Args = []interface{}{&struct{ a int }{0}, &struct{ a int }{1}, &struct{ a int }{2}, &struct{ a int }{3}}
	// what the callbacks return: nil, private values, and well-known sentinels / library values that a
	// bridge could be tempted to translate (the result must be handed back as it is)
	c19Errs = []error{nil, errors.New("cb error 1"), io.EOF, errors.New("cb error 3"), io.ErrUnexpectedEOF,
		thrift.NewProtocolException(thrift.INVALID_DATA, "cb protocol exception"),
		thrift.NewApplicationException(6, "cb application exception"), io.ErrShortWrite}
	c19Text = []string{"func `RegisterCheckTStruct` not called", "func `RegisterThriftRead` not called", "func `RegisterThriftWrite` not called"}
)

type c19Call struct {
	called bool
	fid    int
	v      interface{}
	rw     interface{}
	ret    error
}

var c19Last c19Call

func c19ArgIdx(v interface{}) int {
	for i, a := range c19Args {
		if a == v {
			return i
		}
	}
	return -2
}

func c19Cb(fid int, v, rw interface{}) error {
	ret := c19Errs[((fid+c19ArgIdx(v))%8+8)%8]
	c19Last = c19Call{called: true, fid: fid, v: v, rw: rw, ret: ret}
	return ret
}

func c19Register(slot, fid int) {
	switch slot {
	case 0:
		if fid < 0 {
			apache.RegisterCheckTStruct(nil)
		} else {
			apache.RegisterCheckTStruct(func(v interface{}) error { return c19Cb(fid, v, nil) })
		}
	case 1:
		if fid < 0 {
			apache.RegisterThriftRead(nil)
		} else {
			apache.RegisterThriftRead(func(r bufiox.Reader, v interface{}) error { return c19Cb(fid, v, r) })
		}
	case 2:
		if fid < 0 {
			apache.RegisterThriftWrite(nil)
		} else {
			apache.RegisterThriftWrite(func(w bufiox.Writer, v interface{}) error { return c19Cb(fid, v, w) })
		}
	default:
		panic("c19: bad slot")
	}
}

func c19Dispatch(slot int, v interface{}) (err error, rw interface{}) {
	switch slot {
	case 0:
		return apache.CheckTStruct(v), nil
	case 1:
		r := bufiox.NewDefaultReader(&bytes.Buffer{})
		return apache.ThriftRead(r, v), r
	case 2:
		w := bufiox.NewDefaultWriter(&bytes.Buffer{})
		return apache.ThriftWrite(w, v), w
	}
	panic("c19: bad slot")
}

func c19CallStep(slot, arg int) V {
	c19Last = c19Call{}
	v := c19Args[arg]
	err, rw := c19Dispatch(slot, v)
	last := c19Last
	gf, ga, grw := -1, -1, -1
	if last.called {
		gf, ga, grw = last.fid, c19ArgIdx(last.v), 0
		if (slot == 0 && last.rw == nil) || (slot != 0 && last.rw == rw) {
			grw = 1
		}
	}
	class, code := 3, -1
	switch {
	case last.called && err == nil && last.ret == nil:
		class, code = 0, 0
	case last.called && err != nil && err == last.ret:
		class = 2
		for i, e := range c19Errs {
			if e == err {
				code = i
			}
		}
	case !last.called && err != nil && err.Error() == c19Text[slot]:
		// a specific value: the same one on a second call
		err2, _ := c19Dispatch(slot, v)
		if err2 == err && !c19Last.called {
			class, code = 1, slot
		}
	}
	return Ls(I(class), I(code), I(gf), I(ga), I(grw))
}

func c19ResetRegistry() {
	apache.RegisterCheckTStruct(nil)
	apache.RegisterThriftRead(nil)
	apache.RegisterThriftWrite(nil)
}

func c19History(init []byte, hist []V) V {
	buf := bytes.NewBuffer(append([]byte(nil), init...))
	tr := apache.NewBufferTransport(buf)
	ptrSame := reflect.ValueOf(tr).Kind() == reflect.Ptr && reflect.ValueOf(tr).Pointer() == uintptr(unsafe.Pointer(buf))
	errNil := func(e error) V { return Bo(e == nil) }
	var outs []V
	for _, o := range hist {
		a := AsList(o)
		var res []V
		switch AsInt(a[0]) {
		case 0:
			var w io.Writer = buf
			if AsInt(a[1]) == 1 {
				w = tr
			}
			// the caller reuses its slice (and the spare capacity behind it) right after the write:
			// what was written must have been copied into the buffer
			data := AsBytes(a[2])
			own := make([]byte, len(data), len(data)+16)
			copy(own, data)
			n, err := w.Write(own)
			own = own[:cap(own)]
			for i := range own {
				own[i] ^= 0xA5
			}
			res = []V{I(n), errNil(err)}
		case 1:
			var r io.Reader = buf
			if AsInt(a[1]) == 1 {
				r = tr
			}
			p := make([]byte, AsInt(a[2]))
			n, err := r.Read(p)
			ec := 2
			if err == nil {
				ec = 0
			} else if err == io.EOF {
				ec = 1
			}
			res = []V{Bs(p[:n]), I(ec)}
		case 2:
			if AsInt(a[1]) == 1 {
				tr.(interface{ Reset() }).Reset()
			} else {
				buf.Reset()
			}
		case 3:
			if AsInt(a[1]) == 1 {
				res = []V{I(tr.(interface{ Len() int }).Len())}
			} else {
				res = []V{I(buf.Len())}
			}
		case 4:
			res = []V{errNil(tr.Close())}
		case 5:
			res = []V{U64(tr.RemainingBytes())}
		case 6:
			switch AsInt(a[1]) {
			case 0:
				res = []V{Bo(tr.IsOpen())}
			case 1:
				res = []V{errNil(tr.Open())}
			default:
				res = []V{errNil(tr.Flush(context.Background()))}
			}
		default:
			panic("c19: bad op")
		}
		res = append(res, I(buf.Len()), U64(tr.RemainingBytes()))
		outs = append(outs, Ls(res...))
	}
	return Ls(Bo(ptrSame), Ls(outs...), Bs(buf.Bytes()), Bs(tr.(interface{ Bytes() []byte }).Bytes()))
}

func c19Default(cls int, n int64) V {
	var rw io.ReadWriter
	var under *c19RW
	var ubuf *bytes.Buffer
	switch cls {
	case 0:
		o := &c19Readable{n: int(n)}
		rw, under = o, &o.c19RW
	case 1:
		o := &c19Len{n: int(n)}
		rw, under = o, &o.c19RW
	case 2:
		o := &c19RW{}
		rw, under = o, o
	case 7:
		o := &c19Dropping{n: int(n)}
		rw, under = o, &o.c19RW
		tr := apache.NewDefaultTransport(rw)
		rem := tr.RemainingBytes() // one look at the length: n when positive, else unknown
		o.calls = 0
		rem2 := tr.RemainingBytes()
		isBT := reflect.TypeOf(tr).String() == "*apache.bufferTransport"
		return Ls(U64(rem), Bo(isBT), Bo(rem == rem2), I(1))
	case 5:
		o := &c19FullReadable{n: int(n)}
		rw, under = o, &o.c19RW
	case 6:
		o := &c19Full{}
		rw, under = o, &o.c19RW
	case 3:
		ubuf = bytes.NewBuffer(make([]byte, int(n)))
		rw = ubuf
	case 4:
		ubuf = bytes.NewBuffer(make([]byte, int(n)))
		rw = apache.NewBufferTransport(ubuf)
	default:
		panic("c19: bad class")
	}
	tr := apache.NewDefaultTransport(rw)
	rem := tr.RemainingBytes()
	isBT := reflect.TypeOf(tr).String() == "*apache.bufferTransport"
	// Read/Write go to the wrapped object unchanged
	fw := true
	if under != nil {
		p := make([]byte, 4)
		rn, rerr := tr.Read(p)
		wn, werr := tr.Write([]byte{1, 2, 3})
		fw = rn == 4 && rerr == nil && bytes.Equal(p, []byte{0x5a, 0x5a, 0x5a, 0x5a}) && under.reads == 1 &&
			wn == 3 && werr == nil && len(under.wrote) == 1 && bytes.Equal(under.wrote[0], []byte{1, 2, 3})
	} else {
		before := ubuf.Len()
		wn, werr := tr.Write([]byte{1, 2, 3})
		fw = wn == 3 && werr == nil && ubuf.Len() == before+3 && bytes.HasSuffix(ubuf.Bytes(), []byte{1, 2, 3})
	}
	cl := tr.Close() == nil && tr.IsOpen() && tr.Open() == nil && tr.Flush(context.Background()) == nil
	// a transport stays the transport of ITS object: after Close (a no-op for the generic transport),
	// other transports are created over other objects and closed; the first handle must still report
	// its own object's figure
	if under != nil {
		for k := 0; k < 3; k++ {
			o2 := &c19Readable{n: int(n) + 11*(k+1)}
			t2 := apache.NewDefaultTransport(o2)
			if t2.RemainingBytes() != uint64(int(n)+11*(k+1)) && int(n)+11*(k+1) > 0 {
				cl = false
			}
			if tr.RemainingBytes() != rem {
				cl = false
			}
			if k%2 == 0 {
				t2.Close()
			}
			if tr.RemainingBytes() != rem {
				cl = false
			}
			tr.Close()
		}
	}
	return Ls(U64(rem), Bo(isBT), Bo(fw), Bo(cl))
}

func init() {
	register("C19", &Prop{
		Gen: func(g *Gen) {
			// ---- 1. histories: bounded-exhaustive over a small alphabet, both handles ----
			var alpha []V
			for h := 0; h < 2; h++ {
				alpha = append(alpha,
					Ls(I(0), I(h), Str("ab")), Ls(I(0), I(h), Str("")),
					Ls(I(1), I(h), I(0)), Ls(I(1), I(h), I(1)), Ls(I(1), I(h), I(5)),
					Ls(I(2), I(h)), Ls(I(3), I(h)))
			}
			alpha = append(alpha, Ls(I(4)), Ls(I(5)))
			maxLen := g.Scale(3, 4)
			var rec func(prefix []V, depth int)
			rec = func(prefix []V, depth int) {
				if len(prefix) > 0 {
					h := append([]V(nil), prefix...)
					g.Add("hist-exhaustive", Ls(I(0), Str(""), Ls(h...)))
					if len(prefix) < maxLen {
						g.Add("hist-exhaustive-init", Ls(I(0), Str("xyz"), Ls(h...)))
					}
				}
				if depth == maxLen {
					return
				}
				for _, a := range alpha {
					rec(append(prefix, a), depth+1)
				}
			}
			rec(nil, 0)
			// ---- 1b. large writes (>= 4096, around power-of-two sizes) into empty and non-empty buffers
			//          through either handle, read back through the other ----
			for _, sz := range []int{4095, 4096, 4097, 8192, 10000} {
				for _, h := range []int{0, 1} {
					for _, pre := range []string{"", "ab"} {
						d := make([]byte, sz)
						g.R.Read(d)
						g.Add("hist-large-write", Ls(I(0), Str(pre), Ls(
							Ls(I(0), I(h), Bs(d)), Ls(I(3), I(1-h)), Ls(I(1), I(1-h), I(sz+8)), Ls(I(3), I(h)),
							Ls(I(0), I(1-h), Bs(d[:7])), Ls(I(1), I(h), I(64)))))
					}
				}
			}
			// ---- 1c. Close on a buffer that has grown large (capacity beyond 64 KiB .. 1 MiB): it must
			//          be emptied like any other ----
			for _, sz := range []int{65536, 65537, 70000, 200000} {
				for _, h := range []int{0, 1} {
					d := make([]byte, sz)
					g.R.Read(d)
					g.Add("hist-large-close", Ls(I(0), Str(""), Ls(
						Ls(I(0), I(h), Bs(d)), Ls(I(3), I(1-h)), Ls(I(4)), Ls(I(3), I(h)), Ls(I(3), I(1-h)),
						Ls(I(1), I(h), I(16)), Ls(I(0), I(1-h), Bs(d[:9])), Ls(I(1), I(h), I(64)), Ls(I(3), I(h)))))
				}
			}
			// ---- 2. random histories ----
			n := g.Scale(1500, 60000)
			for c := 0; c < n; c++ {
				init := make([]byte, []int{0, 0, 1, 7, 64, 300}[g.R.Intn(6)])
				g.R.Read(init)
				ln := 1 + g.R.Intn(40)
				var hist []V
				for i := 0; i < ln; i++ {
					h := g.R.Intn(2)
					switch g.R.Intn(12) {
					case 0, 1, 2:
						d := make([]byte, []int{0, 1, 2, 3, 8, 17, 40, 40, 300}[g.R.Intn(9)])
						g.R.Read(d)
						hist = append(hist, Ls(I(0), I(h), Bs(d)))
					case 3, 4, 5:
						hist = append(hist, Ls(I(1), I(h), I([]int{0, 1, 2, 3, 8, 17, 64, 512}[g.R.Intn(8)])))
					case 6:
						hist = append(hist, Ls(I(2), I(h)))
					case 7, 8:
						hist = append(hist, Ls(I(3), I(h)))
					case 9:
						if g.R.Intn(3) == 0 {
							hist = append(hist, Ls(I(4)))
						} else {
							hist = append(hist, Ls(I(6), I(g.R.Intn(3))))
						}
					default:
						hist = append(hist, Ls(I(5)))
					}
				}
				g.Add("hist-random", Ls(I(0), Bs(init), Ls(hist...)))
			}
			// ---- 3. default transport ----
			ns := []int64{0, 1, -1, 2, 7, 255, 256, 4096, math.MaxInt32, math.MaxInt32 + 1, math.MinInt32, 1 << 32, 1 << 62, math.MaxInt64, math.MaxInt64 - 1, math.MinInt64, math.MinInt64 + 1, -2}
			g.Add("reg-concurrent", Ls(I(3), I(g.Scale(30000, 300000))))
			for _, cls := range []int{0, 1, 2, 5, 6, 7} {
				for _, v := range ns {
					g.Add("default", Ls(I(1), I(cls), I64(v)))
				}
				for i := 0; i < g.Scale(100, 5000); i++ {
					v := int64(g.R.Uint64()) >> uint(g.R.Intn(64))
					g.Add("default-rand", Ls(I(1), I(cls), I64(v)))
				}
			}
			for cls := 3; cls <= 4; cls++ {
				for _, v := range []int64{0, 1, 2, 7, 255, 4096, 70000} {
					g.Add("default-buffer", Ls(I(1), I(cls), I64(v)))
				}
			}
			// ---- 4. registry ----
			for slot := 0; slot < 3; slot++ {
				for arg := 0; arg < 4; arg++ {
					g.Add("reg-none", Ls(I(2), Ls(Ls(I(1), I(slot), I(arg)))))
					for fid := 0; fid < 8; fid++ {
						g.Add("reg-call", Ls(I(2), Ls(Ls(I(0), I(slot), I(fid)), Ls(I(1), I(slot), I(arg)))))
						g.Add("reg-unreg", Ls(I(2), Ls(Ls(I(0), I(slot), I(fid)), Ls(I(0), I(slot), I(-1)), Ls(I(1), I(slot), I(arg)))))
						g.Add("reg-other", Ls(I(2), Ls(Ls(I(0), I((slot+1)%3), I(fid)), Ls(I(0), I((slot+2)%3), I(fid)), Ls(I(1), I(slot), I(arg)))))
						g.Add("reg-replace", Ls(I(2), Ls(Ls(I(0), I(slot), I(fid)), Ls(I(0), I(slot), I((fid+1)%8)), Ls(I(1), I(slot), I(arg)), Ls(I(1), I(slot), I((arg+1)%4)))))
					}
				}
			}
			for c := 0; c < g.Scale(1200, 40000); c++ {
				ln := 1 + g.R.Intn(12)
				var steps []V
				for i := 0; i < ln; i++ {
					if g.R.Intn(2) == 0 {
						steps = append(steps, Ls(I(0), I(g.R.Intn(3)), I(g.R.Intn(10)-1)))
					} else {
						steps = append(steps, Ls(I(1), I(g.R.Intn(3)), I(g.R.Intn(4))))
					}
				}
				g.Add("reg-random", Ls(I(2), Ls(steps...)))
			}
		},
		Run: func(in V) V {
			a := AsList(in)
			switch AsInt(a[0]) {
			case 0:
				return c19History(AsBytes(a[1]), AsList(a[2]))
			case 1:
				return c19Default(AsInt(a[1]), AsI64(a[2]))
			case 2:
				// the registry is process-global: every case starts and ends with nil slots
				c19ResetRegistry()
				defer c19ResetRegistry()
				var outs []V
				for _, st := range AsList(a[1]) {
					s := AsList(st)
					if AsInt(s[0]) == 0 {
						c19Register(AsInt(s[1]), AsInt(s[2]))
						outs = append(outs, Ls())
					} else {
						outs = append(outs, c19CallStep(AsInt(s[1]), AsInt(s[2])))
					}
				}
				return Ls(outs...)
			case 3:
				c19ResetRegistry()
				defer c19ResetRegistry()
				return Ls(Bo(c19ConcurrentRegister(AsInt(a[1]))))
			}
			panic("c19: bad case")
		},
	})
}

// the three hooks are three independent registrations: registering DIFFERENT hooks from different
// goroutines at the same time is legal, and each registration that has returned must be in effect
func c19ConcurrentRegister(rounds int) bool {
	ok := true
	for r := 0; r < rounds && ok; r++ {
		c19ResetRegistry()
		var wg sync.WaitGroup
		start := make(chan struct{})
		for slot := 0; slot < 3; slot++ {
			wg.Add(1)
			go func(slot int) {
				defer wg.Done()
				<-start
				c19Register(slot, (r+slot)%8)
			}(slot)
		}
		close(start)
		wg.Wait()
		for slot := 0; slot < 3; slot++ {
			c19Last = c19Call{}
			err, _ := c19Dispatch(slot, c19Args[r%4])
			if !c19Last.called || c19Last.fid != (r+slot)%8 || err != c19Last.ret {
				ok = false
			}
		}
	}
	return ok
}
