package main

import (
	"bytes"
	"fmt"
	"sort"
	"strings"

	"github.com/cloudwego/gopkg/protocol/thrift"
	"github.com/cloudwego/gopkg/protocol/thrift/base"
)

// C11 — shipped FastCodec structs: exact length, round trip, unknown fields skipped.
// Format: see coq/Corr/C11.v.

type c11Codec interface {
	BLength() int
	FastWrite([]byte) int
	FastRead([]byte) (int, error)
}

// ---- structs <-> V ----

func c11Extra(v V) map[string]string {
	if _, ok := v.(VI); ok {
		return nil
	}
	m := map[string]string{}
	for _, e := range AsList(v) {
		a := AsList(e)
		k := string(AsBytes(a[0]))
		if _, dup := m[k]; dup {
			panic("c11: duplicate key in a struct value")
		}
		m[k] = string(AsBytes(a[1]))
	}
	return m
}

func c11KVs(v V) []c15KV {
	if _, ok := v.(VI); ok {
		return nil
	}
	var out []c15KV
	for _, e := range AsList(v) {
		a := AsList(e)
		out = append(out, c15KV{AsBytes(a[0]), AsBytes(a[1])})
	}
	return out
}

// c11Make builds the Go value; nil pointer for the integer 0.
func c11Make(sk int, v V) c11Codec {
	_, isNil := v.(VI)
	switch sk {
	case 0:
		if isNil {
			return (*base.Base)(nil)
		}
		a := AsList(v)
		return &base.Base{LogID: string(AsBytes(a[0])), Caller: string(AsBytes(a[1])), Addr: string(AsBytes(a[2])), Extra: c11Extra(a[3])}
	case 1:
		if isNil {
			return (*base.BaseResp)(nil)
		}
		a := AsList(v)
		return &base.BaseResp{StatusMessage: string(AsBytes(a[0])), StatusCode: int32(AsInt(a[1])), Extra: c11Extra(a[2])}
	default:
		if isNil {
			return (*thrift.ApplicationException)(nil)
		}
		a := AsList(v)
		return thrift.NewApplicationException(int32(AsInt(a[1])), string(AsBytes(a[0])))
	}
}

func c11Fresh(sk int) c11Codec {
	switch sk {
	case 0:
		return &base.Base{}
	case 1:
		return &base.BaseResp{}
	default:
		return thrift.NewApplicationException(0, "")
	}
}

func c11ExtraV(m map[string]string) V {
	if m == nil {
		return I(0)
	}
	keys := make([]string, 0, len(m))
	for k := range m {
		keys = append(keys, k)
	}
	sort.Strings(keys)
	var es []V
	for _, k := range keys {
		es = append(es, Ls(Str(k), Str(m[k])))
	}
	return Ls(es...)
}

func c11Show(c c11Codec) V {
	switch p := c.(type) {
	case *base.Base:
		if p == nil {
			return I(0)
		}
		return Ls(Str(p.LogID), Str(p.Caller), Str(p.Addr), c11ExtraV(p.Extra))
	case *base.BaseResp:
		if p == nil {
			return I(0)
		}
		return Ls(Str(p.StatusMessage), I(int(p.StatusCode)), c11ExtraV(p.Extra))
	case *thrift.ApplicationException:
		if p == nil {
			return I(0)
		}
		return Ls(Str(p.Msg()), I(int(p.TypeID())))
	}
	panic("c11Show")
}

// error -> label + code of the underlying predeclared error (Model/Binary.v numbering)
func c11ErrCode(sk int, err error) int {
	msg := err.Error()
	label := 0
	if sk != 2 {
		switch {
		case strings.Contains(msg, " read field begin error: "):
			label = 100
		case strings.Contains(msg, " skip field "):
			label = 300
		case strings.Contains(msg, " read field "):
			label = 200
		default:
			label = 900
		}
	}
	code := 999
	switch {
	case strings.HasSuffix(msg, "ReadFieldBegin: buf too small"):
		code = 3
	case strings.HasSuffix(msg, "ReadMapBegin: buf too small"):
		code = 4
	case strings.HasSuffix(msg, "ReadString: buf too small"):
		code = 7
	case strings.HasSuffix(msg, "ReadI32: len(buf) < 4"):
		code = 12
	case strings.HasSuffix(msg, "negative size"):
		code = 17
	case strings.HasSuffix(msg, "buffer too short"):
		code = 16
	case strings.HasSuffix(msg, "depth limit exceeded"):
		code = 15
	case strings.Contains(msg, "unknown data type"):
		code = 18
	}
	return label + code
}

// c11Read runs FastRead under recover: (0 n struct) | (1 code) | (2)
func c11Read(sk int, recv c11Codec, b []byte) (out V) {
	defer func() {
		if r := recover(); r != nil {
			out = Ls(I(2))
		}
	}()
	// the receive buffer is the caller's and is reused for the next frame as soon as FastRead returns:
	// what was decoded must not change with it
	b = append([]byte(nil), b...)
	n, err := recv.FastRead(b)
	for i := range b {
		b[i] = 0xEE
	}
	if err != nil {
		return Ls(I(1), I(c11ErrCode(sk, err)))
	}
	return Ls(I(0), I(n), c11Show(recv))
}

// ---- the harness's own encoder of fields and value trees ----

func c11U16(out []byte, x int) []byte { return append(out, byte(x>>8), byte(x)) }
func c11U32(out []byte, x uint32) []byte {
	return append(out, byte(x>>24), byte(x>>16), byte(x>>8), byte(x))
}
func c11U64(out []byte, x uint64) []byte {
	return append(c11U32(out, uint32(x>>32)), byte(x>>24), byte(x>>16), byte(x>>8), byte(x))
}
func c11Str(out []byte, s []byte) []byte { return append(c11U32(out, uint32(len(s))), s...) }

func c11EncTree(out []byte, v V) []byte {
	a := AsList(v)
	switch AsInt(a[0]) {
	case 2, 3:
		return append(out, byte(AsInt(a[1])))
	case 4, 10:
		return c11U64(out, AsU64(a[1]))
	case 6:
		return c11U16(out, AsInt(a[1]))
	case 8:
		return c11U32(out, uint32(AsInt(a[1])))
	case 11:
		return c11Str(out, AsBytes(a[1]))
	case 12:
		for _, f := range a[1:] {
			fa := AsList(f)
			out = append(out, byte(AsInt(fa[0])))
			out = c11U16(out, AsInt(fa[1]))
			out = c11EncTree(out, fa[2])
		}
		return append(out, 0)
	case 13:
		out = append(out, byte(AsInt(a[1])), byte(AsInt(a[2])))
		out = c11U32(out, uint32(len(a)-3))
		for _, kv := range a[3:] {
			p := AsList(kv)
			out = c11EncTree(out, p[0])
			out = c11EncTree(out, p[1])
		}
		return out
	case 14, 15:
		out = append(out, byte(AsInt(a[1])))
		out = c11U32(out, uint32(len(a)-2))
		for _, e := range a[2:] {
			out = c11EncTree(out, e)
		}
		return out
	}
	panic("c11EncTree: bad tree " + Show(v))
}

func c11EncItems(items []V) []byte {
	var out []byte
	for _, it := range items {
		a := AsList(it)
		if AsInt(a[0]) == 0 { // known-typed field
			id := AsInt(a[1])
			fv := AsList(a[2])
			ty := AsInt(fv[0])
			out = append(out, byte(ty))
			out = c11U16(out, id)
			switch ty {
			case 11:
				out = c11Str(out, AsBytes(fv[1]))
			case 8:
				out = c11U32(out, uint32(int32(AsInt(fv[1]))))
			case 13:
				es := AsList(fv[1])
				out = append(out, 11, 11)
				out = c11U32(out, uint32(len(es)))
				for _, e := range es {
					p := AsList(e)
					out = c11Str(out, AsBytes(p[0]))
					out = c11Str(out, AsBytes(p[1]))
				}
			default:
				panic("c11EncItems: field type")
			}
		} else {
			out = append(out, byte(AsInt(a[1])))
			out = c11U16(out, AsInt(a[2]))
			out = c11EncTree(out, a[3])
		}
	}
	return append(out, 0)
}

// c11HintOK walks the fields the way FastRead does and reports whether every known map field it
// would reach declares at most 65536 entries: make(map[string]string, size) allocates for the
// declared size, so a hostile size field exhausts memory (the allocation clause of C03; sizes
// are capped here as that property's quantifier prescribes).
func c11HintOK(sk int, b []byte) bool {
	mapID := map[int]int{0: 6, 1: 3, 2: -1}[sk]
	off := 0
	for off < len(b) {
		t := b[off]
		if t == 0 || off+3 > len(b) {
			return true
		}
		id := int(b[off+1])<<8 | int(b[off+2])
		off += 3
		known := false
		for j, kid := range c11KnownIDs[sk] {
			if kid == id && c11KnownTy[sk][j] == int(t) {
				known = true
			}
		}
		switch {
		case known && t == 13 && id == mapID:
			if off+6 > len(b) {
				return true
			}
			sz := uint32(b[off+2])<<24 | uint32(b[off+3])<<16 | uint32(b[off+4])<<8 | uint32(b[off+5])
			if sz > 65536 {
				return false
			}
			off += 6
			for i := uint32(0); i < 2*sz; i++ {
				if off+4 > len(b) {
					return true
				}
				n := int(int32(uint32(b[off])<<24 | uint32(b[off+1])<<16 | uint32(b[off+2])<<8 | uint32(b[off+3])))
				if n < 0 || off+4+n > len(b) {
					return true
				}
				off += 4 + n
			}
		default:
			n, err := thrift.Binary.Skip(b[off:], thrift.TType(t))
			if err != nil || n < 0 || off+n > len(b) {
				return true
			}
			off += n
		}
	}
	return true
}

// ---- Run ----

func c11Run(in V) V {
	a := AsList(in)
	kind, sk := AsInt(a[0]), AsInt(a[1])
	switch kind {
	case 0:
		sv, rest := a[2], AsBytes(a[3])
		mapID := 6
		if sk == 1 {
			mapID = 3
		}
		var kvs []c15KV
		mapNil := true
		if l, ok := sv.(VL); ok && sk != 2 {
			ev := l[len(l)-1]
			kvs = c11KVs(ev)
			_, mapNil = ev.(VI)
		}
		order := func(bs []byte) V {
			if sk == 2 {
				return Ls()
			}
			if _, isNil := sv.(VI); isNil {
				return Ls()
			}
			return c15Order(bs, mapID, kvs, mapNil)
		}
		p := c11Make(sk, sv)
		bl := -1
		func() {
			defer func() { recover() }()
			bl = p.BLength()
		}()
		var wbytes, mbytes []byte
		w := func() (out V) {
			defer func() {
				if r := recover(); r != nil {
					out = Ls(I(-1))
				}
			}()
			if bl < 0 {
				panic("no length")
			}
			buf := c15Filled(bl, 0xEE)
			n := p.FastWrite(buf)
			wbytes = buf
			return Ls(I(n), Bs(buf), order(buf))
		}()
		m := func() (out V) {
			defer func() {
				if r := recover(); r != nil {
					out = Ls(I(-1))
				}
			}()
			bs := thrift.FastMarshal(p.(thrift.FastCodec))
			mbytes = bs
			return Ls(Bs(bs), order(bs))
		}()
		rvv, uvv := Ls(I(3)), Ls(I(3))
		if wbytes != nil {
			rvv = c11Read(sk, c11Fresh(sk), append(append([]byte(nil), wbytes...), rest...))
		}
		if mbytes != nil {
			uvv = func() (out V) {
				defer func() {
					if r := recover(); r != nil {
						out = Ls(I(2))
					}
				}()
				fresh := c11Fresh(sk)
				if err := thrift.FastUnmarshal(mbytes, fresh.(thrift.FastCodec)); err != nil {
					return Ls(I(1), I(c11ErrCode(sk, err)))
				}
				return Ls(I(0), I(0), c11Show(fresh))
			}()
		}
		return Ls(I(bl), w, m, rvv, uvv)
	case 1:
		recv := c11Make(sk, a[2])
		b := append(c11EncItems(AsList(a[3])), AsBytes(a[4])...)
		if !c11HintOK(sk, b) {
			return Ls(Bs(b), Ls(I(3)))
		}
		return Ls(Bs(b), c11Read(sk, recv, b))
	case 2:
		recv := c11Make(sk, a[2])
		if !c11HintOK(sk, AsBytes(a[3])) {
			return Ls(Ls(I(3)))
		}
		return Ls(c11Read(sk, recv, AsBytes(a[3])))
	}
	panic("c11: bad kind")
}

// ---- generators ----

var c11Types = []int{2, 3, 4, 6, 8, 10, 11, 12, 13, 14, 15}

type c11Gen struct {
	g    *Gen
	seed int
}

func (c *c11Gen) str(n int) V {
	if n <= 40 {
		b := make([]byte, n)
		for i := range b {
			b[i] = byte(c.g.R.Intn(256))
		}
		return Bs(b)
	}
	c.seed = (c.seed + 41) % 251
	return PatV(c.seed, n)
}

func (c *c11Gen) slen() int {
	switch c.g.R.Intn(12) {
	case 0:
		return 0
	case 1:
		return 1
	case 2:
		return 41 + c.g.R.Intn(300)
	default:
		return c.g.R.Intn(12)
	}
}

// tree of Thrift type t, containers nested at most depth levels
func (c *c11Gen) tree(t, depth int) V {
	r := c.g.R
	switch t {
	case 2:
		return Ls(I(2), I([]int{0, 1, 2, 255}[r.Intn(4)]))
	case 3:
		return Ls(I(3), I(r.Intn(256)))
	case 4:
		return Ls(I(4), U64(r.Uint64()))
	case 6:
		return Ls(I(6), I(r.Intn(65536)))
	case 8:
		return Ls(I(8), I64(int64(r.Uint32())))
	case 10:
		return Ls(I(10), U64(r.Uint64()))
	case 11:
		return Ls(I(11), c.str(c.slen()))
	}
	elemType := func() int {
		if depth <= 1 { // members must be scalars or strings
			return c11Types[r.Intn(7)]
		}
		return c11Types[r.Intn(len(c11Types))]
	}
	anyByte := func() int { return []int{0, 1, 5, 7, 9, 16, 0x7f, 0x80, 0x8b, 0xff, 11, 12}[r.Intn(12)] }
	n := r.Intn(4)
	switch t {
	case 12:
		items := []V{I(12)}
		for i := 0; i < n; i++ {
			ft := elemType()
			items = append(items, Ls(I(ft), I(r.Intn(65536)), c.tree(ft, depth-1)))
		}
		return Ls(items...)
	case 13:
		if n == 0 {
			return Ls(I(13), I(anyByte()), I(anyByte()))
		}
		kt, vt := elemType(), elemType()
		items := []V{I(13), I(kt), I(vt)}
		for i := 0; i < n; i++ {
			items = append(items, Ls(c.tree(kt, depth-1), c.tree(vt, depth-1)))
		}
		return Ls(items...)
	default:
		if n == 0 {
			return Ls(I(t), I(anyByte()))
		}
		et := elemType()
		items := []V{I(t), I(et)}
		for i := 0; i < n; i++ {
			items = append(items, c.tree(et, depth-1))
		}
		return Ls(items...)
	}
}

// a chain of containers nested d deep around an i32
func c11Deep(d int, kind int) V {
	v := Ls(I(8), I(7))
	t := 8
	for i := 0; i < d; i++ {
		switch (kind + i) % 4 {
		case 0:
			v, t = Ls(I(15), I(t), v), 15
		case 1:
			v, t = Ls(I(12), Ls(I(t), I(i+1), v)), 12
		case 2:
			v, t = Ls(I(13), I(8), I(t), Ls(Ls(I(8), I(1)), v)), 13
		default:
			v, t = Ls(I(14), I(t), v), 14
		}
	}
	return v
}

func c11TreeType(v V) int { return AsInt(AsList(v)[0]) }

func (c *c11Gen) entries(n int, dupKeys bool) V {
	var es []V
	used := map[string]bool{}
	for i := 0; i < n; i++ {
		var k V
		for {
			k = c.str(c.slen())
			if dupKeys || !used[string(AsBytes(k))] {
				break
			}
		}
		used[string(AsBytes(k))] = true
		es = append(es, Ls(k, c.str(c.slen())))
	}
	if dupKeys && n >= 2 { // a wire map may repeat a key: the last entry wins
		es[n-1] = Ls(AsList(es[0])[0], c.str(3))
	}
	return Ls(es...)
}

func (c *c11Gen) extra() V {
	switch c.g.R.Intn(6) {
	case 0:
		return I(0)
	case 1:
		return Ls()
	case 2:
		return c.entries(1, false)
	case 3:
		return c.entries(8+c.g.R.Intn(30), false)
	default:
		return c.entries(1+c.g.R.Intn(5), false)
	}
}

func (c *c11Gen) i32() int {
	return []int{0, 1, -1, 2147483647, -2147483648, 0x01020304, -0x01020304, int(int32(c.g.R.Uint32()))}[c.g.R.Intn(8)]
}

func (c *c11Gen) structV(sk int) V {
	switch sk {
	case 0:
		return Ls(c.str(c.slen()), c.str(c.slen()), c.str(c.slen()), c.extra())
	case 1:
		return Ls(c.str(c.slen()), I(c.i32()), c.extra())
	default:
		return Ls(c.str(c.slen()), I(c.i32()))
	}
}

// the known fields of a struct as items
func (c *c11Gen) known(sk int, dupKeys bool) []V {
	ne := c.g.R.Intn(4)
	switch sk {
	case 0:
		return []V{
			Ls(I(0), I(1), Ls(I(11), c.str(c.slen()))),
			Ls(I(0), I(2), Ls(I(11), c.str(c.slen()))),
			Ls(I(0), I(3), Ls(I(11), c.str(c.slen()))),
			Ls(I(0), I(6), Ls(I(13), c.entries(ne, dupKeys))),
		}
	case 1:
		return []V{
			Ls(I(0), I(1), Ls(I(11), c.str(c.slen()))),
			Ls(I(0), I(2), Ls(I(8), I(c.i32()))),
			Ls(I(0), I(3), Ls(I(13), c.entries(ne, dupKeys))),
		}
	default:
		return []V{
			Ls(I(0), I(1), Ls(I(11), c.str(c.slen()))),
			Ls(I(0), I(2), Ls(I(8), I(c.i32()))),
		}
	}
}

var c11KnownIDs = [][]int{{1, 2, 3, 6}, {1, 2, 3}, {1, 2}}
var c11KnownTy = [][]int{{11, 11, 11, 13}, {11, 8, 13}, {11, 8}}

// an unknown field: any type, id possibly colliding with a known id (then with another type)
func (c *c11Gen) unknown(sk int, t int) V {
	r := c.g.R
	var id int
	switch r.Intn(4) {
	case 0, 1: // collide with a known id
		for tries := 0; ; tries++ {
			j := r.Intn(len(c11KnownIDs[sk]))
			id = c11KnownIDs[sk][j]
			if c11KnownTy[sk][j] != t || tries > 20 {
				if c11KnownTy[sk][j] == t {
					id = 77
				}
				break
			}
		}
	case 2:
		id = []int{0, 4, 5, 7, 255, 256, 257, 0x10b, 0x7fff, 0x8000, 0xff01, 0xffff, 0xfffe}[r.Intn(13)]
	default:
		id = r.Intn(65536)
	}
	for j, kid := range c11KnownIDs[sk] {
		if kid == id && c11KnownTy[sk][j] == t {
			id = 1000 + id
		}
	}
	return Ls(I(1), I(t), I(id), c.tree(t, 1+r.Intn(4)))
}

func c11Perms(n int) [][]int {
	var out [][]int
	var rec func(cur []int, used int)
	rec = func(cur []int, used int) {
		if len(cur) == n {
			out = append(out, append([]int(nil), cur...))
			return
		}
		for i := 0; i < n; i++ {
			if used&(1<<i) == 0 {
				rec(append(cur, i), used|1<<i)
			}
		}
	}
	rec(nil, 0)
	return out
}

func init() {
	register("C11", &Prop{
		Gen: func(g *Gen) {
			c := &c11Gen{g: g}
			r := g.R
			rests := []V{Bs(nil), Bs([]byte{0}), Bs([]byte{0x0b, 0x00, 0x01, 0xff}), Bs([]byte{0xff, 0xfe, 0xfd, 0xfc, 0xfb, 0xfa, 0xf9, 0xf8, 0xf7}), Bs([]byte{0x0d})}
			rest := func() V { return rests[r.Intn(len(rests))] }
			recvOf := func(sk int) V {
				switch r.Intn(8) {
				case 0:
					return I(0) // nil receiver
				case 1, 2, 3:
					return c.structV(sk) // prior value: must stay where no field arrives
				default:
					switch sk {
					case 0:
						return Ls(Bs(nil), Bs(nil), Bs(nil), I(0))
					case 1:
						return Ls(Bs(nil), I(0), I(0))
					default:
						return Ls(Bs(nil), I(0))
					}
				}
			}
			nonNil := func(sk int) V {
				for {
					v := recvOf(sk)
					if _, isNil := v.(VI); !isNil {
						return v
					}
				}
			}

			// ---- write side ----
			for sk := 0; sk <= 2; sk++ {
				g.Add("w-nil", Ls(I(0), I(sk), I(0), rest()))
				// boundary values field by field
				if sk != 1 {
					big := []V{Ls(c.str(66000), c.str(1), c.str(0), I(0)), nil, Ls(c.str(66000), I(3))}[sk]
					g.Add("w-len", Ls(I(0), I(sk), big, rest()))
				}
				for _, n := range []int{0, 1, 2, 127, 128, 255, 256, 257, 4095, 4096, 4097} {
					switch sk {
					case 0:
						g.Add("w-len", Ls(I(0), I(0), Ls(c.str(n), c.str(1), c.str(0), I(0)), rest()))
						g.Add("w-len", Ls(I(0), I(0), Ls(c.str(0), c.str(n), c.str(2), Ls()), rest()))
						g.Add("w-len", Ls(I(0), I(0), Ls(c.str(3), c.str(0), c.str(n), Ls(Ls(c.str(n), c.str(0)))), rest()))
						g.Add("w-len", Ls(I(0), I(0), Ls(c.str(0), c.str(0), c.str(0), Ls(Ls(c.str(0), c.str(n)))), rest()))
					case 1:
						g.Add("w-len", Ls(I(0), I(1), Ls(c.str(n), I(c.i32()), Ls(Ls(c.str(1), c.str(n)))), rest()))
					default:
						g.Add("w-len", Ls(I(0), I(2), Ls(c.str(n), I(c.i32())), rest()))
					}
				}
				for _, v := range []int{0, 1, -1, 2147483647, -2147483648, 255, 256, 65535, 65536, 0x7fffff, -129} {
					if sk == 1 {
						g.Add("w-i32", Ls(I(0), I(1), Ls(c.str(2), I(v), I(0)), rest()))
					}
					if sk == 2 {
						g.Add("w-i32", Ls(I(0), I(2), Ls(c.str(2), I(v)), rest()))
					}
				}
				if sk < 2 {
					for ne := 0; ne <= 12; ne++ {
						e := c.entries(ne, false)
						if sk == 0 {
							g.Add("w-map", Ls(I(0), I(0), Ls(c.str(2), c.str(2), c.str(2), e), rest()))
						} else {
							g.Add("w-map", Ls(I(0), I(1), Ls(c.str(2), I(5), e), rest()))
						}
					}
				}
				n := g.Scale(120, 6000)
				for i := 0; i < n; i++ {
					g.Add("w-rand", Ls(I(0), I(sk), c.structV(sk), rest()))
				}
			}

			// ---- structured reads ----
			for sk := 0; sk <= 2; sk++ {
				nk := len(c11KnownIDs[sk])
				perms := c11Perms(nk)
				reps := map[int]int{0: 1, 1: 3, 2: 8}[sk]
				if g.Thor {
					reps *= 20
				}
				// every permutation of the known fields x 0..4 interleaved unknown fields
				for _, pm := range perms {
					for nu := 0; nu <= 4; nu++ {
						for rep := 0; rep < reps; rep++ {
							kn := c.known(sk, r.Intn(5) == 0)
							var items []V
							for _, j := range pm {
								items = append(items, kn[j])
							}
							for u := 0; u < nu; u++ {
								it := c.unknown(sk, c11Types[r.Intn(len(c11Types))])
								pos := r.Intn(len(items) + 1)
								items = append(items[:pos], append([]V{it}, items[pos:]...)...)
							}
							g.Add(fmt.Sprintf("r-perm-u%d", nu), Ls(I(1), I(sk), recvOf(sk), Ls(items...), rest()))
						}
					}
				}
				// every Thrift type as the unknown field, at every position, with every colliding id
				for _, t := range c11Types {
					for j, kid := range c11KnownIDs[sk] {
						if c11KnownTy[sk][j] == t {
							continue
						}
						kn := c.known(sk, false)
						pos := r.Intn(nk + 1)
						it := Ls(I(1), I(t), I(kid), c.tree(t, 1+r.Intn(3)))
						items := append(append(append([]V{}, kn[:pos]...), it), kn[pos:]...)
						g.Add("r-collide", Ls(I(1), I(sk), nonNil(sk), Ls(items...), rest()))
					}
				}
				// subsets, repeats (last occurrence wins), only unknown fields, nothing at all
				nsub := g.Scale(60, 3000)
				for i := 0; i < nsub; i++ {
					var items []V
					cnt := r.Intn(7)
					for k := 0; k < cnt; k++ {
						if r.Intn(3) == 0 {
							items = append(items, c.unknown(sk, c11Types[r.Intn(len(c11Types))]))
						} else {
							kn := c.known(sk, r.Intn(4) == 0)
							items = append(items, kn[r.Intn(nk)])
						}
					}
					g.Add("r-subset", Ls(I(1), I(sk), recvOf(sk), Ls(items...), rest()))
				}
				// nesting depth around the recursion limit (heights 62..66) and big unknown values
				for _, d := range []int{1, 2, 31, 62, 63, 64, 65, 66} {
					for k := 0; k < 4; k++ {
						tr := c11Deep(d, k)
						kn := c.known(sk, false)
						items := append([]V{kn[0], Ls(I(1), I(c11TreeType(tr)), I(9), tr)}, kn[1:]...)
						g.Add("r-deep", Ls(I(1), I(sk), nonNil(sk), Ls(items...), rest()))
					}
				}
				// WIDE unknown containers (the nesting budget is per level, not per element): lists and sets of
				// 63..200 structs / lists / maps, maps with that many container values
				for _, n := range []int{63, 64, 65, 100, 200} {
					for k, et := range []int{12, 15, 13, 14} {
						var elem V
						switch et {
						case 12:
							elem = Ls(I(12), Ls(I(3), I(1), Ls(I(3), I(7))))
						case 13:
							elem = Ls(I(13), I(8), I(11), Ls(Ls(I(8), I(1)), Ls(I(11), c.str(2))))
						default:
							elem = Ls(I(et), I(6), Ls(I(6), I(9)))
						}
						wide := []V{I(15 - k%2), I(et)}
						for i := 0; i < n; i++ {
							wide = append(wide, elem)
						}
						kn := c.known(sk, false)
						items := append([]V{kn[0], Ls(I(1), I(15-k%2), I(40+k), Ls(wide...))}, kn[1:]...)
						g.Add("r-wide", Ls(I(1), I(sk), nonNil(sk), Ls(items...), rest()))
					}
				}
				// type bytes that are no Thrift type (incl. >= 0x80: sign-extended in the switch key),
				// negative ids, STOP-typed "fields" cannot be expressed as items: see the raw stream
				for _, t := range []int{1, 5, 7, 9, 16, 0x7f, 0x80, 0x8b, 0x8d, 0xff} {
					kn := c.known(sk, false)
					items := append([]V{kn[0], Ls(I(1), I(t), I(1), Ls(I(3), I(1)))}, kn[1:]...)
					g.Add("r-badtype", Ls(I(1), I(sk), nonNil(sk), Ls(items...), rest()))
				}
			}

			// ---- arbitrary / damaged bytes ----
			for sk := 0; sk <= 2; sk++ {
				nk := len(c11KnownIDs[sk])
				mk := func() []byte {
					kn := c.known(sk, false)
					var items []V
					for _, j := range r.Perm(nk) {
						items = append(items, kn[j])
						if r.Intn(2) == 0 {
							items = append(items, c.unknown(sk, c11Types[r.Intn(len(c11Types))]))
						}
					}
					return c11EncItems(items)
				}
				add := func(class string, b []byte) {
					if !c11HintOK(sk, b) {
						return
					}
					rc := nonNil(sk)
					if r.Intn(10) == 0 {
						rc = I(0)
					}
					g.Add(class, Ls(I(2), I(sk), rc, Bs(b)))
				}
				// every prefix of a few encodings
				for k := 0; k < g.Scale(3, 40); k++ {
					b := mk()
					if len(b) > 160 {
						b = b[:160]
					}
					for n := 0; n <= len(b); n++ {
						add("m-prefix", b[:n])
					}
				}
				// mutations
				nm := g.Scale(250, 20000)
				for i := 0; i < nm; i++ {
					b := append([]byte(nil), mk()...)
					for k := 1 + r.Intn(3); k > 0 && len(b) > 0; k-- {
						p := r.Intn(len(b))
						switch r.Intn(5) {
						case 0:
							b[p] = byte(r.Intn(256))
						case 1:
							b[p] ^= 1 << uint(r.Intn(8))
						case 2:
							b[p] = []byte{0, 0x7f, 0x80, 0xff, 11, 12, 13, 14, 15}[r.Intn(9)]
						case 3:
							b = b[:p]
						default:
							b = append(b[:p], b[p+1:]...)
						}
					}
					add("m-mutate", b)
				}
				// hostile headers on the known fields (sizes are capped: the map size is an allocation hint)
				mapID := map[int]int{0: 6, 1: 3}[sk]
				for _, sz := range []uint32{0x80000000, 0xffffffff, 0x7fffffff, 0x10000, 5, 4, 3, 1, 0} {
					b := c11Str([]byte{11, 0, 1}[:3], nil)[:3]
					b = c11U32(b, sz)
					add("m-strsize", append(append([]byte(nil), b...), 'a', 'b', 'c', 'd', 0))
					add("m-strsize", append([]byte(nil), b...))
					if sk < 2 {
						for _, ms := range []uint32{0, 1, 2, 3, 1000, 65536} {
							mb := []byte{13, 0, byte(mapID), 11, 11}
							mb = c11U32(mb, ms)
							add("m-mapsize", append([]byte(nil), mb...))
							one := c11Str(c11Str(append([]byte(nil), mb...), []byte("k")), []byte("v"))
							add("m-mapsize", append(append([]byte(nil), one...), 0))
							two := c11Str(c11U32(append([]byte(nil), one...), sz)[:len(one)+4], nil)
							add("m-mapsize", two[:len(one)+4])
						}
					}
				}
				// field headers: every type byte with a known id, sign-extended ids, lone bytes
				for t := 0; t < 256; t++ {
					for _, id := range []int{1, 2} {
						b := c11U16([]byte{byte(t)}, id)
						b = append(b, 0, 0, 0, 1, 0x61, 0, 0, 0, 0)
						add("m-typebyte", b)
					}
				}
				for _, id := range []int{0xff01, 0xffff, 0x8001, 0x0101, 0x0100, 0x0001, 0x0600, 0x0006} {
					for _, t := range []int{11, 13, 8, 0x8b, 0x0b} {
						b := c11U16([]byte{byte(t)}, id)
						b = append(b, 0, 0, 0, 1, 0x61, 0)
						add("m-ids", b)
					}
				}
				for n := 0; n < g.Scale(60, 5000); n++ {
					b := make([]byte, r.Intn(24))
					for i := range b {
						b[i] = byte(r.Intn(256))
						if r.Intn(3) == 0 {
							b[i] = []byte{0, 1, 2, 3, 6, 8, 11, 12, 13, 14, 15}[r.Intn(11)]
						}
					}
					add("m-random", b)
				}
			}
			_ = bytes.Equal
		},
		Run: c11Run,
	})
}
