package main

import (
	"errors"

	"github.com/cloudwego/gopkg/bufiox"
)

// C05 — buffered writer flushes exactly what was written, once, in order.
// input   (kind cfg ops)
//           kind 0: DefaultWriter over a logging sink, cfg = (failk)            sink fails at its failk-th Write (0: never)
//           kind 1: BytesWriter,                        cfg = (nil len cap seed)  *target = Pat(seed,cap)[:len], or nil
//           op: (0 n) Malloc | (1 bytes) WriteBinary | (2 k off bytes) caller stores into region k at off
//               | (3) Flush | (4) WrittenLen
// output  ((err wlen sink)* target)   per op: error class (0 nil, 1 negative count, 2 sink error, 3 ignored
//           invalid fill), WrittenLen after the op, sink = () | (xBYTES): what the sink received in this Flush
//           (bytes-backed: *target right after a Flush that called the fake sink); target: final *target (bytes-backed)

const c05B = 4096 // bufiox.defaultBufSize (boundary values only; the model takes the constant from Gen/Consts.v)

var errC05Sink = errors.New("c05: injected sink failure")

type c05sink struct {
	calls, failAt int
	got           bool
	last          []byte
}

func (s *c05sink) Write(p []byte) (int, error) {
	s.calls++
	if s.calls == s.failAt {
		// an io.Writer may report any count beside its error: none, some, or all of the bytes
		// (data stored, commit failed); the error is what decides
		return []int{0, len(p) / 2, len(p)}[(s.failAt+len(p))%3], errC05Sink
	}
	s.got = true
	s.last = append([]byte(nil), p...)
	return len(p), nil
}

func c05cls(err error) int {
	switch {
	case err == nil:
		return 0
	case err == errC05Sink:
		return 2
	case err.Error() == "bufiox: negative count":
		return 1
	}
	return 9
}

func c05Run(in V) V {
	a := AsList(in)
	kind, cfg, ops := AsInt(a[0]), AsList(a[1]), AsList(a[2])
	var w bufiox.Writer
	sk := &c05sink{}
	var target []byte
	nonnil := false // mirrors "w.buf != nil": the sink is called by Flush only then
	if kind == 0 {
		sk.failAt = AsInt(cfg[0])
		w = bufiox.NewDefaultWriter(sk)
	} else {
		if AsInt(cfg[0]) == 0 {
			ln, cp, seed := AsInt(cfg[1]), AsInt(cfg[2]), AsInt(cfg[3])
			target = Pat(seed, cp)[:ln:cp]
			nonnil = true
		}
		w = bufiox.NewBytesWriter(&target)
	}
	var regions [][]byte
	var kept, keptCopy [][]byte
	stale := 0
	var out []V
	for _, opv := range ops {
		op := AsList(opv)
		ecls := 0
		sinkv := Ls()
		switch AsInt(op[0]) {
		case 0:
			n := AsInt(op[1])
			if n > 1<<27 {
				panic("c05: size too large for the harness")
			}
			buf, err := w.Malloc(n)
			ecls = c05cls(err)
			if err == nil {
				if len(buf) != n {
					ecls = 97
				}
				regions = append(regions, buf)
				if n > 0 {
					nonnil = true
				}
			}
		case 1:
			bs := append([]byte(nil), AsBytes(op[1])...) // private copy: it is scribbled over below
			n, err := w.WriteBinary(bs)
			ecls = c05cls(err)
			if err == nil {
				if n != len(bs) {
					ecls = 8
				}
				if len(bs) > 0 {
					nonnil = true
				}
			}
			// the payload counts as it was at the call: scribble over it afterwards
			for i := range bs {
				bs[i] ^= 0xA5
			}
		case 2:
			k, off, data := AsInt(op[1]), AsInt(op[2]), AsBytes(op[3])
			if k < stale || k >= len(regions) || off < 0 || off+len(data) > len(regions[k]) {
				ecls = 3
			} else {
				copy(regions[k][off:], data)
			}
		case 3:
			sk.got, sk.last = false, nil
			err := w.Flush()
			ecls = c05cls(err)
			called := err == nil && nonnil
			if called {
				stale = len(regions)
				nonnil = false
			}
			if kind == 0 {
				if sk.got {
					sinkv = Ls(Bs(sk.last))
				}
			} else if called {
				// the fake sink published what it received into *target
				sinkv = Ls(Bs(target))
				// ... and what was published is the caller's from now on: later rounds through the same
				// writer must not change it
				kept = append(kept, target)
				keptCopy = append(keptCopy, append([]byte(nil), target...))
			}
		case 4:
			_ = w.WrittenLen()
		default:
			panic("c05: bad op")
		}
		out = append(out, Ls(I(ecls), I(w.WrittenLen()), sinkv))
	}
	for i := range kept {
		if string(kept[i]) != string(keptCopy[i]) {
			return Ls(VL(out), I(-95)) // an earlier published target was overwritten by a later round
		}
	}
	return Ls(VL(out), Bs(target))
}

// ---- generation ----

// plan element: 'M' Malloc(n), 'W' WriteBinary(n bytes), 'F' Flush, 'L' WrittenLen
type c05p struct {
	k byte
	n int
}

type c05reg struct {
	k, n int
	done bool
}

// c05mat turns a plan into ops, inserting the caller's stores so that every region is completely
// stored before the Flush that sends it (possibly long after later Mallocs forced growths), and
// closes the history with a final Flush.  policy 0: store right after Malloc; 1: all at the Flush,
// oldest first; 2: all at the Flush, newest first; 3: random pieces at random times, overwrites,
// the rest at the Flush in random order.
func c05mat(g *Gen, plan []c05p, policy int, failk int, nonnil bool) V {
	var ops []V
	var pend []*c05reg
	regs, calls, wseed := 0, 0, 0
	errState := false
	fillWhole := func(r *c05reg, variant int) {
		ops = append(ops, Ls(I(2), I(r.k), I(0), PatV((r.k*37+11+variant*101)%256, r.n)))
		r.done = true
	}
	flushFills := func() {
		var todo []*c05reg
		for _, r := range pend {
			if !r.done {
				todo = append(todo, r)
			}
		}
		switch policy {
		case 2:
			for i, j := 0, len(todo)-1; i < j; i, j = i+1, j-1 {
				todo[i], todo[j] = todo[j], todo[i]
			}
		case 3:
			g.R.Shuffle(len(todo), func(i, j int) { todo[i], todo[j] = todo[j], todo[i] })
		}
		for _, r := range todo {
			fillWhole(r, 0)
		}
	}
	doFlush := func() {
		flushFills()
		ops = append(ops, Ls(I(3)))
		if !errState && nonnil {
			calls++
			if calls == failk {
				errState = true
			} else {
				nonnil = false
				pend = nil
			}
		}
	}
	for _, p := range plan {
		switch p.k {
		case 'M':
			ops = append(ops, Ls(I(0), I(p.n)))
			if !errState && p.n >= 0 {
				r := &c05reg{k: regs, n: p.n}
				regs++
				pend = append(pend, r)
				if p.n > 0 {
					nonnil = true
				}
				if policy == 0 {
					fillWhole(r, 0)
				}
			}
		case 'W':
			wseed++
			ops = append(ops, Ls(I(1), PatV((wseed*53+200)%256, p.n)))
			if !errState && p.n > 0 {
				nonnil = true
			}
		case 'F':
			doFlush()
		case 'L':
			ops = append(ops, Ls(I(4)))
		}
		if policy == 3 && len(pend) > 0 && g.R.Intn(10) < 4 {
			r := pend[g.R.Intn(len(pend))]
			switch g.R.Intn(3) {
			case 0:
				fillWhole(r, g.R.Intn(2))
			case 1: // a piece; the region stays to be completed later
				if r.n > 0 {
					off := g.R.Intn(r.n)
					ln := 1 + g.R.Intn(r.n-off)
					ops = append(ops, Ls(I(2), I(r.k), I(off), PatV(g.R.Intn(256), ln)))
					r.done = false
				}
			case 2: // byte-wise store of a short prefix
				for i := 0; i < r.n && i < 3; i++ {
					ops = append(ops, Ls(I(2), I(r.k), I(i), Bs([]byte{byte(0xC0 + i)})))
				}
				r.done = false
			}
		}
	}
	doFlush()
	return VL(ops)
}

func c05seqs(alpha []c05p, maxlen int, f func([]c05p)) {
	var rec func(cur []c05p)
	rec = func(cur []c05p) {
		if len(cur) > 0 {
			f(append([]c05p(nil), cur...))
		}
		if len(cur) == maxlen {
			return
		}
		for _, a := range alpha {
			rec(append(cur, a))
		}
	}
	rec(nil)
}

type c05init struct{ nilf, ln, cp, seed int }

func (i c05init) v() V { return Ls(I(i.nilf), I(i.ln), I(i.cp), I(i.seed)) }

func c05randPlan(g *Gen, nops int, small bool) []c05p {
	var plan []c05p
	huge := false
	for i := 0; i < nops; i++ {
		x := g.R.Intn(100)
		var n int
		switch {
		case x < 70:
			n = g.R.Intn(65)
		case x < 76 && !small:
			n = []int{c05B - 1, c05B, c05B + 1, 2*c05B - 1, 2 * c05B, 2*c05B + 1}[g.R.Intn(6)]
		case x < 84 && !small:
			n = 100 + g.R.Intn(2900)
		case x < 85 && !small && !huge:
			n = 70000
			huge = true
		default:
			n = g.R.Intn(9)
		}
		y := g.R.Intn(100)
		switch {
		case y < 50:
			plan = append(plan, c05p{'M', n})
		case y < 80:
			plan = append(plan, c05p{'W', n})
		case y < 90:
			plan = append(plan, c05p{'F', 0})
		case y < 95:
			plan = append(plan, c05p{'L', 0})
		case y < 97:
			plan = append(plan, c05p{'M', -1 - g.R.Intn(5)})
		default:
			plan = append(plan, c05p{'M', 0})
		}
	}
	return plan
}

func c05Gen(g *Gen) {
	B := c05B
	def := func(class string, plan []c05p, policy, failk int) {
		g.Add(class, Ls(I(0), Ls(I(failk)), c05mat(g, plan, policy, failk, false)))
	}
	byt := func(class string, in c05init, plan []c05p, policy int) {
		g.Add(class, Ls(I(1), in.v(), c05mat(g, plan, policy, 0, in.nilf == 0)))
	}
	// 1. bounded-exhaustive: all plans up to length 4 over a boundary-valued alphabet
	//    (quick: 2*bufsz+1 only in plans up to length 3)
	alpha := []c05p{{'M', 1}, {'M', B - 1}, {'M', B + 1}, {'W', 2}, {'F', 0}}
	if g.Thor {
		alpha = []c05p{{'M', 0}, {'M', 1}, {'M', B - 1}, {'M', B}, {'M', B + 1}, {'M', 2*B - 1}, {'M', 2*B + 1},
			{'W', 2}, {'W', B}, {'F', 0}, {'M', -1}}
	}
	idx := 0
	exh := func(p []c05p) {
		if g.Thor {
			for pol := 0; pol < 3; pol++ {
				def("exh", p, pol, 0)
			}
		} else {
			def("exh", p, idx%3, 0)
		}
		idx++
	}
	c05seqs(alpha, 4, exh)
	if !g.Thor {
		c05seqs([]c05p{{'M', 1}, {'M', B - 1}, {'M', 2*B + 1}, {'W', 2}, {'F', 0}, {'M', 0}, {'M', -1}}, 3, exh)
	}
	// 2. every size of the boundary list alone and after a small write, each fill policy
	for _, n := range []int{0, 1, 2, B - 1, B, B + 1, 2*B - 1, 2 * B, 2*B + 1, 70000, -1} {
		for pol := 0; pol < 3; pol++ {
			def("size", []c05p{{'M', n}}, pol, 0)
			def("size", []c05p{{'M', 10}, {'M', n}, {'W', 3}}, pol, 0)
			if n >= 0 {
				def("size", []c05p{{'W', 10}, {'W', n}, {'M', 3}}, pol, 0)
				def("size", []c05p{{'W', n}, {'M', 1}}, pol, 0)
			}
		}
	}
	// 3. ladders: 0..many growths in one flush, regions stored long after the growths
	for steps := 0; steps <= g.Scale(4, 6); steps++ {
		plan := []c05p{{'M', B}}
		c := B
		for i := 0; i < steps; i++ {
			plan = append(plan, c05p{'M', 1}, c05p{'M', c - 1})
			c *= 2
		}
		plan = append(plan, c05p{'W', 5}, c05p{'F', 0}, c05p{'M', 7}, c05p{'L', 0})
		for pol := 1; pol <= 3; pol++ {
			def("ladder", plan, pol, 0)
		}
	}
	// 4. failing sink: the k-th write fails, more ops follow
	falpha := []c05p{{'M', 1}, {'M', B + 1}, {'W', 2}, {'F', 0}}
	c05seqs(falpha, g.Scale(4, 5), func(p []c05p) {
		for k := 1; k <= 3; k++ {
			def("fail", p, (idx+k)%3, k)
		}
		idx++
	})
	for k := 1; k <= 3; k++ {
		def("fail", []c05p{{'M', 3}, {'F', 0}, {'W', 2}, {'F', 0}, {'M', 5}, {'F', 0}, {'M', 2}, {'W', 1}, {'F', 0}, {'L', 0}, {'M', -1}}, 1, k)
	}
	// 5. bytes-backed writers over nil / empty / partly filled / full targets
	inits := []c05init{{1, 0, 0, 0}, {0, 0, 0, 1}, {0, 0, 8, 2}, {0, 3, 8, 3}, {0, 8, 8, 4}, {0, 1, 1, 5},
		{0, B, B, 6}, {0, 10, B + 100, 7}, {0, 5, 16, 8}}
	balpha := []c05p{{'M', 0}, {'M', 1}, {'M', 5}, {'W', 3}, {'F', 0}, {'M', 9}}
	if g.Thor {
		balpha = append(balpha, c05p{'M', -1}, c05p{'W', 0}, c05p{'M', B + 1})
	}
	for _, in := range inits {
		in := in
		c05seqs(balpha, g.Scale(3, 4), func(p []c05p) {
			byt("bytes-exh", in, p, idx%4)
			idx++
		})
	}
	for _, in := range []c05init{{1, 0, 0, 0}, {0, 0, 0, 1}, {0, B, B, 6}, {0, 10, B + 100, 7}} {
		in := in
		c05seqs([]c05p{{'M', 1}, {'W', 3}, {'F', 0}, {'M', B + 1}}, 3, func(p []c05p) {
			byt("bytes-exh", in, p, idx%4)
			idx++
		})
	}
	// 6. random histories
	n := g.Scale(160, 6000)
	for i := 0; i < n; i++ {
		nops := 1 + g.R.Intn(200)
		if i%4 != 0 {
			nops = 1 + g.R.Intn(40)
		}
		failk := 0
		if g.R.Intn(4) == 0 {
			failk = 1 + g.R.Intn(4)
		}
		def("rand", c05randPlan(g, nops, false), g.R.Intn(4), failk)
	}
	// many growths are cheap on a bytes-backed writer with a tiny target
	for i := 0; i < n; i++ {
		cp := g.R.Intn(20)
		in := c05init{0, 0, cp, g.R.Intn(256)}
		if cp > 0 {
			in.ln = g.R.Intn(cp + 1)
		}
		if g.R.Intn(10) == 0 {
			in = c05init{1, 0, 0, 0}
		}
		byt("bytes-rand", in, c05randPlan(g, 1+g.R.Intn(60), i%5 != 0), g.R.Intn(4))
	}
	// spread the expensive cases evenly over the driver's shards
	g.R.Shuffle(len(g.cases), func(i, j int) { g.cases[i], g.cases[j] = g.cases[j], g.cases[i] })
}

func init() {
	register("C05", &Prop{Gen: c05Gen, Run: c05Run})
}
