package main

import (
	"bytes"
	"context"
	"encoding/binary"
	"io"
	"sort"
	"strings"

	"github.com/cloudwego/gopkg/bufiox"
	"github.com/cloudwego/gopkg/protocol/ttheader"
)

// C06 — TTHeader encode/decode round trip.  Formats: see coq/Corr/C06.v and coq/Corr/TTHeaderC.v.
// The helpers prefixed tth are shared with c10.go.

// ---------- a source that delivers at most chunk bytes per Read, EOF on the following call ----------
type tthChunkReader struct {
	data  []byte
	pos   int
	chunk int
}

func (r *tthChunkReader) Read(p []byte) (int, error) {
	if r.pos >= len(r.data) {
		return 0, io.EOF
	}
	n := r.chunk
	if n < 1 {
		n = 1
	}
	if n > len(p) {
		n = len(p)
	}
	if n > len(r.data)-r.pos {
		n = len(r.data) - r.pos
	}
	copy(p, r.data[r.pos:r.pos+n])
	r.pos += n
	return n, nil
}

// ---------- one observation of a decode ----------
type tthDec struct {
	st, ec int
	p      ttheader.DecodeParam
	rl     int
}

// error classes of coq/Model/TTHeader.v (2 = the reader's own error from either Next)
func tthErrClass(err error) int {
	s := err.Error()
	switch {
	case s == "not TTHeader protocol":
		return 3
	case strings.HasPrefix(s, "invalid header length"):
		return 4
	case strings.HasPrefix(s, "unsupported ProtocolID"):
		return 6
	case strings.HasPrefix(s, "need read"):
		return 7
	case strings.HasPrefix(s, "ttHeader read kv info failed, invalid infoIDType"):
		return 9
	case strings.HasPrefix(s, "ttHeader read kv info failed"):
		return 8
	}
	return 2
}

func tthRunDecode(f func() (ttheader.DecodeParam, error, int)) (d tthDec) {
	defer func() {
		if r := recover(); r != nil {
			d = tthDec{st: 2}
		}
	}()
	p, err, rl := f()
	if err != nil {
		return tthDec{st: 1, ec: tthErrClass(err), rl: rl}
	}
	return tthDec{st: 0, p: p, rl: rl}
}

func (d tthDec) V(withRL bool) V {
	var im, sm []V
	if d.st == 0 {
		ik := make([]int, 0, len(d.p.IntInfo))
		for k := range d.p.IntInfo {
			ik = append(ik, int(k))
		}
		sort.Ints(ik)
		for _, k := range ik {
			im = append(im, Ls(I(k), Str(d.p.IntInfo[uint16(k)])))
		}
		sk := make([]string, 0, len(d.p.StrInfo))
		for k := range d.p.StrInfo {
			sk = append(sk, k)
		}
		sort.Strings(sk)
		for _, k := range sk {
			sm = append(sm, Ls(Str(k), Str(d.p.StrInfo[k])))
		}
	}
	rl := d.rl
	if !withRL {
		rl = 0
	}
	if d.st != 0 {
		return Ls(I(d.st), I(d.ec), I(0), I(0), I(0), Ls(), Ls(), I(0), I(0), I(rl), I(0), I(0))
	}
	return Ls(I(0), I(0), I(int(d.p.Flags)), I(int(d.p.SeqID)), I(int(d.p.ProtocolID)), Ls(im...), Ls(sm...),
		I(d.p.HeaderLen), I(d.p.PayloadLen), I(rl), Bo(d.p.IntInfo == nil), Bo(d.p.StrInfo == nil))
}

// tthDecodeAll decodes frame three ways; returns (dec, sameFromBytes, sameStream).
func tthDecodeAll(frame []byte, chunk int) (V, V, V) {
	ctx := context.Background()
	d1 := tthRunDecode(func() (ttheader.DecodeParam, error, int) {
		// the caller's receive buffer is reused for the next frame right after Decode: the decoded
		// parameters must own their bytes
		own := append([]byte(nil), frame...)
		r := bufiox.NewBytesReader(own)
		p, err := ttheader.Decode(ctx, r)
		rl := r.ReadLen()
		r.Release(nil)
		for i := range own {
			own[i] = 0xEE
		}
		return p, err, rl
	})
	d2 := tthRunDecode(func() (ttheader.DecodeParam, error, int) {
		p, err := ttheader.DecodeFromBytes(ctx, frame)
		return p, err, 0
	})
	d3 := tthRunDecode(func() (ttheader.DecodeParam, error, int) {
		// the frame is not the first thing on this reader: a few bytes of an earlier message are
		// consumed first and NOT released, so ReadLen is not zero when Decode starts (pipelined frames);
		// header/payload lengths must not depend on that
		pre := 1 + len(frame)%7
		data := append(append(make([]byte, 0, pre+len(frame)), Pat(len(frame), pre)...), frame...)
		r := bufiox.NewDefaultReader(&tthChunkReader{data: data, chunk: chunk})
		if _, err := r.Next(pre); err != nil {
			panic("c06: prefix read failed: " + err.Error())
		}
		p, err := ttheader.Decode(ctx, r)
		rl := r.ReadLen() - pre
		// the reader is released and its pooled buffer is taken and overwritten by another reader
		// BEFORE the decoded parameters are looked at: they must own their bytes
		r.Release(nil)
		junk := make([]byte, len(data)+64)
		for i := range junk {
			junk[i] = 0xEE
		}
		for k := 0; k < 2; k++ {
			r2 := bufiox.NewDefaultReader(&tthChunkReader{data: junk, chunk: len(junk)})
			r2.Next(len(junk))
			r2.Release(nil)
		}
		return p, err, rl
	})
	v1 := d1.V(true)
	return v1, Bo(Show(d1.V(false)) == Show(d2.V(false))), Bo(Show(v1) == Show(d3.V(true)))
}

// ---------- the harness' own reading of the sections of a produced frame ----------
// returns the int keys and string keys in the order they appear; ok=false on anything unexpected
func tthParseOrder(frame []byte) (ik []int, sk []string, ok bool) {
	p := 16
	n := len(frame)
	u16 := func() (int, bool) {
		if p+2 > n {
			return 0, false
		}
		v := int(frame[p])<<8 | int(frame[p+1])
		p += 2
		return v, true
	}
	str := func() (string, bool) {
		l, ok := u16()
		if !ok || p+l > n {
			return "", false
		}
		s := string(frame[p : p+l])
		p += l
		return s, true
	}
	if n < 16 {
		return nil, nil, false
	}
	for p < n {
		id := frame[p]
		p++
		switch id {
		case 0x00:
		case 0x11:
			if _, ok := str(); !ok {
				return nil, nil, false
			}
		case 0x01:
			c, ok := u16()
			if !ok {
				return nil, nil, false
			}
			for i := 0; i < c; i++ {
				k, ok1 := str()
				_, ok2 := str()
				if !ok1 || !ok2 {
					return nil, nil, false
				}
				sk = append(sk, k)
			}
		case 0x10:
			c, ok := u16()
			if !ok {
				return nil, nil, false
			}
			for i := 0; i < c; i++ {
				k, ok1 := u16()
				_, ok2 := str()
				if !ok1 || !ok2 {
					return nil, nil, false
				}
				ik = append(ik, k)
			}
		default:
			return nil, nil, false
		}
	}
	return ik, sk, true
}

type c06Case struct {
	flags, seq, pid int
	ik              []int
	iv              [][]byte
	sk              [][]byte
	sv              [][]byte
	payload         []byte
	chunk           int
}

func c06Parse(in V) c06Case {
	a := AsList(in)
	c := c06Case{flags: AsInt(a[0]), seq: AsInt(a[1]), pid: AsInt(a[2]), payload: AsBytes(a[5]), chunk: AsInt(a[6])}
	for _, e := range AsList(a[3]) {
		kv := AsList(e)
		c.ik = append(c.ik, AsInt(kv[0]))
		c.iv = append(c.iv, AsBytes(kv[1]))
	}
	for _, e := range AsList(a[4]) {
		kv := AsList(e)
		c.sk = append(c.sk, AsBytes(kv[0]))
		c.sv = append(c.sv, AsBytes(kv[1]))
	}
	return c
}

// orders as index lists into the input; the GDPR entry (never enumerated on the wire) first
func c06Orders(c c06Case, frame []byte) (V, V) {
	ik, sk, ok := tthParseOrder(frame)
	if !ok {
		return Ls(), Ls()
	}
	ii := map[int]int{}
	for i, k := range c.ik {
		ii[k] = i
	}
	si := map[string]int{}
	for i, k := range c.sk {
		si[string(k)] = i
	}
	var io_, so []V
	for _, k := range ik {
		j, ok := ii[k]
		if !ok {
			return Ls(), Ls()
		}
		io_ = append(io_, I(j))
	}
	if j, ok := si[ttheader.GDPRToken]; ok {
		so = append(so, I(j))
	}
	for _, k := range sk {
		j, ok := si[k]
		if !ok {
			return Ls(), Ls()
		}
		so = append(so, I(j))
	}
	return Ls(io_...), Ls(so...)
}

// a bufiox.Writer that only counts (WriteBinary "may be a zero copy write": it keeps nothing): lets
// Encode run over header infos of several GiB without that memory
type c06CountingWriter struct{ n int }

func (w *c06CountingWriter) Malloc(n int) ([]byte, error) { w.n += n; return make([]byte, n), nil }
func (w *c06CountingWriter) WriteBinary(bs []byte) (int, error) {
	w.n += len(bs)
	return len(bs), nil
}
func (w *c06CountingWriter) WrittenLen() int { return w.n }
func (w *c06CountingWriter) Flush() error    { w.n = 0; return nil }

// (9 nkeys vlen): Encode of nkeys int keys that all carry ONE shared value of vlen bytes -> (failed written)
func c06Huge(nk, vl int) V {
	val := string(make([]byte, vl))
	p := ttheader.EncodeParam{SeqID: 1, ProtocolID: ttheader.ProtocolIDThriftBinary, IntInfo: map[uint16]string{}}
	for k := 0; k < nk; k++ {
		p.IntInfo[uint16(k)] = val
	}
	w := &c06CountingWriter{}
	_, err := ttheader.Encode(context.Background(), p, w)
	return Ls(Bo(err != nil), I(w.n))
}

func c06Run(in V) V {
	if a := AsList(in); len(a) == 3 && AsInt(a[0]) == 9 {
		return c06Huge(AsInt(a[1]), AsInt(a[2]))
	}
	c := c06Parse(in)
	ctx := context.Background()
	mk := func() ttheader.EncodeParam {
		p := ttheader.EncodeParam{Flags: ttheader.HeaderFlags(c.flags), SeqID: int32(c.seq), ProtocolID: ttheader.ProtocolID(c.pid)}
		if len(c.ik) > 0 || c.chunk%2 == 0 {
			p.IntInfo = map[uint16]string{}
			for i, k := range c.ik {
				p.IntInfo[uint16(k)] = string(c.iv[i])
			}
		}
		if len(c.sk) > 0 || c.chunk%3 == 0 {
			p.StrInfo = map[string]string{}
			for i, k := range c.sk {
				p.StrInfo[string(k)] = string(c.sv[i])
			}
		}
		return p
	}
	// 1. EncodeToBytes
	buf, err := ttheader.EncodeToBytes(ctx, mk())
	// 2. Encode over a stream-backed writer, the payload written through the same writer
	var sink bytes.Buffer
	w := bufiox.NewDefaultWriter(&sink)
	tlf, err2 := ttheader.Encode(ctx, mk(), w)
	st2, wl2 := 0, 0
	var frame2 []byte
	if err2 != nil {
		st2 = 1
	} else {
		wl2 = w.WrittenLen()
		binary.BigEndian.PutUint32(tlf, uint32(wl2+len(c.payload)-4))
		if _, e := w.WriteBinary(c.payload); e != nil {
			st2 = 3
		}
		if e := w.Flush(); e != nil {
			st2 = 3
		}
		all := sink.Bytes()
		if st2 == 0 && (len(all) != wl2+len(c.payload) || !bytes.Equal(all[wl2:], c.payload)) {
			st2 = 4
		}
		if st2 == 0 {
			frame2 = all[:wl2]
		}
	}
	if err != nil {
		return Ls(I(1), I(st2))
	}
	binary.BigEndian.PutUint32(buf, uint32(len(buf)+len(c.payload)-4))
	io1, so1 := c06Orders(c, buf)
	var stream V
	if st2 == 0 && bytes.Equal(frame2, buf) {
		stream = Ls(I(0), I(wl2), I(1), Bs(nil), Ls(), Ls())
	} else if st2 == 0 {
		io2, so2 := c06Orders(c, frame2)
		stream = Ls(I(0), I(wl2), I(0), Bs(frame2), io2, so2)
	} else {
		stream = Ls(I(st2), I(0), I(0), Bs(nil), Ls(), Ls())
	}
	whole := append(append([]byte(nil), buf...), c.payload...)
	dec, sameFB, sameST := tthDecodeAll(whole, c.chunk)
	return Ls(I(0), Bs(buf), io1, so1, I(len(buf)), stream, Bo(ttheader.IsTTHeader(buf)), Bo(ttheader.IsStreaming(buf)),
		dec, sameFB, sameST)
}

// ---------- generation ----------
func tthBytesV(b []byte) V { return Bs(b) }

// a byte-string spec of length n: literal random bytes when short, a pattern when long
func c06Val(g *Gen, n int) V {
	if n <= 24 {
		b := make([]byte, n)
		g.R.Read(b)
		return Bs(b)
	}
	return PatV(g.R.Intn(256), n)
}

type c06Maps struct {
	im, sm []V
}

// distinct int keys / string keys
func c06IntKeys(g *Gen, n int) []int {
	seen := map[int]bool{}
	var out []int
	pool := []int{0, 1, 2, 255, 256, 0x7FFF, 0x8000, 0xFFFE, 0xFFFF}
	for len(out) < n {
		var k int
		if g.R.Intn(3) == 0 {
			k = pool[g.R.Intn(len(pool))]
		} else {
			k = g.R.Intn(65536)
		}
		if !seen[k] {
			seen[k] = true
			out = append(out, k)
		}
	}
	return out
}

func c06StrKeys(g *Gen, n int, token bool) [][]byte {
	seen := map[string]bool{ttheader.GDPRToken: true}
	var out [][]byte
	pool := []string{"", "a", "k", "RPC_TRANSIT_gdpr-toke", "RPC_TRANSIT_gdpr-token2", "rpc_transit_gdpr-token", "\x00", "\xff\xfe", "key with spaces"}
	for len(out) < n {
		var k string
		switch g.R.Intn(4) {
		case 0:
			k = pool[g.R.Intn(len(pool))]
		default:
			b := make([]byte, g.R.Intn(9))
			g.R.Read(b)
			k = string(b)
		}
		if !seen[k] {
			seen[k] = true
			out = append(out, []byte(k))
		}
	}
	if token {
		pos := g.R.Intn(len(out) + 1)
		out = append(out, nil)
		copy(out[pos+1:], out[pos:])
		out[pos] = []byte(ttheader.GDPRToken)
	}
	return out
}

func c06Input(flags, seq, pid int, im, sm []V, payload V, chunk int) V {
	return Ls(I(flags), I(seq), I(pid), Ls(im...), Ls(sm...), payload, I(chunk))
}

// maps with ni int entries, ns non-token string entries, token or not; value lengths from lens
func c06MkMaps(g *Gen, ni, ns int, token bool, vlen func() int) c06Maps {
	var m c06Maps
	for _, k := range c06IntKeys(g, ni) {
		m.im = append(m.im, Ls(I(k), c06Val(g, vlen())))
	}
	for _, k := range c06StrKeys(g, ns, token) {
		m.sm = append(m.sm, Ls(Bs(k), c06Val(g, vlen())))
	}
	return m
}

// raw header-info size (before padding) of the maps, computed by the harness itself
func c06RawSize(m c06Maps) int {
	s := 2
	others := 0
	for _, e := range m.sm {
		kv := AsList(e)
		k, v := AsBytes(kv[0]), AsBytes(kv[1])
		if string(k) == ttheader.GDPRToken {
			s += 3 + len(v)
		} else {
			others++
			s += 4 + len(k) + len(v)
		}
	}
	if others > 0 {
		s += 3
	}
	if len(m.im) > 0 {
		s += 3
	}
	for _, e := range m.im {
		s += 4 + len(AsBytes(AsList(e)[1]))
	}
	return s
}

func c06HugeCases(g *Gen) {
	// header infos around 64 KiB, 2^31, 2^32 and 2^33 bytes: Encode must refuse every one above 65536
	for _, c := range [][2]int{{1, 65000}, {2, 40000}, {16, 4091}, {16, 4092}, {4096, 1 << 19}, {4096, 1<<20 - 4}, {4096, 1 << 20}, {4096, 1<<20 + 1}, {8192, 1 << 20}, {65536, 65532}, {65535, 65533}} {
		g.Add("huge-info", Ls(I(9), I(c[0]), I(c[1])))
	}
}

func init() {
	allowed := []int{0, 3, 4, 0x10, 0x11}
	register("C06", &Prop{
		Run: c06Run,
		Gen: func(g *Gen) {
			c06HugeCases(g)
			small := func() int { return []int{0, 1, 2, 3, 4, 5, 7, 8, 13}[g.R.Intn(9)] }
			pay := func(n int) V { return PatV(n%251, n) }
			// 1. flag / sequence-id boundary values, every supported protocol id
			flagsB := []int{0, 1, 2, 3, 8, 0x10, 0x1B, 0x7FFF, 0x8000, 0xFFFD, 0xFFFE, 0xFFFF}
			seqB := []int{0, 1, -1, 2, 0x7FFF, 0x10000, 0x7FFFFFFF, -0x80000000, -0x7FFFFFFF, 0x01020304}
			i := 0
			for _, f := range flagsB {
				for _, s := range seqB {
					m := c06MkMaps(g, i%3, (i/3)%3, i%4 == 1, small)
					g.Add("bound", c06Input(f, s, allowed[i%5], m.im, m.sm, pay(i%7), 1+i%9))
					i++
				}
			}
			// 2. every protocol id byte, with empty and non-empty maps
			for pid := 0; pid < 256; pid++ {
				g.Add("pid", c06Input(pid, pid, pid, nil, nil, pay(0), 1+pid%5))
				m := c06MkMaps(g, 1, 1, pid%2 == 0, small)
				g.Add("pid", c06Input(2, -pid, pid, m.im, m.sm, pay(pid%4), 2+pid%5))
			}
			// 3. map shapes x token x value sizes (all padding residues arise)
			for _, ni := range []int{0, 1, 2, 5, 20} {
				for _, ns := range []int{0, 1, 2, 5, 20} {
					for tok := 0; tok < 2; tok++ {
						for rep := 0; rep < 4; rep++ {
							vl := small
							if rep == 3 {
								vl = func() int { return []int{0, 255, 256, 257, 1000}[g.R.Intn(5)] }
							}
							m := c06MkMaps(g, ni, ns, tok == 1, vl)
							g.Add("shape", c06Input(g.R.Intn(65536), int(int32(g.R.Uint32())), allowed[g.R.Intn(5)], m.im, m.sm, pay(g.R.Intn(9)), 1+g.R.Intn(40)))
						}
					}
				}
			}
			// 3b. one value growing byte by byte: every padding residue on every structure
			for ln := 0; ln < 12; ln++ {
				g.Add("residue", c06Input(0, 1, 0, []V{Ls(I(7), c06Val(g, ln))}, nil, pay(ln), 3))
				g.Add("residue", c06Input(0, 1, 0, nil, []V{Ls(Str("k"), c06Val(g, ln))}, pay(ln), 3))
				g.Add("residue", c06Input(0, 1, 0, nil, []V{Ls(Str(ttheader.GDPRToken), c06Val(g, ln))}, pay(ln), 3))
				g.Add("residue", c06Input(0, 1, 0, []V{Ls(I(7), c06Val(g, ln))}, []V{Ls(Str(ttheader.GDPRToken), c06Val(g, 1)), Ls(Str(""), Str(""))}, pay(ln), 3))
			}
			// 4. payload length classes
			for _, pl := range []int{0, 1, 2, 3, 4, 5, 13, 14, 100, 4095, 4096, 4097, 70000} {
				m := c06MkMaps(g, 2, 2, true, small)
				g.Add("payload", c06Input(2, 99, 0, m.im, m.sm, pay(pl), 1+pl%50))
			}
			// 5. header-info sizes engineered around the 65536 limit (spread among the random
			// cases below so that the expensive lines do not land in one shard of the driver)
			var bigs []V
			lo, hi := 65528, 65540
			if g.Thor {
				lo, hi = 65500, 65560
			}
			type shape struct {
				ni, ns int
				tok    bool
			}
			for _, sh := range []shape{{1, 0, false}, {0, 1, false}, {0, 0, true}, {3, 2, true}, {0, 3, false}, {2, 1, true}} {
				for T := lo; T <= hi; T++ {
					m := c06MkMaps(g, sh.ni, sh.ns, sh.tok, small)
					// grow the last value of one of the maps so that the raw size is T
					growInt := sh.ni > 0 && (sh.ns == 0 && !sh.tok || T%2 == 0)
					var tgt *V
					if growInt {
						tgt = &m.im[len(m.im)-1]
					} else {
						tgt = &m.sm[len(m.sm)-1]
					}
					kv := AsList(*tgt)
					*tgt = Ls(kv[0], Bs(nil))
					L := T - c06RawSize(m)
					*tgt = Ls(kv[0], PatV(T%256, L))
					bigs = append(bigs, c06Input(T&0xFFFF, T, allowed[T%5], m.im, m.sm, pay(T%6), 1+(T%3)*2000))
				}
			}
			// 5b. large keys, and strings that cannot be represented at all
			g.Add("bigkey", c06Input(0, 0, 0, nil, []V{Ls(PatV(1, 30000), PatV(2, 30000))}, pay(3), 4096))
			g.Add("bigkey", c06Input(0, 0, 0, nil, []V{Ls(PatV(1, 65000), Bs(nil)), Ls(Bs(nil), PatV(2, 500))}, pay(3), 777))
			g.Add("bigkey", c06Input(0, 0, 0, nil, []V{Ls(PatV(1, 65524), Bs(nil))}, pay(0), 9999))
			for _, ln := range []int{65535, 65536, 65537, 70000, 131072, 131080} {
				g.Add("toolong", c06Input(0, 0, 0, []V{Ls(I(1), PatV(3, ln))}, nil, pay(0), 1))
				g.Add("toolong", c06Input(0, 0, 0, nil, []V{Ls(Str("k"), PatV(3, ln))}, pay(0), 1))
				g.Add("toolong", c06Input(0, 0, 0, nil, []V{Ls(PatV(3, ln), Str("v"))}, pay(0), 1))
				g.Add("toolong", c06Input(0, 0, 0, nil, []V{Ls(Str(ttheader.GDPRToken), PatV(3, ln))}, pay(0), 1))
			}
			// 5c. many entries
			for _, n := range []int{300, g.Scale(800, 2500)} {
				m := c06MkMaps(g, n, n/2, true, func() int { return g.R.Intn(3) })
				g.Add("many", c06Input(1, n, 0, m.im, m.sm, pay(5), 64))
			}
			// 6. random
			n := g.Scale(2500, 80000)
			every := n / (len(bigs) + 1)
			for i := 0; i < n; i++ {
				if i%every == 0 && len(bigs) > 0 {
					g.Add("limit", bigs[0])
					bigs = bigs[1:]
				}
				vl := func() int {
					switch g.R.Intn(20) {
					case 0:
						return g.R.Intn(400)
					case 1:
						return 0
					}
					return g.R.Intn(20)
				}
				m := c06MkMaps(g, g.R.Intn(7), g.R.Intn(7), g.R.Intn(3) == 0, vl)
				pid := allowed[g.R.Intn(5)]
				if g.R.Intn(10) == 0 {
					pid = g.R.Intn(256)
				}
				g.Add("rand", c06Input(g.R.Intn(65536), int(int32(g.R.Uint32())), pid, m.im, m.sm, pay(g.R.Intn(60)), 1+g.R.Intn(64)))
			}
			for _, b := range bigs {
				g.Add("limit", b)
			}
		},
	})
}
