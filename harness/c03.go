package main

// C03 — decoders never panic or over-report on arbitrary bytes.
//
// input  (entry t bytes)      entry: see c03Entries; t: requested type byte 0..255 (used by the skip entries)
// output (class n)            class 0 ok / 1 error / 2 panic (recovered; includes faults on the guard page)
//                             n = consumed length reported on success (-1: the entry point reports none)
//        (-97)                not run: the input declares a container size above the cap in a position
//                             where the entry point allocates the declared size (outside the property)
//        (-98 xreason)        the child process died (fatal runtime error) — see main.go Isolate
//
// Every input is placed flush against a PROT_NONE page, so a load one byte beyond the slice faults.

import (
	"context"
	"encoding/binary"
	"fmt"
	"math/rand"
	"syscall"

	"github.com/cloudwego/gopkg/protocol/thrift"
	"github.com/cloudwego/gopkg/protocol/thrift/base"
	"github.com/cloudwego/gopkg/protocol/thrift/unknownfields"
	"github.com/cloudwego/gopkg/protocol/ttheader"
)

const c03Cap = 1 << 16 // cap on declared sizes for entry points that allocate the declared size

const (
	c03ReadBool = 1 + iota
	c03ReadByte
	c03ReadI16
	c03ReadI32
	c03ReadI64
	c03ReadDouble
	c03ReadBinary
	c03ReadString
	c03ReadFieldBegin
	c03ReadMapBegin
	c03ReadListBegin
	c03ReadSetBegin
	c03ReadMessageBegin
)
const (
	c03Skip        = 20
	c03BytesSkip   = 21
	c03Base        = 30
	c03BaseResp    = 31
	c03AppEx       = 32
	c03Unmarshal   = 40
	c03UnmarshalEx = 41 // same entry point, payload struct = ApplicationException
	c03Unknown     = 50
	c03TTHeader    = 60
)

var c03Scalars = []int{c03ReadBool, c03ReadByte, c03ReadI16, c03ReadI32, c03ReadI64, c03ReadDouble, c03ReadBinary,
	c03ReadString, c03ReadFieldBegin, c03ReadMapBegin, c03ReadListBegin, c03ReadSetBegin, c03ReadMessageBegin}

// ---- guard page -------------------------------------------------------------------------

const c03Page = 4096

type c03Guard struct{ mem []byte }

// c03Place returns a slice with the contents of b whose last byte is the last byte before a
// PROT_NONE page (for empty b: a zero-length slice pointing at the guard page boundary is not
// expressible, so an empty non-nil slice is returned).
func c03Place(b []byte) ([]byte, *c03Guard) {
	n := (len(b)+c03Page-1)/c03Page + 1
	if len(b) == 0 {
		n = 2
	}
	mem, err := syscall.Mmap(-1, 0, n*c03Page, syscall.PROT_READ|syscall.PROT_WRITE, syscall.MAP_ANON|syscall.MAP_PRIVATE)
	if err != nil {
		panic(err)
	}
	if err := syscall.Mprotect(mem[(n-1)*c03Page:], syscall.PROT_NONE); err != nil {
		panic(err)
	}
	end := (n - 1) * c03Page
	s := mem[end-len(b) : end : end]
	copy(s, b)
	return s, &c03Guard{mem}
}
func (g *c03Guard) free() { syscall.Munmap(g.mem) }

// ---- independent tolerant walker: largest declared size in an allocating position ---------

// c03skipLen: own recursive-descent extent of one value (-1 when malformed); never allocates.
func c03skipLen(b []byte, t byte, depth int) int {
	if depth > 80 {
		return -1
	}
	switch t {
	case 2, 3:
		if len(b) < 1 {
			return -1
		}
		return 1
	case 6:
		if len(b) < 2 {
			return -1
		}
		return 2
	case 8:
		if len(b) < 4 {
			return -1
		}
		return 4
	case 4, 10:
		if len(b) < 8 {
			return -1
		}
		return 8
	case 11:
		if len(b) < 4 {
			return -1
		}
		n := int(int32(binary.BigEndian.Uint32(b)))
		if n < 0 || len(b) < 4+n {
			return -1
		}
		return 4 + n
	case 12:
		i := 0
		for {
			if i >= len(b) {
				return -1
			}
			ft := b[i]
			i++
			if ft == 0 {
				return i
			}
			i += 2
			if i > len(b) {
				return -1
			}
			l := c03skipLen(b[i:], ft, depth+1)
			if l < 0 {
				return -1
			}
			i += l
		}
	case 13:
		if len(b) < 6 {
			return -1
		}
		n := int(int32(binary.BigEndian.Uint32(b[2:])))
		if n < 0 {
			return -1
		}
		i := 6
		for j := 0; j < n; j++ {
			for _, et := range []byte{b[0], b[1]} {
				if i > len(b) {
					return -1
				}
				l := c03skipLen(b[i:], et, depth+1)
				if l < 0 {
					return -1
				}
				i += l
			}
		}
		return i
	case 14, 15:
		if len(b) < 5 {
			return -1
		}
		n := int(int32(binary.BigEndian.Uint32(b[1:])))
		if n < 0 {
			return -1
		}
		i := 5
		for j := 0; j < n; j++ {
			if i > len(b) {
				return -1
			}
			l := c03skipLen(b[i:], b[0], depth+1)
			if l < 0 {
				return -1
			}
			i += l
		}
		return i
	}
	return -1
}

// largest map size declared for field (mapID, MAP) of a struct encoding, walking as far as it parses
func c03StructMapMax(b []byte, mapID int) int {
	max, i := 0, 0
	for i < len(b) {
		ft := b[i]
		if ft == 0 || i+3 > len(b) {
			break
		}
		id := int(int16(binary.BigEndian.Uint16(b[i+1:])))
		i += 3
		if ft == 13 && id == mapID {
			if i+6 > len(b) {
				break
			}
			n := int(binary.BigEndian.Uint32(b[i+2:]))
			if n > max {
				max = n
			}
			// entries are strings
			i += 6
			ok := true
			for j := 0; j < n && j < 1<<20; j++ {
				for k := 0; k < 2; k++ {
					l := -1
					if i <= len(b) {
						l = c03skipLen(b[i:], 11, 0)
					}
					if l < 0 {
						ok = false
						break
					}
					i += l
				}
				if !ok {
					break
				}
			}
			if !ok {
				break
			}
			continue
		}
		l := c03skipLen(b[i:], ft, 0)
		if l < 0 {
			break
		}
		i += l
	}
	return max
}

// largest container size reached by ConvertUnknownFields' recursion (it allocates every one)
func c03UnknownMax(b []byte) int {
	max := 0
	var val func(b []byte, t byte, depth int) int // returns extent or -1
	val = func(b []byte, t byte, depth int) int {
		if depth > 4000 {
			return -1
		}
		switch t {
		case 12:
			i := 0
			for {
				if i >= len(b) {
					return -1
				}
				ft := b[i]
				i++
				if ft == 0 {
					return i
				}
				i += 2
				if i > len(b) {
					return -1
				}
				l := val(b[i:], ft, depth+1)
				if l < 0 {
					return -1
				}
				i += l
			}
		case 13:
			if len(b) < 6 {
				return -1
			}
			n := int(binary.BigEndian.Uint32(b[2:]))
			if n > max {
				max = n
			}
			if n > c03Cap {
				return -1
			}
			i := 6
			for j := 0; j < n; j++ {
				for _, et := range []byte{b[0], b[1]} {
					if i > len(b) {
						return -1
					}
					l := val(b[i:], et, depth+1)
					if l < 0 {
						return -1
					}
					i += l
				}
			}
			return i
		case 14, 15:
			if len(b) < 5 {
				return -1
			}
			n := int(binary.BigEndian.Uint32(b[1:]))
			if n > max {
				max = n
			}
			if n > c03Cap {
				return -1
			}
			i := 5
			for j := 0; j < n; j++ {
				if i > len(b) {
					return -1
				}
				l := val(b[i:], b[0], depth+1)
				if l < 0 {
					return -1
				}
				i += l
			}
			return i
		}
		return c03skipLen(b, t, 0)
	}
	i := 0
	for i < len(b) {
		ft := b[i]
		if ft == 0 {
			i++ // ReadFieldBegin(STOP) consumes 1 byte, then readUnknownField fails on type 0
			break
		}
		if i+3 > len(b) {
			break
		}
		i += 3
		l := val(b[i:], ft, 0)
		if l < 0 {
			break
		}
		i += l
	}
	return max
}

func c03Hostile(entry int, b []byte) bool {
	switch entry {
	case c03Base:
		return c03StructMapMax(b, 6) > c03Cap
	case c03BaseResp:
		return c03StructMapMax(b, 3) > c03Cap
	case c03Unmarshal:
		// message begin, then Base
		if len(b) < 8 {
			return false
		}
		n := int(int32(binary.BigEndian.Uint32(b[4:])))
		if n < 0 || 8+n+4 > len(b) {
			return false
		}
		return c03StructMapMax(b[8+n+4:], 6) > c03Cap
	case c03Unknown:
		return c03UnknownMax(b) > c03Cap
	}
	return false
}

// ---- running one entry point ---------------------------------------------------------------

func c03Run(entry int, t byte, raw []byte) (out V) {
	if c03Hostile(entry, raw) {
		return Ls(I(-97))
	}
	b, g := c03Place(raw)
	defer g.free()
	defer func() {
		if r := recover(); r != nil {
			out = Ls(I(2), I(0), Str(fmt.Sprint(r)))
		}
	}()
	res := func(n int, err error) V {
		if err != nil {
			return Ls(I(1), I(n))
		}
		return Ls(I(0), I(n))
	}
	x := thrift.Binary
	switch entry {
	case c03ReadBool:
		_, l, err := x.ReadBool(b)
		return res(l, err)
	case c03ReadByte:
		_, l, err := x.ReadByte(b)
		return res(l, err)
	case c03ReadI16:
		_, l, err := x.ReadI16(b)
		return res(l, err)
	case c03ReadI32:
		_, l, err := x.ReadI32(b)
		return res(l, err)
	case c03ReadI64:
		_, l, err := x.ReadI64(b)
		return res(l, err)
	case c03ReadDouble:
		_, l, err := x.ReadDouble(b)
		return res(l, err)
	case c03ReadBinary:
		_, l, err := x.ReadBinary(b)
		return res(l, err)
	case c03ReadString:
		_, l, err := x.ReadString(b)
		return res(l, err)
	case c03ReadFieldBegin:
		_, _, l, err := x.ReadFieldBegin(b)
		return res(l, err)
	case c03ReadMapBegin:
		_, _, _, l, err := x.ReadMapBegin(b)
		return res(l, err)
	case c03ReadListBegin:
		_, _, l, err := x.ReadListBegin(b)
		return res(l, err)
	case c03ReadSetBegin:
		_, _, l, err := x.ReadSetBegin(b)
		return res(l, err)
	case c03ReadMessageBegin:
		_, _, _, l, err := x.ReadMessageBegin(b)
		return res(l, err)
	case c03Skip:
		l, err := x.Skip(b, thrift.TType(t))
		return res(l, err)
	case c03BytesSkip:
		d := thrift.NewBytesSkipDecoder(b)
		r, err := d.Next(thrift.TType(t))
		n := len(r)
		d.Release()
		return res(n, err)
	case c03Base:
		l, err := (&base.Base{}).FastRead(b)
		return res(l, err)
	case c03BaseResp:
		l, err := (&base.BaseResp{}).FastRead(b)
		return res(l, err)
	case c03AppEx:
		l, err := thrift.NewApplicationException(0, "").FastRead(b)
		return res(l, err)
	case c03Unmarshal:
		_, _, err := thrift.UnmarshalFastMsg(b, &base.Base{})
		if _, isEx := err.(*thrift.ApplicationException); isEx {
			// an EXCEPTION-typed message is surfaced as an error value by design: a successful decode
			return Ls(I(0), I(-1), I(1))
		}
		return res(-1, err)
	case c03UnmarshalEx:
		_, _, err := thrift.UnmarshalFastMsg(b, thrift.NewApplicationException(0, ""))
		if _, isEx := err.(*thrift.ApplicationException); isEx {
			return Ls(I(0), I(-1), I(1))
		}
		return res(-1, err)
	case c03Unknown:
		_, err := unknownfields.ConvertUnknownFields(b)
		return res(-1, err)
	case c03TTHeader:
		p, err := ttheader.DecodeFromBytes(context.Background(), b)
		return res(p.HeaderLen, err)
	}
	panic("c03: unknown entry")
}

// ---- encoders with structural marks --------------------------------------------------------

type c03Mark struct {
	pos  int
	kind byte // 't' type tag, 's' size byte (hi..lo: idx 0..3), 'i' field id byte, 'l' string length byte
	idx  int
}
type c03Enc struct {
	b     []byte
	marks []c03Mark
}

func (e *c03Enc) tag(t byte) {
	e.marks = append(e.marks, c03Mark{len(e.b), 't', 0})
	e.b = append(e.b, t)
}
func (e *c03Enc) u32(v uint32, kind byte) {
	for k := 0; k < 4; k++ {
		e.marks = append(e.marks, c03Mark{len(e.b), kind, k})
		e.b = append(e.b, byte(v>>(24-8*k)))
	}
}
func (e *c03Enc) id(v int16) {
	e.marks = append(e.marks, c03Mark{len(e.b), 'i', 0}, c03Mark{len(e.b) + 1, 'i', 1})
	e.b = append(e.b, byte(uint16(v)>>8), byte(v))
}
func (e *c03Enc) str(r *rand.Rand, n int) {
	e.u32(uint32(n), 'l')
	for k := 0; k < n; k++ {
		e.b = append(e.b, byte(r.Intn(256)))
	}
}

var c03Types = []byte{2, 3, 4, 6, 8, 10, 11, 12, 13, 14, 15}

func c03RandType(r *rand.Rand, depth int) byte {
	if depth <= 0 {
		return c03Types[r.Intn(7)]
	}
	return c03Types[r.Intn(len(c03Types))]
}

// value of type t, nesting budget depth
func (e *c03Enc) value(r *rand.Rand, t byte, depth int) {
	switch t {
	case 2:
		e.b = append(e.b, byte(r.Intn(2)))
	case 3:
		e.b = append(e.b, byte(r.Intn(256)))
	case 6:
		e.b = append(e.b, byte(r.Intn(256)), byte(r.Intn(256)))
	case 8:
		for k := 0; k < 4; k++ {
			e.b = append(e.b, byte(r.Intn(256)))
		}
	case 4, 10:
		for k := 0; k < 8; k++ {
			e.b = append(e.b, byte(r.Intn(256)))
		}
	case 11:
		e.str(r, []int{0, 1, 2, 5, 17}[r.Intn(5)])
	case 12:
		n := r.Intn(4)
		for k := 0; k < n; k++ {
			ft := c03RandType(r, depth-1)
			e.tag(ft)
			e.id(int16(r.Intn(1 << 16)))
			e.value(r, ft, depth-1)
		}
		e.tag(0)
	case 13:
		kt, vt := c03RandType(r, depth-1), c03RandType(r, depth-1)
		n := r.Intn(4)
		e.tag(kt)
		e.tag(vt)
		e.u32(uint32(n), 's')
		for k := 0; k < n; k++ {
			e.value(r, kt, depth-1)
			e.value(r, vt, depth-1)
		}
	case 14, 15:
		et := c03RandType(r, depth-1)
		n := r.Intn(4)
		e.tag(et)
		e.u32(uint32(n), 's')
		for k := 0; k < n; k++ {
			e.value(r, et, depth-1)
		}
	}
}

// a struct body: known fields of the shipped structs (ids 1,2,3,6 with their types) mixed with unknown ones
func (e *c03Enc) structBody(r *rand.Rand, which int) {
	n := r.Intn(6)
	for k := 0; k < n; k++ {
		switch r.Intn(7) {
		case 0, 1:
			id := int16(1 + r.Intn(3))
			e.tag(11)
			e.id(id)
			e.str(r, r.Intn(9))
		case 2:
			e.tag(8)
			e.id(2)
			e.value(r, 8, 0)
		case 3:
			mid := int16(6)
			if which == c03BaseResp {
				mid = 3
			}
			m := r.Intn(3)
			e.tag(13)
			e.id(mid)
			e.tag(11)
			e.tag(11)
			e.u32(uint32(m), 's')
			for j := 0; j < 2*m; j++ {
				e.str(r, r.Intn(5))
			}
		default:
			ft := c03RandType(r, 2)
			e.tag(ft)
			e.id(int16(r.Intn(9)))
			e.value(r, ft, 2)
		}
	}
	e.tag(0)
}

func (e *c03Enc) message(r *rand.Rand, typ int) {
	e.u32(0x80010000|uint32(typ), 'v')
	e.str(r, r.Intn(7))
	e.u32(r.Uint32(), 'q')
}

// a TTHeader frame (own encoder; layout per the protocol documentation)
func c03Frame(r *rand.Rand) *c03Enc {
	e := &c03Enc{}
	info := &c03Enc{}
	info.tag([]byte{0, 2, 3, 4, 1}[r.Intn(5)]) // protocol id
	nt := r.Intn(3)
	info.tag(byte(nt))
	for k := 0; k < nt; k++ {
		info.b = append(info.b, byte(r.Intn(4)))
	}
	nsec := r.Intn(4)
	for s := 0; s < nsec; s++ {
		kind := []byte{1, 16, 17, 0}[r.Intn(4)]
		info.tag(kind)
		switch kind {
		case 1, 16:
			n := r.Intn(3)
			info.marks = append(info.marks, c03Mark{len(info.b), 's', 2}, c03Mark{len(info.b) + 1, 's', 3})
			info.b = append(info.b, 0, byte(n))
			for k := 0; k < n; k++ {
				if kind == 16 {
					info.b = append(info.b, 0, byte(r.Intn(30)))
				} else {
					l := r.Intn(4)
					info.marks = append(info.marks, c03Mark{len(info.b), 'l', 2}, c03Mark{len(info.b) + 1, 'l', 3})
					info.b = append(info.b, 0, byte(l))
					for j := 0; j < l; j++ {
						info.b = append(info.b, byte('a'+r.Intn(26)))
					}
				}
				l := r.Intn(5)
				info.marks = append(info.marks, c03Mark{len(info.b), 'l', 2}, c03Mark{len(info.b) + 1, 'l', 3})
				info.b = append(info.b, 0, byte(l))
				for j := 0; j < l; j++ {
					info.b = append(info.b, byte(r.Intn(256)))
				}
			}
		case 17:
			l := r.Intn(5)
			info.marks = append(info.marks, c03Mark{len(info.b), 'l', 2}, c03Mark{len(info.b) + 1, 'l', 3})
			info.b = append(info.b, 0, byte(l))
			for j := 0; j < l; j++ {
				info.b = append(info.b, byte(r.Intn(256)))
			}
		}
	}
	for len(info.b)%4 != 0 {
		info.b = append(info.b, 0)
	}
	payload := r.Intn(6)
	total := 10 + len(info.b) + payload
	e.u32(uint32(total), 'L')
	e.marks = append(e.marks, c03Mark{len(e.b), 'm', 0}, c03Mark{len(e.b) + 1, 'm', 1})
	e.b = append(e.b, 0x10, 0x00)
	e.b = append(e.b, byte(r.Intn(256)), byte(r.Intn(256))) // flags
	e.u32(r.Uint32(), 'q')
	e.marks = append(e.marks, c03Mark{len(e.b), 'z', 0}, c03Mark{len(e.b) + 1, 'z', 1})
	e.b = append(e.b, byte(len(info.b)/4>>8), byte(len(info.b)/4))
	off := len(e.b)
	for _, m := range info.marks {
		e.marks = append(e.marks, c03Mark{m.pos + off, m.kind, m.idx})
	}
	e.b = append(e.b, info.b...)
	for k := 0; k < payload; k++ {
		e.b = append(e.b, byte(r.Intn(256)))
	}
	return e
}

// valid encoding for an entry point (with marks); returns the type byte to request for skip entries
func c03Valid(r *rand.Rand, entry int) (*c03Enc, byte) {
	e := &c03Enc{}
	switch entry {
	case c03Skip, c03BytesSkip:
		t := c03RandType(r, 3)
		e.value(r, t, 3)
		return e, t
	case c03Base, c03BaseResp, c03AppEx:
		e.structBody(r, entry)
	case c03Unmarshal:
		e.message(r, []int{1, 2, 3, 4, 1}[r.Intn(5)])
		e.structBody(r, c03Base)
	case c03UnmarshalEx:
		e.message(r, []int{1, 3, 3}[r.Intn(3)])
		e.structBody(r, c03AppEx)
	case c03Unknown:
		n := 1 + r.Intn(4)
		for k := 0; k < n; k++ {
			ft := c03RandType(r, 3)
			e.tag(ft)
			e.id(int16(r.Intn(1 << 16)))
			e.value(r, ft, 3)
		}
	case c03TTHeader:
		return c03Frame(r), 0
	case c03ReadMessageBegin:
		e.message(r, r.Intn(5))
	case c03ReadBinary, c03ReadString:
		e.str(r, r.Intn(12))
	case c03ReadFieldBegin:
		e.tag(c03RandType(r, 1))
		e.id(int16(r.Intn(1 << 16)))
	case c03ReadMapBegin:
		e.tag(c03RandType(r, 1))
		e.tag(c03RandType(r, 1))
		e.u32(uint32(r.Intn(9)), 's')
	case c03ReadListBegin, c03ReadSetBegin:
		e.tag(c03RandType(r, 1))
		e.u32(uint32(r.Intn(9)), 's')
	default:
		for k := 0; k < 8; k++ {
			e.b = append(e.b, byte(r.Intn(256)))
		}
	}
	return e, 0
}

var c03Alphabet = []byte{0, 1, 2, 3, 4, 6, 8, 10, 11, 12, 13, 14, 15, 16, 0x7f, 0x80, 0xff}
var c03Subst = []byte{0x00, 0x01, 0x02, 0x0b, 0x0c, 0x0d, 0x0e, 0x0f, 0x10, 0x7f, 0x80, 0xff}

func c03Allocating(entry int) bool {
	return entry == c03Base || entry == c03BaseResp || entry == c03Unmarshal || entry == c03Unknown
}

func init() {
	allEntries := append(append([]int{}, c03Scalars...), c03Skip, c03BytesSkip, c03Base, c03BaseResp, c03AppEx,
		c03Unmarshal, c03UnmarshalEx, c03Unknown, c03TTHeader)
	register("C03", &Prop{
		Isolate: true,
		Gen: func(g *Gen) {
			add := func(class string, entry int, t byte, b []byte) {
				g.Add(class, Ls(I(entry), I(int(t)), Bs(b)))
			}
			// 1. exhaustive: empty and 1-byte strings over the full alphabet, every entry; skip entries × all 256 types
			for _, en := range allEntries {
				add("exh1", en, 0, nil)
				for v := 0; v < 256; v++ {
					add("exh1", en, 0, []byte{byte(v)})
				}
			}
			for _, en := range []int{c03Skip, c03BytesSkip} {
				for t := 0; t < 256; t++ {
					add("exh-type", en, byte(t), nil)
					for _, v := range c03Alphabet {
						add("exh-type", en, byte(t), []byte{v})
						add("exh-type", en, byte(t), []byte{v, 0, 0, 0, 1, v, 0})
					}
					add("exh-type", en, byte(t), []byte{1, 2, 3, 4})
					add("exh-type", en, byte(t), []byte{1, 2, 3, 4, 5, 6, 7, 8, 9})
				}
			}
			// 2. bounded-exhaustive over the grammar alphabet
			maxLen := g.Scale(3, 4)
			var rec func(prefix []byte)
			rec = func(prefix []byte) {
				if len(prefix) >= 2 {
					for _, en := range []int{c03Skip, c03BytesSkip} {
						for _, t := range []byte{11, 12, 13, 14, 15} {
							add("exh-alpha", en, t, prefix)
						}
					}
					for _, en := range []int{c03Base, c03AppEx, c03Unknown, c03ReadFieldBegin, c03ReadString} {
						add("exh-alpha", en, 0, prefix)
					}
				}
				if len(prefix) == maxLen {
					return
				}
				for _, v := range c03Alphabet {
					rec(append(append([]byte{}, prefix...), v))
				}
			}
			rec(nil)
			// 3. structured: valid encodings, every truncation point, structural-byte substitution, splices
			nvalid := g.Scale(40, 400)
			for _, en := range allEntries {
				for k := 0; k < nvalid; k++ {
					e, t := c03Valid(g.R, en)
					add("valid", en, t, e.b)
					if k%4 == 0 || len(e.b) <= 24 {
						for cut := 0; cut < len(e.b); cut++ {
							add("truncate", en, t, e.b[:cut])
						}
					} else {
						for j := 0; j < 6; j++ {
							add("truncate", en, t, e.b[:g.R.Intn(len(e.b)+1)])
						}
					}
					for mi, m := range e.marks {
						if k%3 != 0 && mi%5 != k%5 {
							continue
						}
						if c03Allocating(en) && m.kind == 's' && m.idx < 2 {
							continue // keep declared sizes under the cap where the size is allocated
						}
						for _, v := range c03Subst {
							if v == e.b[m.pos] {
								continue
							}
							mb := append([]byte{}, e.b...)
							mb[m.pos] = v
							add("subst-"+string(m.kind), en, t, mb)
						}
					}
					// trailing bytes
					add("trailing", en, t, append(append([]byte{}, e.b...), byte(g.R.Intn(256)), 0, 0xff))
					// splice with another valid encoding
					e2, _ := c03Valid(g.R, en)
					if len(e.b) > 0 && len(e2.b) > 0 {
						c1, c2 := g.R.Intn(len(e.b)+1), g.R.Intn(len(e2.b)+1)
						add("splice", en, t, append(append([]byte{}, e.b[:c1]...), e2.b[c2:]...))
					}
				}
			}
			// 4. hostile sizes on non-allocating entry points
			for _, en := range []int{c03Skip, c03BytesSkip} {
				for _, sz := range []uint32{0x7fffffff, 0x80000000, 0xffffffff, 0x10000, 0x7ffffff0} {
					for _, et := range []byte{2, 3, 6, 8, 10, 11, 12, 0, 0x80} {
						hdr := []byte{et, byte(sz >> 24), byte(sz >> 16), byte(sz >> 8), byte(sz)}
						add("hostile-size", en, 15, hdr)
						add("hostile-size", en, 14, append(append([]byte{}, hdr...), 1, 2, 3))
						add("hostile-size", en, 13, append([]byte{et}, hdr...))
						add("hostile-size", en, 13, append([]byte{11}, append(hdr, 0, 0, 0, 1, 0x61)...))
					}
					add("hostile-size", en, 11, []byte{byte(sz >> 24), byte(sz >> 16), byte(sz >> 8), byte(sz), 1, 2})
				}
			}
			for _, en := range []int{c03ReadString, c03ReadBinary, c03AppEx, c03ReadMessageBegin} {
				for _, sz := range []uint32{0x7fffffff, 0x80000000, 0xffffffff} {
					s := []byte{byte(sz >> 24), byte(sz >> 16), byte(sz >> 8), byte(sz), 1, 2}
					switch en {
					case c03AppEx:
						add("hostile-size", en, 0, append([]byte{11, 0, 1}, s...))
						add("hostile-size", en, 0, append([]byte{11, 0, 9}, s...))
					case c03ReadMessageBegin:
						add("hostile-size", en, 0, append([]byte{0x80, 1, 0, 1}, s...))
					default:
						add("hostile-size", en, 0, s)
					}
				}
			}
			// 5. deep nesting (the recursion limit) on the skip entries and unknown-field conversion
			for _, depth := range []int{1, 2, 62, 63, 64, 65, 66, 100, 300} {
				for _, kind := range []byte{12, 15, 13} {
					var b []byte
					for d := 0; d < depth; d++ {
						switch kind {
						case 12:
							b = append(b, 12, 0, 1)
						case 15:
							b = append(b, 15, 0, 0, 0, 1)
						case 13:
							b = append(b, 8, 13, 0, 0, 0, 1, 0, 0, 0, 7)
						}
					}
					var tail []byte
					switch kind {
					case 12:
						tail = make([]byte, depth+1) // STOPs
					case 15:
						tail = []byte{8, 0, 0, 0, 0}
					case 13:
						tail = []byte{8, 8, 0, 0, 0, 0}
					}
					full := append(append([]byte{}, b...), tail...)
					for _, en := range []int{c03Skip, c03BytesSkip} {
						add("deep", en, kind, full)
						add("deep", en, kind, full[:len(full)-1])
					}
					if depth <= 100 {
						fld := append([]byte{kind, 0, 5}, full...)
						add("deep", c03Unknown, 0, fld)
						add("deep", c03Base, 0, append(append([]byte{}, fld...), 0))
					}
				}
			}
			// 6. random bytes
			nr := g.Scale(60, 2000)
			for _, en := range allEntries {
				for k := 0; k < nr; k++ {
					n := g.R.Intn(40)
					b := make([]byte, n)
					for j := range b {
						if g.R.Intn(3) == 0 {
							b[j] = byte(g.R.Intn(256))
						} else {
							b[j] = c03Alphabet[g.R.Intn(len(c03Alphabet))]
						}
					}
					add("random", en, byte(g.R.Intn(256)), b)
				}
			}
		},
		Run: func(in V) V {
			a := AsList(in)
			return c03Run(AsInt(a[0]), byte(AsInt(a[1])), AsBytes(a[2]))
		},
	})
}
