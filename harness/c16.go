package main

import (
	"encoding/binary"
	"errors"
	"io"
	"reflect"
	"unsafe"

	"github.com/cloudwego/gopkg/bufiox"
	"github.com/cloudwego/gopkg/protocol/thrift"
)

// C16 — decoded values are independent of the input buffer and of the allocator configuration.
// Case format: see coq/Corr/C16.v.
//
// The span allocator of package thrift is global state: a case sets SetSpanCache for its own
// duration and resets it to false afterwards; the bump pointers persist from case to case (so
// the spans wrap naturally during a run) and every case reports the state it started from.

var c16ErrInjected = errors.New("verif: injected source error (c16)")

// scripted source: exactly Model/BufReader.v src_read
type c16Src struct {
	data   []byte
	final  error
	with   bool
	chunks []int
	pos    int
	failed bool
}

func (s *c16Src) Read(p []byte) (int, error) {
	room := len(p)
	c := room
	if len(s.chunks) > 0 {
		c = s.chunks[0]
		s.chunks = s.chunks[1:]
	}
	if s.failed { // read again after the source reported its error: a reader that latched it never gets here
		return 0, c04ErrReadAfterError
	}
	remaining := len(s.data) - s.pos
	if remaining == 0 {
		s.failed = s.final != nil
		return 0, s.final
	}
	m := c
	if room < m {
		m = room
	}
	if remaining < m {
		m = remaining
	}
	copy(p, s.data[s.pos:s.pos+m])
	s.pos += m
	if s.with && m == remaining && m != 0 {
		s.failed = s.final != nil
		return m, s.final
	}
	return m, nil
}

// one size class of the span cache, observed by reflection (field names of lang/span.span)
type c16Class struct {
	read, size uint32
	base       uintptr
	bcap       int
	lockp      *uint32
	readp      *uint32
}

func c16State() []c16Class {
	v := reflect.ValueOf(thrift.VerifSpanCache()).Elem().FieldByName("spans")
	out := make([]c16Class, v.Len())
	for i := range out {
		sp := v.Index(i).Elem()
		buf := sp.FieldByName("buffer")
		out[i] = c16Class{
			read:  uint32(sp.FieldByName("read").Uint()),
			size:  uint32(sp.FieldByName("size").Uint()),
			base:  buf.Pointer(),
			bcap:  buf.Cap(),
			lockp: (*uint32)(unsafe.Pointer(sp.FieldByName("lock").UnsafeAddr())),
			readp: (*uint32)(unsafe.Pointer(sp.FieldByName("read").UnsafeAddr())),
		}
	}
	return out
}

type c16Res struct {
	ok, isbin, fixture    bool
	b                     []byte
	s                     string
	ptr                   uintptr
	ln, cp                int
	want                  []byte
	insp, cls, ord, off, l int
	errOut                V
	bits, moved           int
}

func (r *c16Res) cur() string {
	if r.isbin {
		return string(r.b)
	}
	return r.s
}

func c16Want(buf []byte) []byte {
	if len(buf) < 4 {
		return nil
	}
	sz := int32(binary.BigEndian.Uint32(buf))
	if sz < 0 || 4+int(sz) > len(buf) {
		return nil
	}
	return append([]byte{}, buf[4:4+int(sz)]...)
}

func c16ErrOut(err error) V {
	switch {
	case errors.Is(err, io.EOF):
		return Ls(I(2), I(20))
	case errors.Is(err, c16ErrInjected):
		return Ls(I(2), I(21))
	case errors.Is(err, io.ErrNoProgress):
		return Ls(I(2), I(22))
	}
	var pe *thrift.ProtocolException
	if errors.As(err, &pe) && pe.Unwrap() == nil {
		return Ls(I(1), I(int(pe.TypeId())))
	}
	return Ls(I(2), I(99))
}

//go:noinline
func c16OneByte(x byte) []byte { return []byte{x} }

// base address of the Go runtime's read-only table of single-byte strings (string(b) with
// len(b) == 1 points into it instead of allocating); 0 when this runtime has no such table
var c16StaticBase = func() uintptr {
	p := func(x byte) uintptr { s := string(c16OneByte(x)); return uintptr(unsafe.Pointer(unsafe.StringData(s))) }
	b := p(0)
	if p(1) == b+8 && p(255) == b+8*255 && p(0) == b {
		return b
	}
	return 0
}()

func c16Place(r *c16Res, st []c16Class, ord []int) {
	r.insp, r.cls, r.ord, r.off = 0, -1, -1, -1
	if r.cp == 0 {
		return
	}
	if !r.isbin && r.ln == 1 && c16StaticBase != 0 && r.ptr >= c16StaticBase && r.ptr < c16StaticBase+2048 {
		r.insp, r.off = 2, int(r.ptr-c16StaticBase)
		return
	}
	for k, c := range st {
		if c.bcap > 0 && r.ptr >= c.base && r.ptr < c.base+uintptr(c.bcap) {
			r.insp, r.cls, r.ord, r.off = 1, k, ord[k], int(r.ptr-c.base)
			return
		}
	}
}

func c16Run(in V) V {
	a := AsList(in)
	enable, reader, ops := AsInt(a[0]) != 0, AsInt(a[1]), AsList(a[2])
	thrift.SetSpanCache(enable)
	defer thrift.SetSpanCache(false)

	pre := c16State()
	ord := make([]int, len(pre))
	var results []*c16Res
	var inputs [][]byte    // caller-owned input buffers
	var inputWant [][]byte // what they must hold

	observe := func(r *c16Res, before []c16Class) {
		after := c16State()
		for k := range after {
			if after[k].base != before[k].base {
				ord[k]++
			}
		}
		if r.ok {
			if r.isbin {
				r.ln, r.cp = len(r.b), cap(r.b)
				r.ptr = uintptr(unsafe.Pointer(unsafe.SliceData(r.b)))
			} else {
				r.ln, r.cp = len(r.s), len(r.s)
				r.ptr = uintptr(unsafe.Pointer(unsafe.StringData(r.s)))
			}
			c16Place(r, after, ord)
			if r.want != nil && r.cur() == string(r.want) {
				r.bits |= 1
			}
		}
	}

	var src *c16Src
	var rd bufiox.Reader
	var sbr *thrift.BufferReader // the stream reader of this case (recycled in phase A)
	if reader == 0 {
		for _, opv := range ops {
			op := AsList(opv)
			if AsInt(op[0]) == 9 {
				st := c16State()
				*st[AsInt(op[1])].readp = uint32(AsInt(op[2]))
				results = append(results, &c16Res{fixture: true})
				continue
			}
			kind, from, off, cont := AsInt(op[0]), AsInt(op[1]), AsInt(op[2]), AsInt(op[4]) != 0
			var buf []byte
			if from < 0 {
				data := AsBytes(op[3])
				buf = make([]byte, len(data))
				copy(buf, data)
				inputs = append(inputs, buf)
				inputWant = append(inputWant, append([]byte{}, buf...))
			} else {
				buf = results[from].b[off:]
			}
			r := &c16Res{isbin: kind == 0, want: c16Want(buf)}
			before := c16State()
			if cont {
				for _, c := range before {
					*c.lockp = 1
				}
			}
			var err error
			if kind == 0 {
				r.b, r.l, err = thrift.Binary.ReadBinary(buf)
			} else {
				r.s, r.l, err = thrift.Binary.ReadString(buf)
			}
			if cont {
				for _, c := range before {
					*c.lockp = 0
				}
			}
			if err != nil {
				// "results are identical whether the span cache is enabled or disabled" also on the error
				// path: the same input under the opposite setting must give the same value (none), the
				// same reported length and the same error value (an error path allocates nothing, so the
				// span state of the case is not disturbed)
				thrift.SetSpanCache(!enable)
				var tb []byte
				var ts string
				var tl int
				var terr error
				if kind == 0 {
					tb, tl, terr = thrift.Binary.ReadBinary(buf)
				} else {
					ts, tl, terr = thrift.Binary.ReadString(buf)
				}
				thrift.SetSpanCache(enable)
				twin := terr == err && tl == r.l && tb == nil && ts == "" && r.b == nil && r.s == ""
				eo := c16ErrOut(err)
				r.errOut = VL(append(append([]V{}, AsList(eo)...), Bo(twin)))
			} else {
				r.ok = true
			}
			observe(r, before)
			results = append(results, r)
		}
	} else {
		s := AsList(a[3])
		var data []byte
		for _, opv := range ops {
			data = append(data, AsBytes(AsList(opv)[3])...)
		}
		final := io.EOF
		if AsInt(s[0]) == 21 {
			final = c16ErrInjected
		}
		var chunks []int
		for _, c := range AsList(s[2]) {
			chunks = append(chunks, AsInt(c))
		}
		src = &c16Src{data: data, final: final, with: AsInt(s[1]) != 0, chunks: chunks}
		rd = bufiox.NewDefaultReader(src)
		br := thrift.NewBufferReader(rd)
		sbr = br
		// independent sequential parse of the stream for the expected values
		ref := append([]byte{}, data...)
		pos, dead := 0, false
		for _, opv := range ops {
			kind := AsInt(AsList(opv)[0])
			r := &c16Res{isbin: kind == 0, l: -1}
			if !dead {
				r.want = c16Want(ref[pos:])
				switch {
				case r.want != nil:
					pos += 4 + len(r.want)
				case len(ref)-pos >= 4 && int32(binary.BigEndian.Uint32(ref[pos:])) < 0:
					pos += 4 // a negative size field is rejected after its four bytes were consumed
				default:
					dead = true
				}
			}
			before := c16State()
			var err error
			if kind == 0 {
				r.b, err = br.ReadBinary()
			} else {
				r.s, err = br.ReadString()
			}
			if err != nil {
				r.errOut = c16ErrOut(err)
			} else {
				r.ok = true
			}
			observe(r, before)
			results = append(results, r)
		}
	}

	// ---- after the decodes ----
	allSame := func() bool {
		for _, r := range results {
			if r.ok && (r.want == nil || r.cur() != string(r.want)) {
				return false
			}
		}
		for i, b := range inputs {
			if string(b) != string(inputWant[i]) {
				return false
			}
		}
		return true
	}
	for _, r := range results {
		// (a successfully decoded binary is never a nil slice, whatever the allocator setting: the
		// empty value is an allocated empty slice — generated code tells "absent" from "empty" by nil)
		if r.ok && (r.want == nil || r.cur() != string(r.want) || (r.isbin && r.b == nil)) {
			r.bits &^= 1
		}
	}
	// phase A: the caller overwrites / reuses every input buffer
	for i, b := range inputs {
		for j := range b {
			b[j] ^= 0xFF
			inputWant[i][j] ^= 0xFF
		}
	}
	if src != nil {
		for j := range src.data {
			src.data[j] ^= 0xFF
		}
		rd.Release(nil)
		// recycle the reader's buffer memory: a second reader pulls as many 0xEE bytes through bufiox
		junk := make([]byte, len(src.data)+64)
		for j := range junk {
			junk[j] = 0xEE
		}
		rd2 := bufiox.NewDefaultReader(&c16Src{data: junk, final: io.EOF})
		rd2.Next(len(junk))
		rd2.Release(nil)
		// the stream reader object itself goes back to its pool and the next user decodes values of the
		// same sizes with other content: values returned earlier must not live in memory that a pooled
		// reader keeps and hands out again
		if sbr != nil {
			sbr.Recycle()
			var j2 []byte
			cnt := 0
			for _, r := range results {
				if r.ok && r.want != nil {
					j2 = append(j2, byte(len(r.want)>>24), byte(len(r.want)>>16), byte(len(r.want)>>8), byte(len(r.want)))
					for k := 0; k < len(r.want); k++ {
						j2 = append(j2, 0xEE)
					}
					cnt++
				}
			}
			for round := 0; round < 2; round++ {
				rd3 := bufiox.NewDefaultReader(&c16Src{data: append([]byte{}, j2...), final: io.EOF})
				br3 := thrift.NewBufferReader(rd3)
				for k := 0; k < cnt; k++ {
					if k%2 == 0 {
						br3.ReadBinary()
					} else {
						br3.ReadString()
					}
				}
				rd3.Release(nil)
				br3.Recycle()
			}
		}
	}
	for _, r := range results {
		if r.ok && r.want != nil && r.cur() == string(r.want) {
			r.bits |= 2
		}
	}
	// phase B: write through every []byte result
	for _, r := range results {
		if !r.ok {
			continue
		}
		if r.isbin && r.want != nil {
			for j := range r.b {
				r.b[j] ^= 0x5A
				r.want[j] ^= 0x5A
			}
		}
		if allSame() {
			r.bits |= 4
		}
	}
	// phase C: append to every []byte result
	for _, r := range results {
		if !r.ok {
			continue
		}
		r.moved = -1
		if !r.isbin {
			r.bits |= 8 | 16
			continue
		}
		ap := append(r.b, 0xAB, 0xCD)
		if unsafe.SliceData(ap) != unsafe.SliceData(r.b) || cap(r.b) == 0 {
			r.moved = 1
		} else {
			r.moved = 0
		}
		if allSame() {
			r.bits |= 8
		}
		if r.want != nil && string(ap) == string(r.want)+"\xAB\xCD" {
			r.bits |= 16
		}
	}
	// address ranges: results pairwise disjoint, and disjoint from every caller input buffer
	type rng struct{ lo, hi uintptr }
	var rr, ri []rng
	for _, r := range results {
		if r.ok && r.cp > 0 && r.insp != 2 { // the static table is read-only memory: sharing it is not aliasing
			rr = append(rr, rng{r.ptr, r.ptr + uintptr(r.cp)})
		}
	}
	for _, b := range inputs {
		if cap(b) > 0 {
			p := uintptr(unsafe.Pointer(unsafe.SliceData(b)))
			ri = append(ri, rng{p, p + uintptr(cap(b))})
		}
	}
	disjoint := true
	for i, x := range rr {
		for _, y := range rr[i+1:] {
			if x.lo < y.hi && y.lo < x.hi {
				disjoint = false
			}
		}
		for _, y := range ri {
			if x.lo < y.hi && y.lo < x.hi {
				disjoint = false
			}
		}
	}

	post := c16State()
	col := func(st []c16Class, f func(c16Class) int) V {
		var l []V
		for _, c := range st {
			l = append(l, I(f(c)))
		}
		return Ls(l...)
	}
	var outs []V
	for _, r := range results {
		switch {
		case r.fixture:
			outs = append(outs, Ls(I(9)))
		case !r.ok:
			outs = append(outs, r.errOut)
		default:
			outs = append(outs, Ls(I(0), I(r.insp), I(r.cls), I(r.ord), I(r.off), I(r.ln), I(r.cp), I(r.l), I(r.bits), I(r.moved)))
		}
	}
	return Ls(
		Ls(col(pre, func(c c16Class) int { return int(c.read) }), col(pre, func(c c16Class) int { return c.bcap }), col(pre, func(c c16Class) int { return int(c.size) })),
		Ls(outs...),
		Ls(col(post, func(c c16Class) int { return int(c.read) })),
		Ls(Bo(disjoint)),
	)
}

// ---- generator ----
func c16BE(n int) V {
	var b [4]byte
	binary.BigEndian.PutUint32(b[:], uint32(int32(n)))
	return Bs(b[:])
}

// n content bytes: position dependent for short values; for long ones a patterned head and tail
// around a constant run (the model then builds the byte list without arithmetic per byte)
func c16Body(g *Gen, n int) []V {
	if n <= 600 {
		return []V{PatV(g.R.Intn(256), n)}
	}
	return []V{PatV(g.R.Intn(256), 97), Ls(I(2), I(g.R.Intn(256)), I(n-194)), PatV(g.R.Intn(256), 97)}
}

// wire bytes of one value of n bytes; extra trailing bytes follow
func c16Val(g *Gen, n, extra int) V {
	parts := append([]V{I(1), c16BE(n)}, c16Body(g, n)...)
	if extra > 0 {
		parts = append(parts, PatV(g.R.Intn(256), extra))
	}
	return Ls(parts...)
}

func c16Op(kind, from, off int, inb V, cont bool) V {
	return Ls(I(kind), I(from), I(off), inb, Bo(cont))
}

func c16Boundary() []int {
	out := []int{0, 1, 2, 3, 4, 5, 31, 32, 33, 100}
	for k := 7; k <= 17; k++ {
		out = append(out, 1<<k-1, 1<<k, 1<<k+1)
	}
	return out
}

func c16RandSize(g *Gen) int {
	switch g.R.Intn(10) {
	case 0:
		return g.R.Intn(8)
	case 1, 2:
		return g.R.Intn(128)
	case 3, 4, 5:
		b := c16Boundary()
		return b[g.R.Intn(len(b)-2)] // up to 2^17-1... the last two (131072, 131073) are kept for singles
	case 6, 7:
		return 128 + g.R.Intn(4096)
	case 8:
		return 4096 + g.R.Intn(60000)
	default:
		k := 7 + g.R.Intn(10)
		return 1<<k + g.R.Intn(1<<k)
	}
}

func c16Gen(g *Gen) {
	none := Ls()
	both := func(class string, reader int, ops []V, src V) {
		for _, en := range []int{0, 1} {
			g.Add(class, Ls(I(en), I(reader), Ls(ops...), src))
		}
	}
	// 1. single decodes at every class boundary, both kinds, both settings, with and without a lost CAS
	for _, n := range c16Boundary() {
		for kind := 0; kind < 2; kind++ {
			both("single", 0, []V{c16Op(kind, -1, 0, c16Val(g, n, g.R.Intn(3)), false)}, none)
			g.Add("single-contended", Ls(I(1), I(0), Ls(c16Op(kind, -1, 0, c16Val(g, n, 0), true)), none))
		}
	}
	for _, n := range []int{131072, 200000, 1048575, 1048576, 1500000} {
		for kind := 0; kind < 2; kind++ {
			both("single-large", 0, []V{c16Op(kind, -1, 0, c16Val(g, n, 0), false)}, none)
		}
	}
	// malformed inputs: no allocation must happen, the bump pointers stay
	for kind := 0; kind < 2; kind++ {
		for _, inb := range []V{Bs(nil), Bs([]byte{0}), Bs([]byte{0, 0, 1}),
			Bs([]byte{0xff, 0xff, 0xff, 0xff}), Bs([]byte{0x80, 0, 0, 0, 1, 2}),
			Ls(I(1), c16BE(200), PatV(1, 199)), Ls(I(1), c16BE(1), Bs(nil)), Ls(I(1), c16BE(0x7fffffff), PatV(3, 10))} {
			both("malformed", 0, []V{c16Op(kind, -1, 0, inb, false), c16Op(kind, -1, 0, c16Val(g, 300, 0), false)}, none)
		}
	}
	// 2. bump pointer steered to the edges of the span (fixture op), every class
	size := 1 << 20
	for k := 0; k < 10; k++ {
		lo := 128 << k
		for _, n := range []int{lo, lo + lo/2 + 1, 2*lo - 1} {
			for _, rd := range []int{size - n, size - n + 1, size - n - 1, size, size - 1, 0, size - 2*n} {
				kind := g.R.Intn(2)
				g.Add("edge", Ls(I(1), I(0), Ls(
					Ls(I(9), I(k), I(rd)),
					c16Op(kind, -1, 0, c16Val(g, n, 0), false),
					c16Op(1-kind, -1, 0, c16Val(g, n, 1), false),
					c16Op(0, -1, 0, c16Val(g, lo, 0), false)), none))
			}
		}
	}
	// 3. random scripts: mixed classes, nested inputs (a result decoded again), malformed, contended
	nrun := g.Scale(500, 20000)
	for i := 0; i < nrun; i++ {
		var ops []V
		var bins []int // indices of []byte results with an embedded value, and where it starts
		var offs []int
		nops := 2 + g.R.Intn(10)
		for j := 0; j < nops; j++ {
			kind := g.R.Intn(2)
			cont := g.R.Intn(12) == 0
			switch c := g.R.Intn(10); {
			case c == 0: // malformed
				n := 1 + c16RandSize(g)
				var inb V
				switch g.R.Intn(3) {
				case 0:
					inb = Ls(append([]V{I(1), c16BE(n)}, c16Body(g, g.R.Intn(n))...)...)
				case 1:
					inb = Ls(I(1), c16BE(-1-g.R.Intn(1000)), PatV(j, g.R.Intn(8)))
				default:
					inb = Bs(make([]byte, g.R.Intn(4)))
				}
				ops = append(ops, c16Op(kind, -1, 0, inb, cont))
			case c <= 2 && len(bins) > 0: // decode again out of an earlier result
				x := g.R.Intn(len(bins))
				ops = append(ops, c16Op(kind, bins[x], offs[x], none, cont))
			case c <= 4: // a value that embeds another value
				m := c16RandSize(g)
				if m > 40000 {
					m = m % 40000
				}
				pre, post := g.R.Intn(200), g.R.Intn(200)
				parts := append([]V{I(1), c16BE(pre + 4 + m + post), PatV(g.R.Intn(256), pre), c16BE(m)}, c16Body(g, m)...)
				inb := Ls(append(parts, PatV(g.R.Intn(256), post))...)
				ops = append(ops, c16Op(0, -1, 0, inb, cont))
				bins = append(bins, j)
				offs = append(offs, pre)
			default:
				ops = append(ops, c16Op(kind, -1, 0, c16Val(g, c16RandSize(g), g.R.Intn(2)*g.R.Intn(9)), cont))
			}
		}
		both("script", 0, ops, none)
	}
	// 3b. chains: A embeds B embeds C; B is decoded out of result A, C out of result B
	for i := g.Scale(60, 2000); i > 0; i-- {
		m := c16RandSize(g) % 20000
		preB, postB, preA, postA := g.R.Intn(300), g.R.Intn(300), g.R.Intn(300), g.R.Intn(300)
		szB := preB + 4 + m + postB
		pa := append([]V{I(1), c16BE(preA + 4 + szB + postA), PatV(g.R.Intn(256), preA), c16BE(szB),
			PatV(g.R.Intn(256), preB), c16BE(m)}, c16Body(g, m)...)
		inA := Ls(append(pa, PatV(g.R.Intn(256), postB), PatV(g.R.Intn(256), postA))...)
		both("chain", 0, []V{c16Op(0, -1, 0, inA, false), c16Op(0, 0, preA, none, false),
			c16Op(g.R.Intn(2), 1, preB, none, false), c16Op(1, 0, preA, none, false)}, none)
	}
	// 4. long runs that wrap the 1 MiB span of one class several times
	long := func(n, count, jitter int) {
		var ops []V
		for j := 0; j < count; j++ {
			ops = append(ops, c16Op(j%2, -1, 0, c16Val(g, n-g.R.Intn(jitter+1), 0), false))
		}
		g.Add("longrun", Ls(I(1), I(0), Ls(ops...), none))
	}
	long(125000, 30, 3000)
	long(32000, 110, 1000)
	long(8191, 300, 500)
	long(255, 60, 100)
	if g.Thor {
		long(130000, 200, 60000)
		long(2047, 3000, 1000)
		long(255, 20000, 127)
	}
	// 5. stream reader
	nst := g.Scale(350, 15000)
	for i := 0; i < nst; i++ {
		var ops []V
		total := 0
		nops := 1 + g.R.Intn(6)
		for j := 0; j < nops; j++ {
			n := g.R.Intn(300)
			switch g.R.Intn(12) {
			case 0:
				n = c16Boundary()[g.R.Intn(len(c16Boundary())-9)]
			case 1:
				n = 4000 + g.R.Intn(9000)
			}
			inb := c16Val(g, n, 0)
			if g.R.Intn(25) == 0 {
				inb = Ls(I(1), c16BE(-1-g.R.Intn(5)), Bs(nil))
				n = 0
			}
			if j == nops-1 && g.R.Intn(4) == 0 { // stream ends inside the last value
				inb = Ls(append([]V{I(1), c16BE(n + 1 + g.R.Intn(50))}, c16Body(g, n)...)...)
			}
			total += 4 + n
			ops = append(ops, c16Op(g.R.Intn(2), -1, 0, inb, false))
		}
		if g.R.Intn(6) == 0 { // one more decode than values: the source's error surfaces
			ops = append(ops, c16Op(g.R.Intn(2), -1, 0, Bs(nil), false))
		}
		var chunks []V
		if total < 2000 && g.R.Intn(3) == 0 {
			for k := 0; k < total+3; k++ {
				chunks = append(chunks, I(1))
			}
		} else {
			for k := g.R.Intn(8); k > 0; k-- {
				chunks = append(chunks, I(g.R.Intn(total+2)))
			}
		}
		final := 20 + g.R.Intn(2)
		both("stream", 1, ops, Ls(I(final), I(g.R.Intn(2)), Ls(chunks...)))
	}
	// 6. equal neighbours: the same short bytes decoded as binary then as string (and in the other
	//    orders) on one reader; a result must never be shared with, or a view of, an earlier one
	for _, n := range []int{1, 2, 5, 16, 64, 65, 300} {
		for seed := 0; seed < 3; seed++ {
			val := func() V { return Ls(I(1), c16BE(n), PatV(seed*37+n, n)) }
			for _, kinds := range [][]int{{0, 1}, {0, 1, 1, 0}, {1, 0, 1}, {0, 0, 1}} {
				var ops []V
				for _, k := range kinds {
					ops = append(ops, c16Op(k, -1, 0, val(), false))
				}
				both("equal-neighbours", 1, ops, Ls(I(20), I(0), Ls()))
				both("equal-neighbours", 0, ops, none)
			}
		}
	}
	both("stream-large", 1, []V{c16Op(0, -1, 0, c16Val(g, 200000, 0), false), c16Op(1, -1, 0, c16Val(g, 70000, 0), false)}, Ls(I(20), I(0), Ls()))
}

func init() {
	register("C16", &Prop{Gen: c16Gen, Run: c16Run})
}
