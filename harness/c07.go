package main

import (
	"fmt"
	"math/rand"
	"sort"

	"github.com/cloudwego/gopkg/container/strmap"
)

// C07 — read-only string maps answer exactly like a Go map.
//
// history input   (variant (step ...))
//   variant 0 StrMap[int] New()   1 StrMap[string] New()   2 Str2Str NewStr2Str()   3 Str2Str{} zero value
//   step = (kind (key ...) (value ...) (probe ...))
//     kind 0 LoadFromSlice   1 LoadFromMap (keys distinct, lengths equal)   2 no load, probes only
// history output  (stepout ...), stepout = (err len (probe-result ...) items nslots maxchain)
//   err 0 nil / 1 error / 2 panic;  len = Len() (-2 panic)
//   probe-result = (found value): 0 absent (value shown as 0) / 1 found / 2 panic
//   items = ((key value) ...) sorted by key through Item(i) (-2 if a call panicked; () for Str2Str)
//   nslots, maxchain through verif hooks (-1 when the inner map is nil)
//
// sweep input (9 lo count)   output (calcHashtableSlots(lo) ... calcHashtableSlots(lo+count-1)), -1 = panic

type c07inst interface {
	load(kind int, kk []string, vv []V) (err int)
	get(k string) V
	length() int
	items() V
	hooks() (nslots, maxchain int)
}

func c07guard(f func()) (panicked bool) {
	defer func() {
		if r := recover(); r != nil {
			panicked = true
		}
	}()
	f()
	return false
}

func c07ErrCode(err error) int {
	if err != nil {
		return 1
	}
	return 0
}

// ---- StrMap[int] ----
type c07int struct{ m *strmap.StrMap[int] }

func (c *c07int) load(kind int, kk []string, vv []V) (code int) {
	vals := make([]int, len(vv))
	for i, v := range vv {
		vals[i] = AsInt(v)
	}
	if c07guard(func() {
		if kind == 1 {
			mp := make(map[string]int, len(kk))
			for i, k := range kk {
				mp[k] = vals[i]
			}
			code = c07ErrCode(c.m.LoadFromMap(mp))
		} else {
			code = c07ErrCode(c.m.LoadFromSlice(kk, vals))
		}
	}) {
		return 2
	}
	return code
}
func (c *c07int) get(k string) (out V) {
	if c07guard(func() {
		v, ok := c.m.Get(k)
		if ok {
			out = Ls(I(1), I(v))
		} else {
			out = Ls(I(0), I(0))
		}
	}) {
		return Ls(I(2), I(0))
	}
	return out
}
func (c *c07int) length() (n int) {
	if c07guard(func() { n = c.m.Len() }) {
		return -2
	}
	return n
}
func (c *c07int) items() (out V) {
	type kv struct {
		k string
		v int
	}
	var all []kv
	if c07guard(func() {
		for i := 0; i < c.m.Len(); i++ {
			k, v := c.m.Item(i)
			all = append(all, kv{string(append([]byte(nil), k...)), v})
		}
	}) {
		return I(-2)
	}
	sort.Slice(all, func(i, j int) bool { return all[i].k < all[j].k })
	l := make([]V, len(all))
	for i, e := range all {
		l[i] = Ls(Str(e.k), I(e.v))
	}
	return VL(l)
}
func (c *c07int) hooks() (int, int) { return c.m.VerifSlotCount(), c.m.VerifMaxChain() }

// ---- StrMap[string] ----
type c07str struct{ m *strmap.StrMap[string] }

func (c *c07str) load(kind int, kk []string, vv []V) (code int) {
	vals := make([]string, len(vv))
	for i, v := range vv {
		vals[i] = string(AsBytes(v))
	}
	if c07guard(func() {
		if kind == 1 {
			mp := make(map[string]string, len(kk))
			for i, k := range kk {
				mp[k] = vals[i]
			}
			code = c07ErrCode(c.m.LoadFromMap(mp))
		} else {
			code = c07ErrCode(c.m.LoadFromSlice(kk, vals))
		}
	}) {
		return 2
	}
	return code
}
func (c *c07str) get(k string) (out V) {
	if c07guard(func() {
		v, ok := c.m.Get(k)
		if ok {
			out = Ls(I(1), Str(v))
		} else {
			out = Ls(I(0), I(0))
		}
	}) {
		return Ls(I(2), I(0))
	}
	return out
}
func (c *c07str) length() (n int) {
	if c07guard(func() { n = c.m.Len() }) {
		return -2
	}
	return n
}
func (c *c07str) items() (out V) {
	type kv struct{ k, v string }
	var all []kv
	if c07guard(func() {
		for i := 0; i < c.m.Len(); i++ {
			k, v := c.m.Item(i)
			all = append(all, kv{string(append([]byte(nil), k...)), v})
		}
	}) {
		return I(-2)
	}
	sort.Slice(all, func(i, j int) bool { return all[i].k < all[j].k })
	l := make([]V, len(all))
	for i, e := range all {
		l[i] = Ls(Str(e.k), Str(e.v))
	}
	return VL(l)
}
func (c *c07str) hooks() (int, int) { return c.m.VerifSlotCount(), c.m.VerifMaxChain() }

// ---- Str2Str ----
type c07s2s struct{ m *strmap.Str2Str }

func (c *c07s2s) load(kind int, kk []string, vv []V) (code int) {
	vals := make([]string, len(vv))
	for i, v := range vv {
		vals[i] = string(AsBytes(v))
	}
	if c07guard(func() {
		if kind == 1 {
			mp := make(map[string]string, len(kk))
			for i, k := range kk {
				mp[k] = vals[i]
			}
			code = c07ErrCode(c.m.LoadFromMap(mp))
		} else {
			code = c07ErrCode(c.m.LoadFromSlice(kk, vals))
		}
	}) {
		return 2
	}
	return code
}
func (c *c07s2s) get(k string) (out V) {
	if c07guard(func() {
		v, ok := c.m.Get(k)
		if ok {
			out = Ls(I(1), Str(v))
		} else {
			out = Ls(I(0), I(0))
		}
	}) {
		return Ls(I(2), I(0))
	}
	return out
}
func (c *c07s2s) length() (n int) {
	if c07guard(func() { n = c.m.Len() }) {
		return -2
	}
	return n
}
func (c *c07s2s) items() V { return VL(nil) }
func (c *c07s2s) hooks() (int, int) {
	in := c.m.VerifStrMap()
	if in == nil {
		return -1, -1
	}
	return in.VerifSlotCount(), in.VerifMaxChain()
}

func c07run(in V) V {
	a := AsList(in)
	if AsInt(a[0]) == 9 {
		lo, cnt := AsInt(a[1]), AsInt(a[2])
		out := make([]V, cnt)
		for i := 0; i < cnt; i++ {
			out[i] = I(strmap.VerifCalcSlots(lo + i))
		}
		return VL(out)
	}
	var inst c07inst
	switch AsInt(a[0]) {
	case 0:
		inst = &c07int{strmap.New[int]()}
	case 1:
		inst = &c07str{strmap.New[string]()}
	case 2:
		inst = &c07s2s{strmap.NewStr2Str()}
	default:
		inst = &c07s2s{&strmap.Str2Str{}}
	}
	var outs []V
	for _, sv := range AsList(a[1]) {
		s := AsList(sv)
		kind := AsInt(s[0])
		var kk []string
		for _, k := range AsList(s[1]) {
			kk = append(kk, string(AsBytes(k)))
		}
		vv := AsList(s[2])
		code := 0
		if kind != 2 {
			code = inst.load(kind, kk, vv)
		}
		n := inst.length()
		probes := AsList(s[3])
		pr := make([]V, len(probes))
		for i, p := range probes {
			pr[i] = inst.get(string(AsBytes(p)))
		}
		its := inst.items()
		ns, mc := inst.hooks()
		outs = append(outs, Ls(I(code), I(n), VL(pr), its, I(ns), I(mc)))
	}
	return VL(outs)
}

// ---------------- generators ----------------

func c07randBytes(r *rand.Rand, n int) string {
	b := make([]byte, n)
	for i := range b {
		b[i] = byte(r.Intn(256))
	}
	return string(b)
}

func c07randAscii(r *rand.Rand, n int, alpha string) string {
	b := make([]byte, n)
	for i := range b {
		b[i] = alpha[r.Intn(len(alpha))]
	}
	return string(b)
}

// c07keys returns up to n distinct keys of the given shape.
func c07keys(r *rand.Rand, shape, n int) []string {
	seen := map[string]bool{}
	var out []string
	add := func(k string) {
		if !seen[k] && len(out) < n {
			seen[k] = true
			out = append(out, k)
		}
	}
	if n > 0 && r.Intn(3) == 0 {
		add("") // the empty key
	}
	tries := 0
	switch shape {
	case 0: // random binary, lengths 0..24
		for len(out) < n && tries < 20*n+100 {
			add(c07randBytes(r, r.Intn(25)))
			tries++
		}
	case 1: // shared prefix, short distinct tails
		p := c07randBytes(r, 1+r.Intn(40))
		for len(out) < n && tries < 20*n+100 {
			add(p + c07randBytes(r, r.Intn(4)))
			tries++
		}
	case 2: // shared suffix
		p := c07randBytes(r, 1+r.Intn(40))
		for len(out) < n && tries < 20*n+100 {
			add(c07randBytes(r, r.Intn(4)) + p)
			tries++
		}
	case 3: // all prefixes of one string (keys that are prefixes of one another)
		s := c07randBytes(r, n+2)
		for i := 0; i <= len(s) && len(out) < n; i++ {
			add(s[:i])
		}
	case 4: // near-duplicates: one base, single byte / bit changes, same length
		base := []byte(c07randBytes(r, 3+r.Intn(30)))
		add(string(base))
		for len(out) < n && tries < 40*n+100 {
			b := append([]byte(nil), base...)
			i := r.Intn(len(b))
			if r.Intn(2) == 0 {
				b[i] ^= 1 << uint(r.Intn(8))
			} else {
				b[i] = byte(r.Intn(256))
			}
			add(string(b))
			tries++
		}
	case 5: // decimal / identifier-like
		pre := c07randAscii(r, r.Intn(6), "abcXYZ_-.")
		for i := 0; len(out) < n; i++ {
			add(fmt.Sprintf("%s%d", pre, i*(1+r.Intn(3))+r.Intn(2)))
			if i > 4*n+10 {
				break
			}
		}
	case 6: // tiny alphabet, very short: many keys of equal length
		for len(out) < n && tries < 40*n+100 {
			add(c07randAscii(r, r.Intn(5), "ab\x00"))
			tries++
		}
	case 7: // long keys (few of them: the lines carry every key several times)
		if n > 6 {
			n = 6
		}
		for len(out) < n && tries < 20*n+100 {
			add(c07randBytes(r, 200+r.Intn(1300)))
			tries++
		}
	case 8: // runs of one byte (only the length differs), zero bytes
		c := string([]byte{byte(r.Intn(2) * 255)})
		s := ""
		for len(out) < n {
			add(s)
			s += c
		}
	default: // fixed length 20 random (the shape the repository tests use)
		for len(out) < n && tries < 20*n+100 {
			add(c07randBytes(r, 20))
			tries++
		}
	}
	r.Shuffle(len(out), func(i, j int) { out[i], out[j] = out[j], out[i] })
	return out
}

func c07vals(r *rand.Rand, variant, n int) []V {
	vv := make([]V, n)
	for i := range vv {
		if variant == 0 {
			switch r.Intn(6) {
			case 0:
				vv[i] = I(0)
			case 1:
				vv[i] = I64(-1 - r.Int63n(1<<40))
			case 2:
				vv[i] = I64(r.Int63())
			default:
				vv[i] = I(r.Intn(1000))
			}
		} else {
			switch r.Intn(40) {
			case 0, 1, 2, 3, 4:
				vv[i] = Str("")
			case 5:
				vv[i] = Str(c07randBytes(r, 100+r.Intn(900)))
			default:
				vv[i] = Str(c07randBytes(r, r.Intn(12)))
			}
		}
	}
	return vv
}

// c07probes: every key, mutations, prefixes, extensions, the empty string, random strings and
// (to see that a reload forgets) the keys of the previous loads.
func c07probes(r *rand.Rand, kk, prev []string, budget int) []V {
	var out []V
	add := func(s string) { out = append(out, Str(s)) }
	for _, k := range kk {
		add(k)
	}
	add("")
	m := len(kk)
	if m > budget {
		m = budget
	}
	for i := 0; i < m; i++ {
		k := kk[r.Intn(len(kk))]
		if len(k) > 0 {
			b := []byte(k)
			b[r.Intn(len(b))] ^= 1 << uint(r.Intn(8))
			add(string(b))
			add(k[:len(k)-1])
			add(k[1:])
		}
		add(k + string([]byte{byte(r.Intn(256))}))
		add(k + "\x00")
	}
	for i := 0; i < 6; i++ {
		add(c07randBytes(r, r.Intn(25)))
	}
	pm := len(prev)
	if pm > budget {
		pm = budget
	}
	for i := 0; i < pm; i++ {
		add(prev[r.Intn(len(prev))])
	}
	return out
}

func c07strs(kk []string) V {
	l := make([]V, len(kk))
	for i, k := range kk {
		l[i] = Str(k)
	}
	return VL(l)
}

func c07size(g *Gen) int {
	r := g.R
	switch x := r.Intn(100); {
	case x < 12:
		return r.Intn(3) // 0,1,2
	case x < 72:
		return r.Intn(13)
	case x < 95:
		return r.Intn(51)
	case x < 99:
		return 50 + r.Intn(g.Scale(100, 500))
	default:
		return 150 + r.Intn(g.Scale(250, 3000))
	}
}

// one history
func c07history(g *Gen, variant, nsteps int, firstUnloaded bool, sizeOverride int) V {
	r := g.R
	var steps []V
	var prev []string
	loadedOnce := false
	if firstUnloaded {
		steps = append(steps, Ls(I(2), VL(nil), VL(nil), VL(c07probes(r, nil, c07keys(r, 0, 5), 5))))
	}
	for s := 0; s < nsteps; s++ {
		n := c07size(g)
		if sizeOverride >= 0 && s == 0 {
			n = sizeOverride
		}
		if variant >= 2 && n > 400 {
			n = 400 + n/20 // the model's packed store is costlier; keep Str2Str sets moderate
		}
		kk := c07keys(r, r.Intn(10), n)
		vv := c07vals(r, variant, len(kk))
		kind := r.Intn(2)
		x := r.Intn(100)
		mustSucceed := variant == 3 && !loadedOnce // Str2Str{}: see the note in corpus/C07/defects.cases
		switch {
		case x < 12 && !mustSucceed: // failed load: lengths differ
			kind = 0
			switch r.Intn(4) {
			case 0:
				vv = append(vv, c07vals(r, variant, 1+r.Intn(2))...)
			case 1:
				if len(vv) > 0 {
					vv = vv[:len(vv)-1-r.Intn(min(len(vv), 3))]
				} else {
					vv = c07vals(r, variant, 1)
				}
			case 2:
				vv = nil
				if len(kk) == 0 {
					vv = c07vals(r, variant, 1)
				}
			default:
				kk = nil
				if len(vv) == 0 {
					vv = c07vals(r, variant, 2)
				}
			}
		case x < 20: // load of zero keys
			kk, vv = nil, nil
		}
		if len(kk) == len(vv) {
			loadedOnce = true
		}
		budget := 10
		if len(kk) > 100 {
			budget = len(kk) / 8
		}
		probes := c07probes(r, kk, prev, budget)
		steps = append(steps, Ls(I(kind), c07strs(kk), VL(vv), VL(probes)))
		if len(kk) > 0 {
			prev = append(prev, kk...)
		}
	}
	return Ls(I(variant), VL(steps))
}

func init() {
	register("C07", &Prop{
		Gen: func(g *Gen) {
			r := g.R
			// never-loaded and empty instances, every documented constructor
			for variant := 0; variant <= 2; variant++ {
				g.Add("unloaded", c07history(g, variant, 0, true, -1))
				g.Add("unloaded+loads", c07history(g, variant, 2, true, -1))
				g.Add("empty", c07history(g, variant, 1, false, 0))
			}
			// bounded sweep over tiny sizes x shapes x variants (one load, full probing)
			for variant := 0; variant <= 3; variant++ {
				for n := 0; n <= 8; n++ {
					for shape := 0; shape < 10; shape++ {
						kk := c07keys(r, shape, n)
						vv := c07vals(r, variant, len(kk))
						g.Add("tiny", Ls(I(variant), Ls(Ls(I(r.Intn(2)), c07strs(kk), VL(vv), VL(c07probes(r, kk, nil, 8))))))
					}
				}
			}
			// random histories
			n := g.Scale(1200, 40000)
			for i := 0; i < n; i++ {
				variant := r.Intn(4)
				nsteps := 1 + r.Intn(4)
				g.Add(fmt.Sprintf("history/v%d", variant), c07history(g, variant, nsteps, variant != 3 && r.Intn(10) == 0, -1))
			}
			// large key sets (few)
			big := []int{1000, 2000}
			if g.Thor {
				big = []int{1000, 2000, 5000, 10000, 20000}
			}
			for _, sz := range big {
				for variant := 0; variant <= 1; variant++ {
					g.Add("large", c07history(g, variant, 2, false, sz))
				}
			}
			g.Add("large", c07history(g, 2, 2, false, 1000))
			// calcHashtableSlots against the model's [slots]
			top := g.Scale(100000, 1000000)
			for lo := 0; lo <= top; lo += 1000 {
				g.Add("slots/sweep", Ls(I(9), I(lo), I(1000)))
			}
			// around every power of two and every point where floor(4n/3) crosses one
			for k := 0; k <= 60; k++ {
				for _, c := range []int{1 << uint(k), (3 << uint(k)) / 4} {
					lo := c - 32
					if lo < 0 {
						lo = 0
					}
					g.Add("slots/pow2", Ls(I(9), I(lo), I(64)))
				}
			}
		},
		Run: c07run,
	})
}
