package main

import (
	"unsafe"
	"fmt"
	"math/rand"
	"sort"

	"github.com/cloudwego/gopkg/container/strmap"
)

// C07 — read-only string maps answer exactly like a Go map.
//
// history input   (variant (step ...))
//   variant 0 StrMap[int] New()   1 StrMap[string] New()   2 Str2Str NewStr2Str()   3 Str2Str{} zero value
//   variant 5 StrMap[int]{} zero value (never loaded: probes only)
//           4 StrMap[c07rec] New()  (struct values; a value is shown as the integer it was built from,
//             -1 if its fields are no longer consistent with one another)
//   step = (kind (key ...) (value ...) (probe ...))
//     kind 0 LoadFromSlice   1 LoadFromMap (keys distinct, lengths equal)   2 no load, probes only
// history output  (stepout ...), stepout = (err len (probe-result ...) items nslots maxchain)
//   err 0 nil / 1 error / 2 panic;  len = Len() (-2 panic)
//   probe-result = (found value): 0 absent (value shown as 0) / 1 found / 2 panic
//   items = ((key value) ...) sorted by key through Item(i) (-2 if a call panicked; () for Str2Str)
//   nslots, maxchain through verif hooks (-1 when the inner map is nil)
//
// sweep input (9 lo count)   output (calcHashtableSlots(lo) ... calcHashtableSlots(lo+count-1)), -1 = panic
//
// big input   (8 variant n seed shape n2): large key sets are checked HERE, against a Go map, and only
//   a summary goes to the model side (the list-encoded model is quadratic):
//   n distinct keys generated from seed/shape, loaded (seed odd: LoadFromMap), every key probed, as
//   many absent strings (mutations, prefixes, extensions, random) probed, Len and the Item
//   enumeration compared with the map; then the same instance is reloaded with n2 other keys and
//   checked again (the keys of the first load must be gone).
//   output (nmismatch len1 slots1 len2 slots2 maxchain)

type c07inst interface {
	load(kind int, kk []string, vv []V) (err int)
	get(k string) V
	length() int
	items() V
	hooks() (nslots, maxchain int)
}

func c07guard(f func()) (panicked bool) {
	defer func() {
		if r := recover(); r != nil {
			panicked = true
		}
	}()
	f()
	return false
}

func c07ErrCode(err error) int {
	if err != nil {
		return 1
	}
	return 0
}

// ---- StrMap[int] ----
type c07int struct{ m *strmap.StrMap[int] }

func (c *c07int) load(kind int, kk []string, vv []V) (code int) {
	vals := make([]int, len(vv))
	for i, v := range vv {
		vals[i] = AsInt(v)
	}
	if c07guard(func() {
		if kind == 1 {
			mp := make(map[string]int, len(kk))
			for i, k := range kk {
				mp[k] = vals[i]
			}
			code = c07ErrCode(c.m.LoadFromMap(mp))
		} else {
			code = c07ErrCode(c.m.LoadFromSlice(kk, vals))
		}
	}) {
		return 2
	}
	return code
}
func (c *c07int) get(k string) (out V) {
	if c07guard(func() {
		v, ok := c.m.Get(k)
		if ok {
			out = Ls(I(1), I(v))
		} else if v != 0 {
			out = Ls(I(0), I(-1)) // absent must come with the zero value
		} else {
			out = Ls(I(0), I(0))
		}
	}) {
		return Ls(I(2), I(0))
	}
	return out
}
func (c *c07int) length() (n int) {
	if c07guard(func() { n = c.m.Len() }) {
		return -2
	}
	return n
}
func (c *c07int) items() (out V) {
	type kv struct {
		k string
		v int
	}
	var all []kv
	if c07guard(func() {
		for i := 0; i < c.m.Len(); i++ {
			k, v := c.m.Item(i)
			all = append(all, kv{string(append([]byte(nil), k...)), v})
		}
	}) {
		return I(-2)
	}
	sort.Slice(all, func(i, j int) bool { return all[i].k < all[j].k })
	l := make([]V, len(all))
	for i, e := range all {
		l[i] = Ls(Str(e.k), I(e.v))
	}
	return VL(l)
}
func (c *c07int) hooks() (int, int) { return c.m.VerifSlotCount(), c.m.VerifMaxChain() }

// ---- StrMap[string] ----
type c07str struct{ m *strmap.StrMap[string] }

func (c *c07str) load(kind int, kk []string, vv []V) (code int) {
	vals := make([]string, len(vv))
	for i, v := range vv {
		vals[i] = string(AsBytes(v))
	}
	if c07guard(func() {
		if kind == 1 {
			mp := make(map[string]string, len(kk))
			for i, k := range kk {
				mp[k] = vals[i]
			}
			code = c07ErrCode(c.m.LoadFromMap(mp))
		} else {
			code = c07ErrCode(c.m.LoadFromSlice(kk, vals))
		}
	}) {
		return 2
	}
	return code
}
func (c *c07str) get(k string) (out V) {
	if c07guard(func() {
		v, ok := c.m.Get(k)
		if ok {
			out = Ls(I(1), Str(v))
		} else if v != "" {
			out = Ls(I(0), I(-1)) // absent must come with the zero value
		} else {
			out = Ls(I(0), I(0))
		}
	}) {
		return Ls(I(2), I(0))
	}
	return out
}
func (c *c07str) length() (n int) {
	if c07guard(func() { n = c.m.Len() }) {
		return -2
	}
	return n
}
func (c *c07str) items() (out V) {
	type kv struct{ k, v string }
	var all []kv
	if c07guard(func() {
		for i := 0; i < c.m.Len(); i++ {
			k, v := c.m.Item(i)
			all = append(all, kv{string(append([]byte(nil), k...)), v})
		}
	}) {
		return I(-2)
	}
	sort.Slice(all, func(i, j int) bool { return all[i].k < all[j].k })
	l := make([]V, len(all))
	for i, e := range all {
		l[i] = Ls(Str(e.k), Str(e.v))
	}
	return VL(l)
}
func (c *c07str) hooks() (int, int) { return c.m.VerifSlotCount(), c.m.VerifMaxChain() }

// ---- StrMap[struct] ----
type c07rec struct {
	A int64
	B [3]byte
	C uint16
	D bool
}

func c07mkrec(z int) c07rec {
	return c07rec{A: int64(z), B: [3]byte{byte(z), byte(z >> 8), byte(z>>16) ^ 0x5a}, C: uint16(z>>3) ^ 0xa5a5, D: z&1 == 1}
}
func c07recVal(r c07rec) V {
	if r != c07mkrec(int(r.A)) {
		return I(-1)
	}
	return I64(r.A)
}

type c07recm struct{ m *strmap.StrMap[c07rec] }

func (c *c07recm) load(kind int, kk []string, vv []V) (code int) {
	vals := make([]c07rec, len(vv))
	for i, v := range vv {
		vals[i] = c07mkrec(AsInt(v))
	}
	if c07guard(func() {
		if kind == 1 {
			mp := make(map[string]c07rec, len(kk))
			for i, k := range kk {
				mp[k] = vals[i]
			}
			code = c07ErrCode(c.m.LoadFromMap(mp))
		} else {
			code = c07ErrCode(c.m.LoadFromSlice(kk, vals))
		}
	}) {
		return 2
	}
	return code
}
func (c *c07recm) get(k string) (out V) {
	if c07guard(func() {
		v, ok := c.m.Get(k)
		if ok {
			out = Ls(I(1), c07recVal(v))
		} else if v != (c07rec{}) {
			out = Ls(I(0), I(-1)) // absent must come with the zero value
		} else {
			out = Ls(I(0), I(0))
		}
	}) {
		return Ls(I(2), I(0))
	}
	return out
}
func (c *c07recm) length() (n int) {
	if c07guard(func() { n = c.m.Len() }) {
		return -2
	}
	return n
}
func (c *c07recm) items() (out V) {
	type kv struct {
		k string
		v c07rec
	}
	var all []kv
	if c07guard(func() {
		for i := 0; i < c.m.Len(); i++ {
			k, v := c.m.Item(i)
			all = append(all, kv{string(append([]byte(nil), k...)), v})
		}
	}) {
		return I(-2)
	}
	sort.Slice(all, func(i, j int) bool { return all[i].k < all[j].k })
	l := make([]V, len(all))
	for i, e := range all {
		l[i] = Ls(Str(e.k), c07recVal(e.v))
	}
	return VL(l)
}
func (c *c07recm) hooks() (int, int) { return c.m.VerifSlotCount(), c.m.VerifMaxChain() }

// ---- Str2Str ----
type c07s2s struct{ m *strmap.Str2Str }

func (c *c07s2s) load(kind int, kk []string, vv []V) (code int) {
	vals := make([]string, len(vv))
	for i, v := range vv {
		vals[i] = string(AsBytes(v))
	}
	if c07guard(func() {
		if kind == 1 {
			mp := make(map[string]string, len(kk))
			for i, k := range kk {
				mp[k] = vals[i]
			}
			code = c07ErrCode(c.m.LoadFromMap(mp))
		} else {
			code = c07ErrCode(c.m.LoadFromSlice(kk, vals))
		}
	}) {
		return 2
	}
	return code
}
func (c *c07s2s) get(k string) (out V) {
	if c07guard(func() {
		v, ok := c.m.Get(k)
		if ok {
			out = Ls(I(1), Str(v))
		} else if v != "" {
			out = Ls(I(0), I(-1)) // absent must come with the zero value
		} else {
			out = Ls(I(0), I(0))
		}
	}) {
		return Ls(I(2), I(0))
	}
	return out
}
func (c *c07s2s) length() (n int) {
	if c07guard(func() { n = c.m.Len() }) {
		return -2
	}
	return n
}
func (c *c07s2s) items() V { return VL(nil) }
func (c *c07s2s) hooks() (int, int) {
	in := c.m.VerifStrMap()
	if in == nil {
		return -1, -1
	}
	return in.VerifSlotCount(), in.VerifMaxChain()
}

// a load that fails because one key has 2^32 bytes must leave the earlier content as it was
// (variant 0: StrMap[int] via LoadFromSlice, 1: Str2Str)
func c07HugeKey(variant int) bool {
	big := make([]byte, 1<<32) // untouched zero pages
	huge := unsafe.String(&big[0], len(big))
	kk := []string{"a", "bb", "", "dddd"}
	ok := true
	if variant == 0 {
		m := strmap.New[int]()
		ok = ok && m.LoadFromSlice(kk, []int{1, 2, 3, 4}) == nil
		err := m.LoadFromSlice([]string{"x", huge, "y"}, []int{7, 8, 9})
		ok = ok && err != nil && m.Len() == 4
		for i, k := range kk {
			v, has := m.Get(k)
			ok = ok && has && v == i+1
		}
		_, has := m.Get("x")
		return ok && !has
	}
	m := strmap.NewStr2Str()
	vv := []string{"1", "22", "", "4444"}
	ok = ok && m.LoadFromSlice(kk, vv) == nil
	err := m.LoadFromSlice([]string{"x", huge, "y"}, []string{"7", "8", "9"})
	ok = ok && err != nil && m.Len() == 4
	for i, k := range kk {
		v, has := m.Get(k)
		ok = ok && has && v == vv[i]
	}
	_, has := m.Get("x")
	return ok && !has
}

func c07run(in V) V {
	a := AsList(in)
	if AsInt(a[0]) == 8 {
		return c07big(AsInt(a[1]), AsInt(a[2]), AsI64(a[3]), AsInt(a[4]), AsInt(a[5]))
	}
	if AsInt(a[0]) == 10 {
		return Ls(Bo(c07HugeKey(AsInt(a[1]))))
	}
	if AsInt(a[0]) == 9 {
		lo, cnt := AsInt(a[1]), AsInt(a[2])
		out := make([]V, cnt)
		for i := 0; i < cnt; i++ {
			out[i] = I(strmap.VerifCalcSlots(lo + i))
		}
		return VL(out)
	}
	var inst c07inst
	switch AsInt(a[0]) {
	case 0:
		inst = &c07int{strmap.New[int]()}
	case 1:
		inst = &c07str{strmap.New[string]()}
	case 2:
		inst = &c07s2s{strmap.NewStr2Str()}
	case 4:
		inst = &c07recm{strmap.New[c07rec]()}
	case 5:
		inst = &c07int{new(strmap.StrMap[int])} // the zero value, never loaded: only probed
	default:
		inst = &c07s2s{&strmap.Str2Str{}}
	}
	var outs []V
	for _, sv := range AsList(a[1]) {
		s := AsList(sv)
		kind := AsInt(s[0])
		var kk []string
		for _, k := range AsList(s[1]) {
			kk = append(kk, string(AsBytes(k)))
		}
		vv := AsList(s[2])
		code := 0
		if kind != 2 {
			code = inst.load(kind, kk, vv)
		}
		n := inst.length()
		probes := AsList(s[3])
		pr := make([]V, len(probes))
		for i, p := range probes {
			pr[i] = inst.get(string(AsBytes(p)))
		}
		its := inst.items()
		ns, mc := inst.hooks()
		outs = append(outs, Ls(I(code), I(n), VL(pr), its, I(ns), I(mc)))
	}
	return VL(outs)
}


// ---------------- large key sets, checked in Go against a Go map ----------------

// c07bigKeys returns exactly n distinct keys (deterministic in r).
func c07bigKeys(r *rand.Rand, shape, n int, avoid map[string]bool) []string {
	seen := make(map[string]bool, n)
	out := make([]string, 0, n)
	pre := c07randBytes(r, 1+r.Intn(40))
	base := []byte(c07randBytes(r, 48))
	for i := 0; len(out) < n; i++ {
		var k string
		switch shape {
		case 0: // random binary, lengths 0..24
			k = c07randBytes(r, r.Intn(25))
		case 1: // shared prefix, short tails
			k = pre + c07randBytes(r, r.Intn(5))
		case 2: // shared suffix
			k = c07randBytes(r, r.Intn(5)) + pre
		case 3: // decimal / identifier-like
			k = fmt.Sprintf("%s%d", pre[:1], i)
		case 4: // near-duplicates: one base, two bytes changed, same length
			b := append([]byte(nil), base...)
			b[r.Intn(len(b))] = byte(r.Intn(256))
			b[r.Intn(len(b))] ^= 1 << uint(r.Intn(8))
			k = string(b)
		case 5: // all lengths: runs of one byte then a short tail (many keys are prefixes of others)
			k = string(make([]byte, i%300)) + c07randBytes(r, r.Intn(3))
		default: // fixed length 20 random (the shape the repository tests use)
			k = c07randBytes(r, 20)
		}
		if !seen[k] && !avoid[k] {
			seen[k] = true
			out = append(out, k)
		}
	}
	return out
}

func c07big(variant, n int, seed int64, shape, n2 int) V {
	r := rand.New(rand.NewSource(seed))
	mism := 0
	var len1, slots1, len2, slots2, maxchain int
	type inst struct {
		load  func(kk []string, asMap bool) bool // values are derived from the position
		get   func(k string) (int, bool)          // position of the value, found
		size  func() int
		item  func(i int) (string, int)
		hooks func() (int, int)
	}
	val := func(i int) string { return fmt.Sprintf("v%d/%x", i, i*2654435761) }
	var in inst
	switch variant {
	case 0:
		m := strmap.New[int]()
		first0 := true
		in = inst{
			load: func(kk []string, asMap bool) bool {
				vv := make([]int, len(kk))
				for i := range vv {
					vv[i] = i
				}
				if asMap {
					mp := make(map[string]int, len(kk))
					for i, k := range kk {
						mp[k] = i
					}
					if first0 { // the first load goes through the one-step constructors
						first0 = false
						*m = *strmap.NewFromMap(mp)
						return true
					}
					return m.LoadFromMap(mp) == nil
				}
				if first0 {
					first0 = false
					*m = *strmap.NewFromSlice(kk, vv)
					return true
				}
				return m.LoadFromSlice(kk, vv) == nil
			},
			get:   func(k string) (int, bool) { return m.Get(k) },
			size:  m.Len,
			item:  func(i int) (string, int) { return m.Item(i) },
			hooks: func() (int, int) { return m.VerifSlotCount(), m.VerifMaxChain() },
		}
	case 1:
		m := strmap.New[string]()
		var cur []string
		in = inst{
			load: func(kk []string, asMap bool) bool {
				vv := make([]string, len(kk))
				for i := range vv {
					vv[i] = val(i)
				}
				cur = vv
				if asMap {
					mp := make(map[string]string, len(kk))
					for i, k := range kk {
						mp[k] = vv[i]
					}
					return m.LoadFromMap(mp) == nil
				}
				return m.LoadFromSlice(kk, vv) == nil
			},
			get: func(k string) (int, bool) {
				v, ok := m.Get(k)
				if !ok {
					if v != "" {
						return -2, false
					}
					return 0, false
				}
				var i int
				if _, err := fmt.Sscanf(v, "v%d/", &i); err != nil || i < 0 || i >= len(cur) || cur[i] != v {
					return -1, true
				}
				return i, true
			},
			size: m.Len,
			item: func(i int) (string, int) {
				k, v := m.Item(i)
				var j int
				if _, err := fmt.Sscanf(v, "v%d/", &j); err != nil || j < 0 || j >= len(cur) || cur[j] != v {
					return k, -1
				}
				return k, j
			},
			hooks: func() (int, int) { return m.VerifSlotCount(), m.VerifMaxChain() },
		}
	default:
		m := strmap.NewStr2Str()
		first2 := true
		var cur []string
		in = inst{
			load: func(kk []string, asMap bool) bool {
				vv := make([]string, len(kk))
				for i := range vv {
					vv[i] = val(i)
				}
				cur = vv
				if asMap {
					mp := make(map[string]string, len(kk))
					for i, k := range kk {
						mp[k] = vv[i]
					}
					if first2 {
						first2 = false
						*m = *strmap.NewStr2StrFromMap(mp)
						return true
					}
					return m.LoadFromMap(mp) == nil
				}
				if first2 {
					first2 = false
					*m = *strmap.NewStr2StrFromSlice(kk, vv)
					return true
				}
				return m.LoadFromSlice(kk, vv) == nil
			},
			get: func(k string) (int, bool) {
				v, ok := m.Get(k)
				if !ok {
					if v != "" {
						return -2, false
					}
					return 0, false
				}
				var i int
				if _, err := fmt.Sscanf(v, "v%d/", &i); err != nil || i < 0 || i >= len(cur) || cur[i] != v {
					return -1, true
				}
				return i, true
			},
			size:  m.Len,
			item:  nil,
			hooks: func() (int, int) { in := m.VerifStrMap(); return in.VerifSlotCount(), in.VerifMaxChain() },
		}
	}
	round := func(kk, gone []string, asMap bool) {
		ref := make(map[string]int, len(kk))
		for i, k := range kk {
			ref[k] = i
		}
		if !in.load(kk, asMap) {
			mism++
		}
		probe := func(s string) {
			v, ok := in.get(s)
			w, wok := ref[s]
			if ok != wok || (ok && v != w) || (!ok && v != 0) {
				mism++
			}
		}
		for _, k := range kk {
			probe(k)
		}
		for _, k := range gone {
			probe(k)
		}
		probe("")
		for i := 0; i < len(kk); i++ {
			k := kk[r.Intn(len(kk))]
			switch r.Intn(5) {
			case 0:
				if len(k) > 0 {
					b := []byte(k)
					b[r.Intn(len(b))] ^= 1 << uint(r.Intn(8))
					probe(string(b))
				}
			case 1:
				if len(k) > 0 {
					probe(k[:len(k)-1])
					probe(k[1:])
				}
			case 2:
				probe(k + string([]byte{byte(r.Intn(256))}))
			case 3:
				probe(k + "\x00")
			default:
				probe(c07randBytes(r, r.Intn(25)))
			}
		}
		if in.item != nil {
			seen := make(map[string]bool, len(kk))
			for i := 0; i < in.size(); i++ {
				k, v := in.item(i)
				w, ok := ref[k]
				if !ok || v != w || seen[k] {
					mism++
				}
				seen[k] = true
			}
			if len(seen) != len(ref) {
				mism++
			}
		}
	}
	if c07guard(func() {
		kk := c07bigKeys(r, shape, n, nil)
		round(kk, nil, seed&1 == 1)
		len1 = in.size()
		slots1, maxchain = in.hooks()
		first := make(map[string]bool, len(kk))
		for _, k := range kk {
			first[k] = true
		}
		kk2 := c07bigKeys(r, (shape+1+r.Intn(3))%7, n2, first)
		if n2 > 4 { // share some keys with the first load (new values)
			copy(kk2[:n2/4], kk[:min(n2/4, len(kk))])
		}
		round(kk2, kk, seed&2 == 2)
		len2 = in.size()
		slots2, _ = in.hooks()
	}) {
		mism += 1000000
	}
	return Ls(I(mism), I(len1), I(slots1), I(len2), I(slots2), I(maxchain))
}

// ---------------- generators ----------------

func c07randBytes(r *rand.Rand, n int) string {
	b := make([]byte, n)
	for i := range b {
		b[i] = byte(r.Intn(256))
	}
	return string(b)
}

func c07randAscii(r *rand.Rand, n int, alpha string) string {
	b := make([]byte, n)
	for i := range b {
		b[i] = alpha[r.Intn(len(alpha))]
	}
	return string(b)
}

// c07keys returns up to n distinct keys of the given shape.
func c07keys(r *rand.Rand, shape, n int) []string {
	seen := map[string]bool{}
	var out []string
	add := func(k string) {
		if !seen[k] && len(out) < n {
			seen[k] = true
			out = append(out, k)
		}
	}
	if n > 0 && r.Intn(3) == 0 {
		add("") // the empty key
	}
	tries := 0
	switch shape {
	case 0: // random binary, lengths 0..24
		for len(out) < n && tries < 20*n+100 {
			add(c07randBytes(r, r.Intn(25)))
			tries++
		}
	case 1: // shared prefix, short distinct tails
		p := c07randBytes(r, 1+r.Intn(40))
		for len(out) < n && tries < 20*n+100 {
			add(p + c07randBytes(r, r.Intn(4)))
			tries++
		}
	case 2: // shared suffix
		p := c07randBytes(r, 1+r.Intn(40))
		for len(out) < n && tries < 20*n+100 {
			add(c07randBytes(r, r.Intn(4)) + p)
			tries++
		}
	case 3: // all prefixes of one string (keys that are prefixes of one another)
		s := c07randBytes(r, n+2)
		for i := 0; i <= len(s) && len(out) < n; i++ {
			add(s[:i])
		}
	case 4: // near-duplicates: one base, single byte / bit changes, same length
		base := []byte(c07randBytes(r, 3+r.Intn(30)))
		add(string(base))
		for len(out) < n && tries < 40*n+100 {
			b := append([]byte(nil), base...)
			i := r.Intn(len(b))
			if r.Intn(2) == 0 {
				b[i] ^= 1 << uint(r.Intn(8))
			} else {
				b[i] = byte(r.Intn(256))
			}
			add(string(b))
			tries++
		}
	case 5: // decimal / identifier-like
		pre := c07randAscii(r, r.Intn(6), "abcXYZ_-.")
		for i := 0; len(out) < n; i++ {
			add(fmt.Sprintf("%s%d", pre, i*(1+r.Intn(3))+r.Intn(2)))
			if i > 4*n+10 {
				break
			}
		}
	case 6: // tiny alphabet, very short: many keys of equal length
		for len(out) < n && tries < 40*n+100 {
			add(c07randAscii(r, r.Intn(5), "ab\x00"))
			tries++
		}
	case 7: // long keys (few of them: the lines carry every key several times)
		if n > 6 {
			n = 6
		}
		for len(out) < n && tries < 20*n+100 {
			add(c07randBytes(r, 200+r.Intn(1300)))
			tries++
		}
	case 8: // runs of one byte (only the length differs), zero bytes
		c := string([]byte{byte(r.Intn(2) * 255)})
		s := ""
		for len(out) < n {
			add(s)
			s += c
		}
	default: // fixed length 20 random (the shape the repository tests use)
		for len(out) < n && tries < 20*n+100 {
			add(c07randBytes(r, 20))
			tries++
		}
	}
	r.Shuffle(len(out), func(i, j int) { out[i], out[j] = out[j], out[i] })
	return out
}

func c07vals(r *rand.Rand, variant, n int) []V {
	vv := make([]V, n)
	for i := range vv {
		if variant == 0 || variant == 4 || variant == 5 {
			switch r.Intn(6) {
			case 0:
				vv[i] = I(0)
			case 1:
				vv[i] = I64(-1 - r.Int63n(1<<40))
			case 2:
				vv[i] = I64(r.Int63())
			default:
				vv[i] = I(r.Intn(1000))
			}
		} else {
			switch r.Intn(40) {
			case 0, 1, 2, 3, 4:
				vv[i] = Str("")
			case 5:
				vv[i] = Str(c07randBytes(r, 100+r.Intn(900)))
			default:
				vv[i] = Str(c07randBytes(r, r.Intn(12)))
			}
		}
	}
	return vv
}

// c07probes: every key, mutations, prefixes, extensions, the empty string, random strings and
// (to see that a reload forgets) the keys of the previous loads.
func c07probes(r *rand.Rand, kk, prev []string, budget int) []V {
	var out []V
	add := func(s string) { out = append(out, Str(s)) }
	for _, k := range kk {
		add(k)
	}
	add("")
	m := len(kk)
	if m > budget {
		m = budget
	}
	for i := 0; i < m; i++ {
		k := kk[r.Intn(len(kk))]
		if len(k) > 0 {
			b := []byte(k)
			b[r.Intn(len(b))] ^= 1 << uint(r.Intn(8))
			add(string(b))
			add(k[:len(k)-1])
			add(k[1:])
		}
		add(k + string([]byte{byte(r.Intn(256))}))
		add(k + "\x00")
	}
	for i := 0; i < 6; i++ {
		add(c07randBytes(r, r.Intn(25)))
	}
	pm := len(prev)
	if pm > budget {
		pm = budget
	}
	for i := 0; i < pm; i++ {
		add(prev[r.Intn(len(prev))])
	}
	return out
}

func c07strs(kk []string) V {
	l := make([]V, len(kk))
	for i, k := range kk {
		l[i] = Str(k)
	}
	return VL(l)
}

func c07size(g *Gen) int {
	r := g.R
	switch x := r.Intn(1000); {
	case x < 120:
		return r.Intn(3) // 0,1,2
	case x < 700:
		return r.Intn(13)
	case x < 950:
		return r.Intn(51)
	case x < 992:
		return 50 + r.Intn(g.Scale(100, 300))
	default:
		return 150 + r.Intn(g.Scale(250, 600))
	}
}

// one history
func c07history(g *Gen, variant, nsteps int, firstUnloaded bool, sizeOverride int) V {
	r := g.R
	var steps []V
	var prev []string
	if firstUnloaded {
		steps = append(steps, Ls(I(2), VL(nil), VL(nil), VL(c07probes(r, nil, c07keys(r, 0, 5), 5))))
	}
	for s := 0; s < nsteps; s++ {
		n := c07size(g)
		if sizeOverride >= 0 && s == 0 {
			n = sizeOverride
		}
		if (variant == 2 || variant == 3) && n > 300 {
			n = 300 + n/20 // the model's packed store is costlier; keep Str2Str sets moderate
		}
		kk := c07keys(r, r.Intn(10), n)
		vv := c07vals(r, variant, len(kk))
		kind := r.Intn(2)
		x := r.Intn(100)
		switch {
		case x < 12: // failed load: lengths differ
			kind = 0
			switch r.Intn(4) {
			case 0:
				vv = append(vv, c07vals(r, variant, 1+r.Intn(2))...)
			case 1:
				if len(vv) > 0 {
					vv = vv[:len(vv)-1-r.Intn(min(len(vv), 3))]
				} else {
					vv = c07vals(r, variant, 1)
				}
			case 2:
				vv = nil
				if len(kk) == 0 {
					vv = c07vals(r, variant, 1)
				}
			default:
				kk = nil
				if len(vv) == 0 {
					vv = c07vals(r, variant, 2)
				}
			}
		case x < 20: // load of zero keys
			kk, vv = nil, nil
		}
		budget := 10
		if len(kk) > 100 {
			budget = len(kk) / 8
		}
		probes := c07probes(r, kk, prev, budget)
		steps = append(steps, Ls(I(kind), c07strs(kk), VL(vv), VL(probes)))
		if len(kk) > 0 {
			prev = append(prev, kk...)
		}
	}
	return Ls(I(variant), VL(steps))
}

func init() {
	register("C07", &Prop{
		Gen: func(g *Gen) {
			r := g.R
			// never-loaded and empty instances, every documented constructor
			for _, variant := range []int{0, 1, 2, 3, 4} {
				g.Add("unloaded", c07history(g, variant, 0, true, -1))
				g.Add("unloaded+loads", c07history(g, variant, 2, true, -1))
				g.Add("empty", c07history(g, variant, 1, false, 0))
			}
			g.Add("unloaded-zero-value", c07history(g, 5, 0, true, -1))
			// bounded sweep over tiny sizes x shapes x variants (one load, full probing)
			for variant := 0; variant <= 4; variant++ {
				for n := 0; n <= 8; n++ {
					for shape := 0; shape < 10; shape++ {
						kk := c07keys(r, shape, n)
						vv := c07vals(r, variant, len(kk))
						g.Add("tiny", Ls(I(variant), Ls(Ls(I(r.Intn(2)), c07strs(kk), VL(vv), VL(c07probes(r, kk, nil, 8))))))
					}
				}
			}
			// random histories
			n := g.Scale(2500, 8000)
			for i := 0; i < n; i++ {
				variant := r.Intn(5)
				nsteps := 1 + r.Intn(4)
				g.Add(fmt.Sprintf("history/v%d", variant), c07history(g, variant, nsteps, r.Intn(10) == 0, -1))
			}
			// large key sets: checked in Go against a Go map, summary line for the model side
			bigs := []int{1000, 3000, 10000, 30000, 100000}
			reps := g.Scale(2, 8)
			for rep := 0; rep < reps; rep++ {
				for _, sz := range bigs {
					for variant := 0; variant <= 2; variant++ {
						n1 := sz/2 + r.Intn(sz/2+1)
						n2 := r.Intn(sz + sz/2)
						if r.Intn(4) == 0 {
							n2 = r.Intn(40)
						}
						g.Add("big", Ls(I(8), I(variant), I(n1), I64(r.Int63()), I(r.Intn(7)), I(n2)))
					}
				}
			}
			// sizes around the points where the slot count changes (floor(4n/3) crosses a power of two)
			for k := 3; k <= g.Scale(15, 18); k++ {
				c := (3 << uint(k)) / 4
				for d := -1; d <= 1; d++ {
					g.Add("big/edge", Ls(I(8), I(r.Intn(3)), I(c+d), I64(r.Int63()), I(r.Intn(7)), I(c-d)))
				}
			}
			g.Add("huge-key", Ls(I(10), I(0)))
			g.Add("huge-key", Ls(I(10), I(1)))
			// calcHashtableSlots against the model's [slots]
			top := g.Scale(100000, 1000000)
			for lo := 0; lo <= top; lo += 1000 {
				g.Add("slots/sweep", Ls(I(9), I(lo), I(1000)))
			}
			// around every power of two and every point where floor(4n/3) crosses one
			for k := 0; k <= 60; k++ {
				for _, c := range []int{1 << uint(k), (3 << uint(k)) / 4} {
					lo := c - 32
					if lo < 0 {
						lo = 0
					}
					g.Add("slots/pow2", Ls(I(9), I(lo), I(64)))
				}
			}
		},
		Run: c07run,
	})
}
