package main

import (
	"errors"
	"fmt"
	"math"
	"reflect"

	"github.com/cloudwego/gopkg/protocol/thrift"
)

// C18 — exception helpers preserve kind, type id and cause.  Format: see coq/Corr/C18.v.

type c18ForeignP struct { // foreign exception used through a pointer
	t int32
	s string
}

func (f *c18ForeignP) Error() string { return f.s }
func (f *c18ForeignP) TypeId() int32 { return f.t }

type c18ForeignV struct { // foreign exception passed by value (comparable struct)
	t int32
	s string
}

func (f c18ForeignV) Error() string { return f.s }
func (f c18ForeignV) TypeId() int32 { return f.t }

// foreign exceptions that EMBED a library exception (and so inherit every method of it, exported or
// not) while overriding TypeId / Error: to the helpers they are foreign exceptions like any other
type c18ForeignEmbA struct {
	*thrift.ApplicationException
	t int32
	s string
}

func (f *c18ForeignEmbA) Error() string { return f.s }
func (f *c18ForeignEmbA) TypeId() int32 { return f.t }
func (f *c18ForeignEmbA) TypeID() int32 { return f.t }
func (f *c18ForeignEmbA) Msg() string   { return "" }

type c18ForeignEmbT struct {
	*thrift.TransportException
	t int32
	s string
}

func (f *c18ForeignEmbT) Error() string { return f.s }
func (f *c18ForeignEmbT) TypeId() int32 { return f.t }
func (f *c18ForeignEmbT) TypeID() int32 { return f.t }
func (f *c18ForeignEmbT) Msg() string   { return "" }

// an error of a NON-comparable dynamic type (a slice): errors.Is never applies == to it, and == between
// two of them panics.  The backing array always has capacity >= 1 so that each value has an address.
type c18ForeignS []byte

func (f c18ForeignS) Error() string { return string(f) }

// a == b as Go's errors package would evaluate it: false instead of a panic for non-comparable types
func c18Same(a, b error) (eq bool) {
	defer func() {
		if recover() != nil {
			eq = false
		}
	}()
	return a == b
}

// object identity (used to find which object errors.Unwrap returned)
func c18Ident(a, b error) bool {
	if x, ok := a.(c18ForeignS); ok {
		y, ok2 := b.(c18ForeignS)
		return ok2 && reflect.ValueOf(x).Pointer() == reflect.ValueOf(y).Pointer()
	}
	return c18Same(a, b)
}

// errors.Is(a, b): 0/1, or 2 when it panics (it must not)
func c18Is(a, b error) (r V) {
	defer func() {
		if recover() != nil {
			r = I(2)
		}
	}()
	return Bo(errors.Is(a, b))
}

func c18Kind(e error) int {
	switch e.(type) {
	case c18ForeignS:
		return 7
	case *thrift.TransportException:
		return 2
	case *thrift.ProtocolException:
		return 3
	case *thrift.ApplicationException:
		return 4
	case *c18ForeignP, *c18ForeignEmbA, *c18ForeignEmbT:
		return 5
	case c18ForeignV:
		return 6
	}
	switch reflect.TypeOf(e).String() {
	case "*errors.errorString":
		return 0
	case "*fmt.wrapError":
		return 1
	}
	return 9
}

func c18Build(nodes []V) []error {
	var objs []error
	for _, nd := range nodes {
		a := AsList(nd)
		var e error
		switch AsInt(a[0]) {
		case 0:
			e = errors.New(string(AsBytes(a[1])))
		case 1:
			e = fmt.Errorf("%s%w", string(AsBytes(a[1])), objs[AsInt(a[2])])
		case 2:
			e = thrift.NewTransportException(int32(AsInt(a[1])), string(AsBytes(a[2])))
		case 3:
			t, m, j, ov := int32(AsInt(a[1])), string(AsBytes(a[2])), AsInt(a[3]), AsInt(a[4])
			if j < 0 {
				e = thrift.NewProtocolException(t, m)
				break
			}
			if _, isp := objs[j].(*thrift.ProtocolException); isp {
				panic("c18: protocol exception as direct cause of a constructed node")
			}
			pe := thrift.NewProtocolExceptionWithErr(objs[j])
			if ov != 0 { // overwrite t and m through the public FastRead, err is kept
				ae := thrift.NewApplicationException(t, m)
				buf := make([]byte, ae.BLength())
				ae.FastWrite(buf)
				if _, err := pe.FastRead(buf); err != nil {
					panic(err)
				}
			}
			e = pe
		case 4:
			e = thrift.NewApplicationException(int32(AsInt(a[1])), string(AsBytes(a[2])))
		case 5:
			if AsInt(a[1]) == 2 {
				e = &c18ForeignEmbA{thrift.NewApplicationException(6, "embedded"), int32(AsInt(a[2])), string(AsBytes(a[3]))}
			} else if AsInt(a[1]) == 3 {
				e = &c18ForeignEmbT{thrift.NewTransportException(2, "embedded"), int32(AsInt(a[2])), string(AsBytes(a[3]))}
			} else if AsInt(a[1]) != 0 {
				e = c18ForeignV{int32(AsInt(a[2])), string(AsBytes(a[3]))}
			} else {
				e = &c18ForeignP{int32(AsInt(a[2])), string(AsBytes(a[3]))}
			}
		case 6:
			t := AsBytes(a[1])
			b := make([]byte, len(t), len(t)+1)
			copy(b, t)
			e = c18ForeignS(b)
		default:
			panic("c18: bad node")
		}
		objs = append(objs, e)
	}
	return objs
}

func c18Observe(objs []error) V {
	var obs, same, is []V
	for _, e := range objs {
		tid, has := 0, 0
		if x, ok := e.(interface {
			Error() string
			TypeId() int32
		}); ok {
			tid, has = int(x.TypeId()), 1
		}
		msg := ""
		if x, ok := e.(interface{ Msg() string }); ok {
			msg = x.Msg()
		}
		uw := -1
		if u := errors.Unwrap(e); u != nil {
			uw = -2
			for k, o := range objs {
				if c18Ident(o, u) {
					uw = k
					break
				}
			}
		}
		obs = append(obs, Ls(I(c18Kind(e)), I(tid), I(has), Str(msg), Str(e.Error()), I(uw)))
		var rs, ri []V
		for _, o := range objs {
			rs = append(rs, Bo(c18Same(e, o)))
			ri = append(ri, c18Is(e, o))
		}
		same = append(same, Ls(rs...))
		is = append(is, Ls(ri...))
	}
	return Ls(Ls(obs...), Ls(same...), Ls(is...))
}

func init() {
	tids := []int{0, 1, -1, 2, 3, 4, 5, 6, 7, 8, 9, 10, 11, 999, math.MaxInt32, math.MinInt32, math.MaxInt32 - 1, 65536}
	msgs := []string{"", "a", "world", "unknown method", "unknown application exception", "EOF", "\xff\x00%d", "unknown exception type [11]", "hello world"}
	pres := []string{"", "hello ", ": ", "%s%w", "\x00", "unknown "}
	// node with a type id (kinds 2..6 of the model; 5/6 = foreign pointer/value)
	tnode := func(k, t int, m string) V {
		switch k {
		case 2, 4:
			return Ls(I(k), I(t), Str(m))
		case 3:
			return Ls(I(3), I(t), Str(m), I(-1), I(0))
		case 5:
			return Ls(I(5), I(0), I(t), Str(m))
		case 7, 8: // foreign, embedding an application / a transport exception
			return Ls(I(5), I(k-5), I(t), Str(m))
		default:
			return Ls(I(5), I(1), I(t), Str(m))
		}
	}
	hint := func(nodes []V, op V) V {
		h := 0
		o := AsList(op)
		if AsInt(o[0]) == 0 && len(AsBytes(o[1])) == 0 {
			nd := AsList(nodes[AsInt(o[2])])
			if AsInt(nd[0]) == 5 && len(AsBytes(nd[3])) == 0 {
				h = 77
			}
		}
		return Ls(I(h), Ls(nodes...), op)
	}
	register("C18", &Prop{
		Gen: func(g *Gen) {
			pick := func(l []string) string { return l[g.R.Intn(len(l))] }
			// 1. every kind x boundary type ids x messages x prefixes, single object
			for k := 2; k <= 8; k++ {
				for _, t := range tids {
					for _, m := range msgs {
						nodes := []V{tnode(k, t, m)}
						for _, p := range pres {
							if !g.Thor && len(m) > 6 && len(p) > 2 { // quick tier: thin out the long x long corner
								continue
							}
							g.Add("prepend-kind", hint(nodes, Ls(I(0), Str(p), I(0))))
						}
						g.Add("wrap-kind", hint(nodes, Ls(I(1), I(0))))
					}
				}
			}
			for _, m := range msgs {
				for _, p := range pres {
					g.Add("prepend-plain", hint([]V{Ls(I(0), Str(m))}, Ls(I(0), Str(p), I(0))))
					g.Add("prepend-wrapped", hint([]V{Ls(I(0), Str(m)), Ls(I(1), Str(p), I(0))}, Ls(I(0), Str(p), I(1))))
				}
				g.Add("wrap-plain", hint([]V{Ls(I(0), Str(m))}, Ls(I(1), I(0))))
			}
			// non-comparable errors: prepended, wrapped, wrapped twice (two values of the same slice type meet
			// in Is), as the target next to a protocol exception that wraps another one
			for _, m := range msgs {
				on := Ls(I(6), Str(m))
				for _, p := range pres {
					g.Add("prepend-opaque", hint([]V{on}, Ls(I(0), Str(p), I(0))))
				}
				g.Add("wrap-opaque", hint([]V{on}, Ls(I(1), I(0))))
				g.Add("wrap-opaque-2", hint([]V{on, Ls(I(6), Str(m)), Ls(I(3), I(1), Str("x"), I(0), I(0))}, Ls(I(1), I(1))))
				g.Add("wrap-opaque-chain", hint([]V{on, Ls(I(1), Str("ctx: "), I(0)), Ls(I(6), Str("other"))}, Ls(I(1), I(1))))
			}
			g.Add("nil", hint(nil, Ls(I(3), Str("x"))))
			g.Add("nil", hint(nil, Ls(I(3), Str(""))))
			g.Add("nil", hint(nil, Ls(I(4))))
			// 2. populations with chains and look-alikes (same type id / text in different objects)
			st := []int{0, 1, 1, 2, 7, 11, -1, math.MinInt32}
			sm := []string{"", "", "a", "a", "unknown method", "unknown exception type [11]", "xa", "x"}
			n := g.Scale(2500, 120000)
			for c := 0; c < n; c++ {
				var nodes []V
				var isProto []bool
				cnt := 1 + g.R.Intn(5)
				for i := 0; i < cnt; i++ {
					t, m := st[g.R.Intn(len(st))], pick(sm)
					if g.R.Intn(12) == 0 {
						t = int(int32(g.R.Uint32()))
					}
					k := g.R.Intn(9)
					proto := false
					switch {
					case k == 8:
						nodes = append(nodes, Ls(I(6), Str(m)))
					case k == 0:
						nodes = append(nodes, Ls(I(0), Str(m)))
					case k == 1 && i > 0:
						nodes = append(nodes, Ls(I(1), Str(pick([]string{"", "x", "ctx: "})), I(g.R.Intn(i))))
					case k == 2 || k == 4:
						nodes = append(nodes, Ls(I(k), I(t), Str(m)))
					case k == 3 || k == 7 || k == 1:
						j := -1
						if i > 0 && g.R.Intn(4) != 0 {
							j = g.R.Intn(i)
							if isProto[j] {
								j = -1
							}
						}
						nodes = append(nodes, Ls(I(3), I(t), Str(m), I(j), I(g.R.Intn(2))))
						proto = true
					default:
						nodes = append(nodes, Ls(I(5), I(g.R.Intn(4)), I(t), Str(m)))
					}
					isProto = append(isProto, proto)
				}
				var op V
				switch g.R.Intn(5) {
				case 0, 1:
					op = Ls(I(0), Str(pick(pres)), I(g.R.Intn(cnt)))
				case 2, 3:
					op = Ls(I(1), I(g.R.Intn(cnt)))
				default:
					op = Ls(I(2))
				}
				g.Add("population", hint(nodes, op))
			}
		},
		Run: func(in V) V {
			a := AsList(in)
			objs := c18Build(AsList(a[1]))
			op := AsList(a[2])
			var r error
			switch AsInt(op[0]) {
			case 0:
				r = thrift.PrependError(string(AsBytes(op[1])), objs[AsInt(op[2])])
			case 1:
				r = thrift.NewProtocolExceptionWithErr(objs[AsInt(op[1])])
			case 2:
				return c18Observe(objs)
			case 3, 4:
				panicked := func() (p bool) {
					defer func() {
						if recover() != nil {
							p = true
						}
					}()
					if AsInt(op[0]) == 3 {
						r = thrift.PrependError(string(AsBytes(op[1])), nil)
					} else {
						r = thrift.NewProtocolExceptionWithErr(nil)
					}
					return false
				}()
				if panicked {
					return Ls(I(-1))
				}
			default:
				panic("c18: bad op")
			}
			return c18Observe(append(objs, r))
		},
	})
}
