// Package pre121 is REPLACED at build time (go build -overlay; see gen_pre121 in /verif/check) by a copy of
// /repo/unsafex/unsafex_go100.go — the `!go1.21` build variant of unsafex, which the installed toolchain
// never compiles into the library — with its build-constraint line removed and its package clause
// renamed.  This stub only keeps the harness module compiling when no overlay is given.
package pre121

// Generated is true in the overlaid copy.
const Generated = false

func BinaryToString(b []byte) string { panic("pre121: stub, not the copy of unsafex_go100.go") }

func StringToBinary(s string) []byte { panic("pre121: stub, not the copy of unsafex_go100.go") }
