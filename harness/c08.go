package main

// C08 — skippers reject malformed input and agree with the grammar; recursion is bounded.
//
// One case runs the five real skippers on the same bytes:
//   1 thrift.Binary.Skip            (input placed flush against a PROT_NONE guard page)
//   2 thrift.BufferReader.Skip      over bufiox.NewDefaultReader(scripted source)
//   3 thrift.SkipDecoder.Next       over bufiox.NewDefaultReader(scripted source)
//   4 thrift.BytesSkipDecoder.Next
//   5 thrift.ReaderSkipDecoder.Next over the scripted source
// input   (t b chunks with fin depth t2 flags)      see coq/Corr/C08.v
// output  (r1 r2 r3 r4 r5), each a list of call results
//   (9) not run | (0 n eq pos) ok | (1 code typeid) error | (2 xmsg) panic / fault

import (
	"bytes"
	"encoding/binary"
	"errors"
	"fmt"
	"io"
	"strings"
	"syscall"

	"github.com/cloudwego/gopkg/bufiox"
	"github.com/cloudwego/gopkg/protocol/thrift"
)

// ---------- guard page ----------
type c08Guard struct {
	mem  []byte // usable region; the page after it is PROT_NONE
	page int
}

var c08G *c08Guard

func c08NewGuard(usable int) *c08Guard {
	page := syscall.Getpagesize()
	usable = (usable + page - 1) / page * page
	m, err := syscall.Mmap(-1, 0, usable+page, syscall.PROT_READ|syscall.PROT_WRITE, syscall.MAP_ANON|syscall.MAP_PRIVATE)
	if err != nil {
		panic("c08: mmap: " + err.Error())
	}
	if err := syscall.Mprotect(m[usable:], syscall.PROT_NONE); err != nil {
		panic("c08: mprotect: " + err.Error())
	}
	return &c08Guard{mem: m[:usable:usable], page: page}
}

// place copies b so that its last byte is the last accessible byte before the guard page.
func c08Place(b []byte) []byte {
	if c08G == nil {
		c08G = c08NewGuard(1 << 20)
	}
	g := c08G
	if len(b) > len(g.mem) {
		g = c08NewGuard(len(b)) // rare: a dedicated mapping (leaked; a handful per run)
	}
	off := len(g.mem) - len(b)
	dst := g.mem[off:len(g.mem):len(g.mem)]
	copy(dst, b)
	return dst
}

// ---------- scripted source (Model/BufReader.v src_read) ----------
var c08ErrInjected = errors.New("verif: injected source error (c08)")

type c08Src struct {
	data   []byte
	final  error
	with   bool
	chunks []int
	pos    int
}

// Len: how many bytes have ARRIVED so far and not been read (a packet queue's meaning of Len, not
// "everything that will ever come"); nothing in the library may take it for the length of the stream
func (s *c08Src) Len() int {
	if len(s.chunks) > 0 && s.chunks[0] < len(s.data)-s.pos {
		return s.chunks[0]
	}
	return len(s.data) - s.pos
}

func (s *c08Src) Read(p []byte) (int, error) {
	room := len(p)
	c := room
	if len(s.chunks) > 0 {
		c = s.chunks[0]
		s.chunks = s.chunks[1:]
	}
	remaining := len(s.data) - s.pos
	if remaining == 0 {
		return 0, s.final
	}
	m := c
	if room < m {
		m = room
	}
	if remaining < m {
		m = remaining
	}
	copy(p, s.data[s.pos:s.pos+m])
	s.pos += m
	if s.with && m == remaining && m != 0 {
		return m, s.final
	}
	return m, nil
}

func c08Expand(v V) []int {
	var out []int
	for _, it := range AsList(v) {
		if l, ok := it.(VL); ok {
			c, k := AsInt(l[0]), AsInt(l[1])
			for i := 0; i < k; i++ {
				out = append(out, c)
			}
		} else {
			out = append(out, AsInt(it))
		}
	}
	return out
}

// ---------- error classification (code as in Model/Binary.v + BufReader.v; Thrift type id) ----------
type c08TypeIder interface{ TypeId() int32 }

func c08ErrCode(err error) int {
	switch {
	case err == io.EOF:
		return 20
	case err == c08ErrInjected:
		return 21
	case err == io.ErrNoProgress:
		return 22
	}
	if pe, ok := err.(*thrift.ProtocolException); ok {
		if u := pe.Unwrap(); u != nil {
			return 100 + c08ErrCode(u)
		}
		m := pe.Error()
		switch {
		case m == "buffer too short":
			return 16
		case m == "negative size":
			return 17
		case m == "depth limit exceeded":
			return 15
		case strings.HasPrefix(m, "unknown data type"):
			return 18
		}
		return 97
	}
	if err.Error() == "bufiox: negative count" {
		return 23
	}
	return 98
}

func c08Err(err error) V {
	tid := -1
	if te, ok := err.(c08TypeIder); ok {
		tid = int(te.TypeId())
	}
	return Ls(I(1), I(c08ErrCode(err)), I(tid))
}

func c08Ok(n int, eq bool, pos int) V { return Ls(I(0), I(n), Bo(eq), I(pos)) }

// run f, turning a panic or a fault into a (2 msg) result appended to the calls so far
func c08Guarded(f func() VL) (out V) {
	var calls VL
	defer func() {
		if r := recover(); r != nil {
			out = append(calls, Ls(I(2), Str(fmt.Sprint(r))))
		}
	}()
	calls = f()
	return calls
}

func c08Eq(ret, b []byte, base int) bool {
	if base < 0 || base+len(ret) > len(b) {
		return false
	}
	return bytes.Equal(ret, b[base:base+len(ret)])
}

// ---------- which requests would the allocating skippers make? (gating only) ----------
var c08Size = [256]int{2: 1, 3: 1, 4: 8, 6: 2, 8: 4, 10: 8}

// c08Ask walks b like the skippers do and records the largest single request in *max.
// It stops at the first point where the data runs out.  Used only to decide whether the
// allocating skippers may be run on this input.
func c08Ask(b []byte, t byte, depth int, max *uint64, steps *int) (int, bool) {
	ask := func(n uint64) bool {
		if n > *max {
			*max = n
		}
		return n <= uint64(len(b))
	}
	*steps++
	if depth <= 0 || *steps > 1<<16 {
		return 0, false
	}
	if s := c08Size[t]; s > 0 {
		return s, ask(uint64(s))
	}
	switch t {
	case 11:
		if !ask(4) {
			return 0, false
		}
		n := uint64(binary.BigEndian.Uint32(b))
		if n >= 1<<31 {
			return 0, false // sign bit set: every skipper rejects it as negative before asking for anything
		}
		if !ask(4 + n) {
			return 0, false
		}
		return 4 + int(n), true
	case 12:
		i := 0
		for {
			if i >= len(b) {
				return 0, false
			}
			ft := b[i]
			i++
			if ft == 0 {
				return i, true
			}
			if i+2 > len(b) {
				return 0, false
			}
			i += 2
			n, ok := c08Ask(b[i:], ft, depth-1, max, steps)
			if !ok {
				return 0, false
			}
			i += n
		}
	case 13:
		if !ask(6) {
			return 0, false
		}
		kt, vt, c := b[0], b[1], uint64(binary.BigEndian.Uint32(b[2:]))
		if c >= 1<<31 {
			return 0, false // negative count: rejected before any request
		}
		ks, vs := c08Size[kt], c08Size[vt]
		if ks > 0 && vs > 0 {
			n := c * uint64(ks+vs)
			if !ask(6 + n) {
				return 0, false
			}
			return 6 + int(n), true
		}
		i := 6
		for j := uint64(0); j < c; j++ {
			for _, et := range []byte{kt, vt} {
				n, ok := c08Ask(b[i:], et, depth-1, max, steps)
				if !ok {
					return 0, false
				}
				i += n
			}
		}
		return i, true
	case 14, 15:
		if !ask(5) {
			return 0, false
		}
		et, c := b[0], uint64(binary.BigEndian.Uint32(b[1:]))
		if c >= 1<<31 {
			return 0, false // negative count: rejected before any request
		}
		if s := c08Size[et]; s > 0 {
			n := c * uint64(s)
			if !ask(5 + n) {
				return 0, false
			}
			return 5 + int(n), true
		}
		i := 5
		for j := uint64(0); j < c; j++ {
			n, ok := c08Ask(b[i:], et, depth-1, max, steps)
			if !ok {
				return 0, false
			}
			i += n
		}
		return i, true
	}
	return 0, false
}

const c08AllocCap = 1 << 22

func c08MaxAsk(b []byte, t byte) uint64 {
	var max uint64
	steps := 0
	c08Ask(b, t, 80, &max, &steps)
	return max
}

// ---------- Run ----------
// c08RunBig: the >= 2 GiB witnesses of the negative-size finding.  The input is head followed by
// `tail` zero bytes (never materialised on the model side; see Corr/C08.v).  Only skippers that
// work in place are run (bytes-backed bufiox reader: no copy), and returned slices are compared
// by identity, so the zero pages are never touched.
func c08RunBig(a []V) V {
	tb := byte(AsInt(a[0]))
	t := thrift.TType(int8(tb))
	head := AsBytes(a[1])
	tail := AsInt(a[8])
	b := make([]byte, len(head)+tail)
	copy(b, head)
	same := func(ret []byte) bool { return len(ret) == 0 || &ret[0] == &b[0] }
	notRun := VL{Ls(I(9))}
	r1 := c08Guarded(func() VL {
		n, err := thrift.Binary.Skip(b, t)
		if err != nil {
			return VL{c08Err(err)}
		}
		return VL{c08Ok(n, true, n)}
	})
	r2 := c08Guarded(func() VL {
		br := thrift.NewBufferReader(bufiox.NewBytesReader(b))
		if err := br.Skip(t); err != nil {
			return VL{c08Err(err)}
		}
		return VL{c08Ok(int(br.Readn()), true, int(br.Readn()))}
	})
	r3 := c08Guarded(func() VL {
		rd := bufiox.NewBytesReader(b)
		d := thrift.NewSkipDecoder(rd)
		buf, err := d.Next(t)
		if err != nil {
			return VL{c08Err(err)}
		}
		return VL{c08Ok(len(buf), same(buf), rd.ReadLen())}
	})
	r4 := c08Guarded(func() VL {
		d := thrift.NewBytesSkipDecoder(b)
		buf, err := d.Next(t)
		if err != nil {
			return VL{c08Err(err)}
		}
		return VL{c08Ok(len(buf), same(buf), len(buf))}
	})
	b = nil
	return Ls(r1, r2, r3, r4, notRun)
}

func c08Run(in V) V {
	a := AsList(in)
	if len(a) >= 9 {
		return c08RunBig(a)
	}
	tb := byte(AsInt(a[0]))
	t := thrift.TType(int8(tb))
	b := AsBytes(a[1])
	with, finc, depth, t2i := AsBool(a[3]), AsInt(a[4]), AsInt(a[5]), AsInt(a[6])
	fin := io.EOF
	if finc == 21 {
		fin = c08ErrInjected
	}
	mksrc := func() *c08Src {
		return &c08Src{data: b, final: fin, with: with, chunks: c08Expand(a[2])}
	}
	second := t2i >= 0 && depth == 0
	t2 := thrift.TType(int8(byte(t2i)))
	// allocation gating: both calls
	alloc := c08MaxAsk(b, tb) <= c08AllocCap
	if alloc && t2i >= 0 {
		// Where does the second call start?  If the first value is complete and at most 60 levels
		// deep every skipper accepts it, so the second call starts right behind it: bound its
		// requests exactly.  Otherwise it starts wherever the first one failed: bound it over every
		// start offset by the largest 4-byte window scaled by the widest pair (conservative).
		var m1 uint64
		steps := 0
		if n1, ok := c08Ask(b, tb, 60, &m1, &steps); ok {
			if c08MaxAsk(b[n1:], byte(t2i)) > c08AllocCap {
				second = false
			}
		} else {
			var w uint64
			for i := 0; i+4 <= len(b); i++ {
				if x := uint64(binary.BigEndian.Uint32(b[i:])); x > w {
					w = x
				}
			}
			if w*16+8 > c08AllocCap {
				second = false
			}
		}
	}
	notRun := VL{Ls(I(9))}

	// 1. Binary.Skip
	r1 := c08Guarded(func() VL {
		gb := c08Place(b)
		var n int
		var err error
		if depth == 0 {
			n, err = thrift.Binary.Skip(gb, t)
			if n2, err2, pan, ran := skipOnStack(gb, t); ran && (pan || (err == nil) != (err2 == nil) || (err == nil && n2 != n) || (err != nil && err2 != nil && err.Error() != err2.Error())) {
				return VL{Ls(I(-96), I(n2))} // the same bytes on a stack-resident buffer gave another result
			}
		} else {
			if len(gb) == 0 {
				return notRun
			}
			n, err = thrift.VerifSkipDepth(gb, t, depth)
		}
		if err != nil {
			return VL{c08Err(err)}
		}
		return VL{c08Ok(n, true, n)}
	})

	// 2. BufferReader.Skip
	r2 := V(notRun)
	if alloc {
		r2 = c08Guarded(func() VL {
			rd := bufiox.NewDefaultReader(mksrc())
			br := thrift.NewBufferReader(rd)
			var calls VL
			types := []thrift.TType{t}
			if second {
				types = append(types, t2)
			}
			for _, ty := range types {
				before := int(br.Readn())
				var err error
				if depth == 0 {
					err = br.Skip(ty)
				} else {
					err = thrift.VerifBufferReaderSkipDepth(br, ty, depth)
				}
				if err != nil {
					calls = append(calls, c08Err(err))
				} else {
					calls = append(calls, c08Ok(int(br.Readn())-before, true, int(br.Readn())))
				}
			}
			br.Recycle()
			return calls
		})
	}

	// 3. SkipDecoder (Peek-accumulate)
	r3 := V(notRun)
	if alloc {
		r3 = c08Guarded(func() VL {
			rd := bufiox.NewDefaultReader(mksrc())
			d := thrift.NewSkipDecoder(rd)
			var calls VL
			if depth != 0 {
				if err := thrift.NewSkipDecoderTpl(d).Skip(t, depth); err != nil {
					calls = VL{c08Err(err)}
				} else {
					calls = VL{c08Ok(thrift.VerifSkipDecoderRn(d), true, -1)}
				}
				d.Release()
				return calls
			}
			types := []thrift.TType{t}
			if second {
				types = append(types, t2)
			}
			base := 0
			for _, ty := range types {
				buf, err := d.Next(ty)
				if err != nil {
					calls = append(calls, c08Err(err))
				} else {
					calls = append(calls, c08Ok(len(buf), c08Eq(buf, b, base), rd.ReadLen()))
					base += len(buf)
				}
			}
			d.Release()
			return calls
		})
	}

	// 4. BytesSkipDecoder
	r4 := c08Guarded(func() VL {
		d := thrift.NewBytesSkipDecoder(b)
		var calls VL
		if depth != 0 {
			if err := thrift.NewSkipDecoderTpl(d).Skip(t, depth); err != nil {
				calls = VL{c08Err(err)}
			} else {
				n, _ := thrift.VerifBytesSkipDecoderN(d)
				calls = VL{c08Ok(n, true, -1)}
			}
			d.Release()
			return calls
		}
		types := []thrift.TType{t}
		if t2i >= 0 {
			types = append(types, t2)
		}
		base := 0
		for _, ty := range types {
			buf, err := d.Next(ty)
			if err != nil {
				calls = append(calls, c08Err(err))
			} else {
				calls = append(calls, c08Ok(len(buf), c08Eq(buf, b, base), base+len(buf)))
				base += len(buf)
			}
		}
		d.Release()
		return calls
	})

	// 5. ReaderSkipDecoder (ReadFull loop)
	r5 := V(notRun)
	if alloc {
		r5 = c08Guarded(func() VL {
			src := mksrc()
			d := thrift.NewReaderSkipDecoder(src)
			var calls VL
			if depth != 0 {
				if err := thrift.NewSkipDecoderTpl(d).Skip(t, depth); err != nil {
					calls = VL{c08Err(err)}
				} else {
					n, _ := thrift.VerifReaderSkipDecoderN(d)
					calls = VL{c08Ok(n, true, src.pos)}
				}
				d.Release()
				return calls
			}
			types := []thrift.TType{t}
			if second {
				types = append(types, t2)
			}
			base := 0
			for _, ty := range types {
				buf, err := d.Next(ty)
				if err != nil {
					calls = append(calls, c08Err(err))
				} else {
					calls = append(calls, c08Ok(len(buf), c08Eq(buf, b, base), src.pos))
					base += len(buf)
				}
			}
			d.Release()
			return calls
		})
	}
	return Ls(r1, r2, r3, r4, r5)
}

// ---------- generators ----------
type c08Enc struct {
	b      []byte
	strukt []int // offsets of structural bytes (type bytes, size bytes, field ids, STOP)
}

func (e *c08Enc) mark(n int) {
	for i := 0; i < n; i++ {
		e.strukt = append(e.strukt, len(e.b)+i)
	}
}
func (e *c08Enc) u32(x uint32, structural bool) {
	if structural {
		e.mark(4)
	}
	e.b = append(e.b, byte(x>>24), byte(x>>16), byte(x>>8), byte(x))
}

var c08Types = []byte{2, 3, 4, 6, 8, 10, 11, 12, 13, 14, 15}
var c08Fixed = []byte{2, 3, 4, 6, 8, 10}

func (g *Gen) c08PickType(depth int) byte {
	if depth <= 0 {
		return []byte{2, 3, 4, 6, 8, 10, 11}[g.R.Intn(7)]
	}
	return c08Types[g.R.Intn(len(c08Types))]
}

// value of type t, at most depth container levels below
func (g *Gen) c08Value(e *c08Enc, t byte, depth int) {
	if s := c08Size[t]; s > 0 {
		for i := 0; i < s; i++ {
			e.b = append(e.b, byte(g.R.Intn(256)))
		}
		return
	}
	cnt := func() int {
		switch g.R.Intn(6) {
		case 0:
			return 0
		case 1, 2:
			return 1
		case 3:
			return 2
		default:
			return 1 + g.R.Intn(4)
		}
	}
	switch t {
	case 11:
		n := []int{0, 1, 2, 5, 17}[g.R.Intn(5)]
		e.u32(uint32(n), true)
		for i := 0; i < n; i++ {
			e.b = append(e.b, byte(g.R.Intn(256)))
		}
	case 12:
		for k := cnt(); k > 0; k-- {
			ft := g.c08PickType(depth - 1)
			e.mark(3)
			e.b = append(e.b, ft, byte(g.R.Intn(256)), byte(g.R.Intn(256)))
			g.c08Value(e, ft, depth-1)
		}
		e.mark(1)
		e.b = append(e.b, 0)
	case 13:
		kt, vt := g.c08PickType(depth-1), g.c08PickType(depth-1)
		k := cnt()
		if k == 0 && g.R.Intn(2) == 0 { // empty containers carry any type bytes
			kt, vt = byte(g.R.Intn(256)), byte(g.R.Intn(256))
		}
		e.mark(2)
		e.b = append(e.b, kt, vt)
		e.u32(uint32(k), true)
		for ; k > 0; k-- {
			g.c08Value(e, kt, depth-1)
			g.c08Value(e, vt, depth-1)
		}
	case 14, 15:
		et := g.c08PickType(depth - 1)
		k := cnt()
		if k == 0 && g.R.Intn(2) == 0 {
			et = byte(g.R.Intn(256))
		}
		e.mark(1)
		e.b = append(e.b, et)
		e.u32(uint32(k), true)
		for ; k > 0; k-- {
			g.c08Value(e, et, depth-1)
		}
	}
}

func c08Chunks(xs ...int) V {
	var l VL
	for _, x := range xs {
		l = append(l, I(x))
	}
	return l
}

type c08Script struct {
	name   string
	chunks V
	with   int
	fin    int
}

func (g *Gen) c08Scripts(n int) []c08Script {
	return []c08Script{
		{"one", Ls(), 0, 20},
		{"one+eof", Ls(), 1, 20},
		{"bytewise", Ls(Ls(I(1), I(n+2))), 0, 20},
		{"bytewise+err", Ls(Ls(I(1), I(n+2))), 1, 21},
		{"short", c08Chunks(3, 1, 7, 2, 5, 1, 1, 4, 9, 2), 0, 21},
		{"empties", Ls(I(0), I(2), I(0), I(0), I(1), Ls(I(0), I(40)), I(3), Ls(I(0), I(99)), I(1), I(0), I(6)), 1, 20},
	}
}

func (g *Gen) c08RandScript(n int) c08Script {
	var ch VL
	for j := g.R.Intn(10); j > 0; j-- {
		switch g.R.Intn(5) {
		case 0:
			ch = append(ch, Ls(I(0), I(g.R.Intn(30))))
		case 1:
			ch = append(ch, Ls(I(1+g.R.Intn(3)), I(1+g.R.Intn(n+1))))
		default:
			ch = append(ch, I(1+g.R.Intn(12)))
		}
	}
	return c08Script{"random", ch, g.R.Intn(2), 20 + g.R.Intn(2)}
}

func (g *Gen) c08Add(class string, t int, b []byte, sc c08Script, depth, t2 int) {
	g.Add(class, Ls(I(t), Bs(b), sc.chunks, I(sc.with), I(sc.fin), I(depth), I(t2), I(0)))
}

// wrap a value (type it, bytes ib) into one more container level of the given kind
func c08Wrap(kind int, it byte, ib []byte) (byte, []byte) {
	switch kind {
	case 0: // struct { 1: inner }
		out := append([]byte{it, 0, 1}, ib...)
		return 12, append(out, 0)
	case 1: // list<inner>
		return 15, append([]byte{it, 0, 0, 0, 1}, ib...)
	case 2: // set<inner>
		return 14, append([]byte{it, 0, 0, 0, 1}, ib...)
	case 3: // map<inner, i32>
		out := append([]byte{it, 8, 0, 0, 0, 1}, ib...)
		return 13, append(out, 0, 0, 0, 7)
	default: // map<i16, inner>
		out := append([]byte{6, it, 0, 0, 0, 1, 0, 9}, ib...)
		return 13, out
	}
}

func genC08(g *Gen) {
	scripts := g.c08Scripts(8)
	rot := 0
	nextScript := func(n int) c08Script {
		rot++
		if rot%7 == 0 {
			return g.c08RandScript(n)
		}
		s := g.c08Scripts(n)
		return s[rot%len(s)]
	}

	// 1. bounded-exhaustive strings over the grammar alphabet x type tags
	alphaQ := []byte{0x00, 0x01, 0x02, 0x08, 0x0b, 0x0c, 0x0d, 0x0f, 0x7f, 0x80, 0xff}
	alphaFull := []byte{0, 1, 2, 3, 4, 6, 8, 10, 11, 12, 13, 14, 15, 16, 0x7f, 0x80, 0xff}
	tagsContainer := []int{11, 12, 13, 14, 15}
	tagsAll := []int{0, 1, 2, 3, 4, 5, 6, 8, 10, 11, 12, 13, 14, 15, 16, 17, 0x7f, 0x80, 0xff}
	var enum func(alpha []byte, cur []byte, maxLen int, f func([]byte))
	enum = func(alpha []byte, cur []byte, maxLen int, f func([]byte)) {
		f(cur)
		if len(cur) == maxLen {
			return
		}
		for _, c := range alpha {
			enum(alpha, append(cur, c), maxLen, f)
		}
	}
	enum(alphaQ, nil, g.Scale(3, 4), func(s []byte) {
		for _, t := range tagsAll {
			g.c08Add("exh/alltags", t, s, nextScript(len(s)), 0, -1)
		}
	})
	enum(alphaQ, nil, g.Scale(4, 5), func(s []byte) {
		if len(s) < g.Scale(4, 5) {
			return
		}
		for _, t := range tagsContainer {
			g.c08Add("exh/containers", t, s, scripts[0], 0, -1)
		}
	})
	if g.Thor {
		enum(alphaFull, nil, 4, func(s []byte) {
			for _, t := range tagsContainer {
				g.c08Add("exh/full", t, s, nextScript(len(s)), 0, -1)
			}
		})
	}
	// all 256 tags on a few strings
	for t := 0; t < 256; t++ {
		for _, s := range [][]byte{{}, {0}, {1, 2, 3, 4}, {0, 0, 0, 0, 0, 0, 0, 0, 0}, {byte(t), 0, 0, 0, 1, 0}, {0x0b, byte(t), 0, 0, 0, 0}} {
			g.c08Add("exh/256tags", t, s, nextScript(len(s)), 0, -1)
		}
		// element / key / value / field type byte = t, one element to parse
		g.c08Add("exh/256elem", 15, []byte{byte(t), 0, 0, 0, 1, 0, 0, 0, 0, 0, 0, 0, 0, 0}, nextScript(14), 0, -1)
		g.c08Add("exh/256elem", 14, []byte{byte(t), 0, 0, 0, 0}, nextScript(5), 0, -1)
		g.c08Add("exh/256elem", 13, []byte{byte(t), 8, 0, 0, 0, 1, 0, 0, 0, 0, 0, 0, 0, 0, 0, 0, 0, 0, 0}, nextScript(19), 0, -1)
		g.c08Add("exh/256elem", 13, []byte{11, byte(t), 0, 0, 0, 1, 0, 0, 0, 0, 0, 0, 0, 0, 0, 0, 0, 0, 0}, nextScript(19), 0, -1)
		g.c08Add("exh/256elem", 13, []byte{byte(t), byte(t), 0, 0, 0, 0}, nextScript(6), 0, -1)
		g.c08Add("exh/256elem", 12, []byte{byte(t), 0, 1, 0, 0, 0, 0, 0, 0, 0, 0, 0, 0, 0}, nextScript(14), 0, -1)
	}
	// random strings of length 5..7 over the full alphabet
	for i := g.Scale(12000, 400000); i > 0; i-- {
		n := 5 + g.R.Intn(3)
		s := make([]byte, n)
		for j := range s {
			s[j] = alphaFull[g.R.Intn(len(alphaFull))]
		}
		t := tagsContainer[g.R.Intn(len(tagsContainer))]
		g.c08Add("exh/sample", t, s, nextScript(n), 0, -1)
	}

	// 2. valid encodings: as they are (with trailing bytes and a second value), every cut point,
	//    every structural-byte perturbation
	subs := []byte{0x00, 0x01, 0x02, 0x08, 0x0b, 0x0c, 0x0d, 0x0f, 0x10, 0x7f, 0x80, 0xff}
	for i := g.Scale(70, 1500); i > 0; i-- {
		t := c08Types[g.R.Intn(len(c08Types))]
		if i%3 == 0 {
			t = []byte{12, 13, 15}[g.R.Intn(3)]
		}
		e := &c08Enc{}
		g.c08Value(e, t, 1+g.R.Intn(4))
		if len(e.b) > 400 {
			continue
		}
		// valid, then a second value, then garbage
		t2 := c08Types[g.R.Intn(len(c08Types))]
		e2 := &c08Enc{}
		g.c08Value(e2, t2, 2)
		full := append(append(append([]byte(nil), e.b...), e2.b...), 0xAA, 0x0c)
		g.c08Add("valid/two", int(t), full, nextScript(len(full)), 0, int(t2))
		g.c08Add("valid/two-wrongtype", int(t), full, nextScript(len(full)), 0, int(c08Types[g.R.Intn(len(c08Types))]))
		g.c08Add("valid/exact", int(t), e.b, nextScript(len(e.b)), 0, int(t2))
		for cut := 0; cut < len(e.b); cut++ {
			g.c08Add("valid/cut", int(t), e.b[:cut], nextScript(cut), 0, -1)
		}
		for _, p := range e.strukt {
			for _, sb := range subs {
				if e.b[p] == sb {
					continue
				}
				m := append([]byte(nil), e.b...)
				m[p] = sb
				g.c08Add("valid/perturb", int(t), m, nextScript(len(m)), 0, -1)
			}
			m := append([]byte(nil), e.b...)
			m[p] ^= 1
			g.c08Add("valid/perturb", int(t), m, scripts[0], 0, -1)
			m = append([]byte(nil), e.b...)
			m[p]++
			g.c08Add("valid/perturb", int(t), append(m, 0, 0, 0, 0, 0, 0, 0, 0), scripts[2], 0, -1)
		}
	}

	// 3. nesting 1..70 of every container kind, scalar / string / empty-container leaves;
	//    small budgets through the hooks
	type leaf struct {
		t byte
		b []byte
	}
	leaves := []leaf{{8, []byte{0, 0, 0, 5}}, {11, []byte{0, 0, 0, 1, 'a'}}, {2, []byte{1}}, {12, []byte{0}},
		{15, []byte{0x80, 0, 0, 0, 0}}, {13, []byte{0, 0xff, 0, 0, 0, 0}}, {15, []byte{10, 0, 0, 0, 2, 1, 2, 3, 4, 5, 6, 7, 8, 1, 2, 3, 4, 5, 6, 7, 8}}}
	nest := func(kindOf func(level int) int, n int, lf leaf) (byte, []byte) {
		t, b := lf.t, lf.b
		for l := 0; l < n; l++ {
			t, b = c08Wrap(kindOf(l), t, b)
		}
		return t, b
	}
	for kind := 0; kind < 6; kind++ {
		k := kind
		kf := func(l int) int {
			if k == 5 {
				return l % 5
			}
			return k
		}
		for _, lf := range leaves {
			for n := 1; n <= 70; n++ {
				if !g.Thor && n > 4 && n < 58 && n%9 != 0 {
					continue
				}
				t, b := nest(kf, n, lf)
				g.c08Add("nest/64", int(t), b, nextScript(len(b)), 0, -1)
				if n >= 60 && n <= 67 {
					g.c08Add("nest/64-trail", int(t), append(append([]byte(nil), b...), 0x0c, 0), scripts[2], 0, 12)
				}
			}
			for d := 1; d <= 5; d++ {
				for n := 0; n <= 7; n++ {
					t, b := nest(kf, n, lf)
					g.c08Add("nest/budget", int(t), b, nextScript(len(b)), d, -1)
				}
			}
		}
	}
	// small budgets on random values and their perturbations
	for i := g.Scale(150, 3000); i > 0; i-- {
		t := []byte{12, 13, 14, 15}[g.R.Intn(4)]
		e := &c08Enc{}
		g.c08Value(e, t, 1+g.R.Intn(4))
		if len(e.b) > 300 {
			continue
		}
		for d := 1; d <= 4; d++ {
			g.c08Add("budget/valid", int(t), e.b, nextScript(len(e.b)), d, -1)
		}
		if len(e.strukt) > 0 {
			m := append([]byte(nil), e.b...)
			m[e.strukt[g.R.Intn(len(e.strukt))]] = subs[g.R.Intn(len(subs))]
			g.c08Add("budget/perturb", int(t), m, nextScript(len(m)), 1+g.R.Intn(4), -1)
		}
	}

	// 4. hostile sizes: counts and lengths around 2^28..2^32 with every element width
	//    (the allocating skippers are gated by the harness, see c08MaxAsk)
	counts := []uint32{0x10000000, 0x1fffffff, 0x20000000, 0x3fffffff, 0x40000000, 0x7ffffffe, 0x7fffffff, 0x80000000, 0x80000001, 0xc0000000, 0xffffffff,
		0x08000000, 0x0fffffff, 0x00ffffff, 0x01000000, 0x00010000, 0x0000ffff, 0x00040000}
	tails := [][]byte{{}, {0}, {0, 0, 0, 0, 0, 0, 0, 0}, make([]byte, 16), make([]byte, 40)}
	be := func(x uint32) []byte { return []byte{byte(x >> 24), byte(x >> 16), byte(x >> 8), byte(x)} }
	cat := func(parts ...[]byte) []byte {
		var o []byte
		for _, p := range parts {
			o = append(o, p...)
		}
		return o
	}
	// 4b. COMPLETE values whose size field has bit 15 (or bit 23) set: every skipper must read the
	//     4-byte size as one big-endian word (no sign extension of a half)
	for _, n := range []int{0x7fff, 0x8000, 0x8001, 40000, 0xffff, 0x10000, 0x18000} {
		body := make([]byte, n)
		for i := range body {
			body[i] = byte(i*7 + 1)
		}
		g.c08Add("size/complete-string", 11, cat(be(uint32(n)), body, []byte{9}), scripts[0], 0, -1)
		g.c08Add("size/complete-list-bool", 15, cat([]byte{2}, be(uint32(n)), make([]byte, n), []byte{9}), scripts[1], 0, -1)
		g.c08Add("size/complete-struct-str", 12, cat([]byte{11, 0, 1}, be(uint32(n)), body, []byte{0, 9}), scripts[0], 0, -1)
	}
	for _, c := range counts {
		for ti, tail := range tails {
			g.c08Add("size/string", 11, cat(be(c), tail), scripts[ti%2], 0, -1)
			for _, et := range c08Fixed {
				g.c08Add("size/list-fixed", 15, cat([]byte{et}, be(c), tail), scripts[ti%2], 0, -1)
				g.c08Add("size/set-fixed", 14, cat([]byte{et}, be(c), tail), scripts[0], 0, -1)
				for _, vt := range []byte{2, 6, 8, 10} {
					g.c08Add("size/map-fixed", 13, cat([]byte{et, vt}, be(c), tail), scripts[0], 0, -1)
				}
				g.c08Add("size/map-mixed", 13, cat([]byte{et, 11}, be(c), tail), scripts[0], 0, -1)
				g.c08Add("size/map-mixed", 13, cat([]byte{12, et}, be(c), tail), scripts[0], 0, -1)
				g.c08Add("size/struct-str", 12, cat([]byte{et, 0, 1}, make([]byte, c08Size[et]), []byte{11, 0, 2}, be(c), tail), scripts[0], 0, -1)
			}
			for _, et := range []byte{11, 12, 13, 15, 0, 1, 0x80} {
				g.c08Add("size/list-var", 15, cat([]byte{et}, be(c), tail), scripts[0], 0, -1)
			}
			g.c08Add("size/list-str", 15, cat([]byte{11, 0, 0, 0, 2, 0, 0, 0, 1, 'x'}, be(c), tail), scripts[0], 0, -1)
		}
	}
	// exact-fit fast paths: count*width == remaining, one byte short, one byte long
	for _, et := range c08Fixed {
		w := c08Size[et]
		for _, k := range []int{0, 1, 2, 3, 255, 256, 1000} {
			for _, delta := range []int{-1, 0, 1} {
				n := k*w + delta
				if n < 0 {
					continue
				}
				g.c08Add("fit/list", 15, cat([]byte{et}, be(uint32(k)), Pat(k, n)), nextScript(n+5), 0, -1)
				g.c08Add("fit/map", 13, cat([]byte{et, 8}, be(uint32(k)), Pat(k, k*(w+4)+delta+1)[1:]), nextScript(n+6), 0, -1)
				g.c08Add("fit/map-kvar", 13, cat([]byte{11, et}, be(uint32(1)), []byte{0, 0, 0, 1, 'k'}, Pat(k, w+delta)), nextScript(n+6), 0, -1)
			}
		}
	}
	// a few large strings / binary payloads (buffer growth in the stream skippers)
	for _, n := range []int{4090, 4096, 4097, 8192, 20000} {
		b := cat(be(uint32(n)), Pat(n, n), []byte{0})
		g.c08Add("big/string", 11, b, nextScript(100), 0, 12)
		g.c08Add("big/string-cut", 11, b[:len(b)-2], nextScript(100), 0, -1)
		g.c08Add("big/list-str", 15, cat([]byte{11, 0, 0, 0, 2}, b[:len(b)-1], b[:len(b)-1], []byte{2}), scripts[0], 0, 2)
	}
}

func init() {
	register("C08", &Prop{Gen: genC08, Run: c08Run})
}
