package main

// Correspondence harness: generates cases (corpus first), runs the real implementation from
// /repo's working tree (module replace => /repo, built with -tags verif on every run) and
// writes one line "(input output)" per case for the model driver.

import (
	"bufio"
	"encoding/json"
	"flag"
	"fmt"
	"math/rand"
	"os"
	"os/exec"
	"path/filepath"
	"runtime/debug"
	"sort"
	"strings"
)

type Gen struct {
	R       *rand.Rand
	Tier    string
	Thor    bool
	cases   []V
	classes map[string]int
}

func (g *Gen) Add(class string, in V) {
	g.cases = append(g.cases, in)
	g.classes[class]++
}

// Scale returns q in the quick tier and t in the thorough tier.
func (g *Gen) Scale(q, t int) int {
	if g.Thor {
		return t
	}
	return q
}

type Prop struct {
	Gen func(g *Gen)
	Run func(in V) V
	// Isolate: run the cases in child processes so that a fatal runtime error of the
	// implementation (out of memory on a hostile declared size, stack exhaustion) kills only
	// the child; the case is then recorded with output (-98 x<reason>) and the run continues.
	Isolate bool
}

var props = map[string]*Prop{}

func register(id string, p *Prop) { props[id] = p }

func safeRun(p *Prop, in V) (out V) {
	defer func() {
		if r := recover(); r != nil {
			out = Ls(I(-99), Str(fmt.Sprint(r)))
		}
	}()
	return p.Run(in)
}

func main() {
	debug.SetPanicOnFault(true)
	prop := flag.String("prop", "", "property id")
	seed := flag.Int64("seed", 1, "seed")
	tier := flag.String("tier", "quick", "quick|thorough")
	out := flag.String("out", "", "output directory")
	corpus := flag.String("corpus", "", "corpus directory (all *.cases files run first)")
	only := flag.String("cases", "", "run only the inputs of this file (replay)")
	worker := flag.Bool("worker", false, "internal: child process of an isolated run")
	wfrom := flag.Int("from", 0, "internal: first input index of the worker")
	wuntil := flag.Int("until", -1, "internal: end input index of the worker (exclusive)")
	flag.Parse()
	p := props[*prop]
	if p == nil {
		fmt.Fprintf(os.Stderr, "unknown property %q\n", *prop)
		os.Exit(2)
	}
	if err := os.MkdirAll(*out, 0o755); err != nil {
		panic(err)
	}
	var inputs []V
	ncorpus := 0
	readFile := func(fn string) {
		f, err := os.Open(fn)
		if err != nil {
			panic(err)
		}
		defer f.Close()
		sc := bufio.NewScanner(f)
		sc.Buffer(make([]byte, 1<<20), 1<<28)
		for sc.Scan() {
			line := strings.TrimSpace(sc.Text())
			if line == "" || line[0] == ';' {
				continue
			}
			v, err := Parse(line)
			if err != nil {
				panic(fmt.Sprintf("%s: %v", fn, err))
			}
			inputs = append(inputs, v)
		}
	}
	g := &Gen{R: rand.New(rand.NewSource(*seed)), Tier: *tier, Thor: *tier == "thorough", classes: map[string]int{}}
	if *only != "" {
		readFile(*only)
		ncorpus = len(inputs)
	} else {
		if *corpus != "" {
			files, _ := filepath.Glob(filepath.Join(*corpus, "*.cases"))
			sort.Strings(files)
			for _, fn := range files {
				readFile(fn)
			}
			ncorpus = len(inputs)
		}
		p.Gen(g)
		inputs = append(inputs, g.cases...)
	}
	if *worker {
		// child of an isolated run: inputs were regenerated deterministically from the same
		// flags; append one output line per case, unbuffered, so the parent can see how far we got
		f, err := os.OpenFile(filepath.Join(*out, "outs.txt"), os.O_APPEND|os.O_CREATE|os.O_WRONLY, 0o644)
		if err != nil {
			panic(err)
		}
		end := len(inputs)
		if *wuntil >= 0 && *wuntil < end {
			end = *wuntil
		}
		for i := *wfrom; i < end; i++ {
			o := safeRun(p, inputs[i])
			f.WriteString(Show(o) + "\n")
		}
		f.Close()
		return
	}
	f, err := os.Create(filepath.Join(*out, "cases.txt"))
	if err != nil {
		panic(err)
	}
	w := bufio.NewWriterSize(f, 1<<20)
	crashes := 0
	if p.Isolate {
		outsFn := filepath.Join(*out, "outs.txt")
		os.Remove(outsFn)
		countLines := func() (int, []string) {
			b, _ := os.ReadFile(outsFn)
			ls := strings.Split(string(b), "\n")
			if len(ls) > 0 && ls[len(ls)-1] == "" {
				ls = ls[:len(ls)-1]
			}
			return len(ls), ls
		}
		for {
			n, _ := countLines()
			if n >= len(inputs) {
				break
			}
			args := append([]string{}, os.Args[1:]...)
			args = append(args, "-worker", "-from", fmt.Sprint(n))
			cmd := exec.Command(os.Args[0], args...)
			cmd.Env = os.Environ()
			outb, err := cmd.CombinedOutput()
			if err == nil {
				continue
			}
			m, _ := countLines()
			if m >= len(inputs) {
				break
			}
			// the child died while running case m
			reason := "crash"
			txt := string(outb)
			if i := strings.Index(txt, "fatal error:"); i >= 0 {
				reason = strings.SplitN(txt[i:], "\n", 2)[0]
			} else if len(txt) > 0 {
				reason = strings.SplitN(txt, "\n", 2)[0]
			}
			ff, _ := os.OpenFile(outsFn, os.O_APPEND|os.O_CREATE|os.O_WRONLY, 0o644)
			ff.WriteString(Show(Ls(I(-98), Str(reason))) + "\n")
			ff.Close()
			crashes++
			if crashes > 200 {
				panic("too many child crashes")
			}
		}
		_, ls := countLines()
		for i, in := range inputs {
			w.WriteString("(" + Show(in) + " " + ls[i] + ")\n")
		}
	} else {
		for _, in := range inputs {
			o := safeRun(p, in)
			w.WriteString(Show(Ls(in, o)))
			w.WriteString("\n")
		}
	}
	w.Flush()
	f.Close()
	meta := map[string]interface{}{"n": len(inputs), "corpus": ncorpus, "classes": g.classes, "seed": *seed, "tier": *tier, "child_crashes": crashes}
	mb, _ := json.MarshalIndent(meta, "", " ")
	os.WriteFile(filepath.Join(*out, "meta.json"), mb, 0o644)
}
