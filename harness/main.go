package main

// Correspondence harness: generates cases (corpus first), runs the real implementation from
// /repo's working tree (module replace => /repo, built with -tags verif on every run) and
// writes one line "(input output)" per case for the model driver.

import (
	"bufio"
	"encoding/json"
	"flag"
	"fmt"
	"math/rand"
	"os"
	"path/filepath"
	"runtime/debug"
	"sort"
	"strings"
)

type Gen struct {
	R       *rand.Rand
	Tier    string
	Thor    bool
	cases   []V
	classes map[string]int
}

func (g *Gen) Add(class string, in V) {
	g.cases = append(g.cases, in)
	g.classes[class]++
}

// Scale returns q in the quick tier and t in the thorough tier.
func (g *Gen) Scale(q, t int) int {
	if g.Thor {
		return t
	}
	return q
}

type Prop struct {
	Gen func(g *Gen)
	Run func(in V) V
}

var props = map[string]*Prop{}

func register(id string, p *Prop) { props[id] = p }

func safeRun(p *Prop, in V) (out V) {
	defer func() {
		if r := recover(); r != nil {
			out = Ls(I(-99), Str(fmt.Sprint(r)))
		}
	}()
	return p.Run(in)
}

func main() {
	debug.SetPanicOnFault(true)
	prop := flag.String("prop", "", "property id")
	seed := flag.Int64("seed", 1, "seed")
	tier := flag.String("tier", "quick", "quick|thorough")
	out := flag.String("out", "", "output directory")
	corpus := flag.String("corpus", "", "corpus directory (all *.cases files run first)")
	only := flag.String("cases", "", "run only the inputs of this file (replay)")
	flag.Parse()
	p := props[*prop]
	if p == nil {
		fmt.Fprintf(os.Stderr, "unknown property %q\n", *prop)
		os.Exit(2)
	}
	if err := os.MkdirAll(*out, 0o755); err != nil {
		panic(err)
	}
	var inputs []V
	ncorpus := 0
	readFile := func(fn string) {
		f, err := os.Open(fn)
		if err != nil {
			panic(err)
		}
		defer f.Close()
		sc := bufio.NewScanner(f)
		sc.Buffer(make([]byte, 1<<20), 1<<28)
		for sc.Scan() {
			line := strings.TrimSpace(sc.Text())
			if line == "" || line[0] == ';' {
				continue
			}
			v, err := Parse(line)
			if err != nil {
				panic(fmt.Sprintf("%s: %v", fn, err))
			}
			inputs = append(inputs, v)
		}
	}
	g := &Gen{R: rand.New(rand.NewSource(*seed)), Tier: *tier, Thor: *tier == "thorough", classes: map[string]int{}}
	if *only != "" {
		readFile(*only)
		ncorpus = len(inputs)
	} else {
		if *corpus != "" {
			files, _ := filepath.Glob(filepath.Join(*corpus, "*.cases"))
			sort.Strings(files)
			for _, fn := range files {
				readFile(fn)
			}
			ncorpus = len(inputs)
		}
		p.Gen(g)
		inputs = append(inputs, g.cases...)
	}
	f, err := os.Create(filepath.Join(*out, "cases.txt"))
	if err != nil {
		panic(err)
	}
	w := bufio.NewWriterSize(f, 1<<20)
	for _, in := range inputs {
		o := safeRun(p, in)
		w.WriteString(Show(Ls(in, o)))
		w.WriteString("\n")
	}
	w.Flush()
	f.Close()
	meta := map[string]interface{}{"n": len(inputs), "corpus": ncorpus, "classes": g.classes, "seed": *seed, "tier": *tier}
	mb, _ := json.MarshalIndent(meta, "", " ")
	os.WriteFile(filepath.Join(*out, "meta.json"), mb, 0o644)
}
