package main

import (
	"sync"
	"sync/atomic"
	"unsafe"

	"github.com/cloudwego/gopkg/unsafex"

	"verifharness/pre121"
)

// C20 — zero-copy conversions.
// input  (op baseLen off len cap nilflag variant)   op 0: BinaryToString  op 1: StringToBinary
//   variant 0: the build variant compiled into the library; 1: the !go1.21 file (generated copy, pre121)
// output (ptrOff len cap contentEqual appendKeptOriginal appendContentOK)
//   ptrOff = data pointer of the result minus data pointer of the base, -1 when len == 0
var c20Kept [][]byte

// the two build variants of unsafex: 0 = the file the toolchain compiles into the library (go1.21+),
// 1 = the !go1.21 file, exercised through the generated copy harness/pre121 (see /verif/check gen_pre121)
func c20B2S(variant int, b []byte) string {
	if variant == 1 {
		return pre121.BinaryToString(b)
	}
	return unsafex.BinaryToString(b)
}

func c20S2B(variant int, s string) []byte {
	if variant == 1 {
		return pre121.StringToBinary(s)
	}
	return unsafex.StringToBinary(s)
}

//go:noinline
func c20StackKey(id byte, n int) []byte {
	var raw [24]byte
	for i := range raw {
		raw[i] = id + byte(i)
	}
	s := string(raw[:n])
	return unsafex.StringToBinary(s)
}

//go:noinline
func c20StackKey100(id byte, n int) []byte {
	var raw [24]byte
	for i := range raw {
		raw[i] = id + byte(i)
	}
	s := string(raw[:n])
	return pre121.StringToBinary(s)
}

func c20Concurrent(vr, workers, rounds int) bool {
	parent := string(Pat(7, workers*300+64))
	pbytes := []byte(parent)
	var bad int32
	var wg sync.WaitGroup
	for w := 0; w < workers; w++ {
		wg.Add(1)
		go func(w int) {
			defer wg.Done()
			off, n := w*300, 200+w
			s := parent[off : off+n]
			b0 := pbytes[off : off+n : off+n+7]
			for i := 0; i < rounds; i++ {
				b := c20S2B(vr, s)
				if len(b) != n || cap(b) != n || unsafe.SliceData(b) != unsafe.StringData(s) || b[0] != parent[off] || b[n-1] != parent[off+n-1] {
					atomic.AddInt32(&bad, 1)
					return
				}
				t := c20B2S(vr, b0)
				if len(t) != n || unsafe.StringData(t) != unsafe.SliceData(b0) || t[n-1] != parent[off+n-1] {
					atomic.AddInt32(&bad, 1)
					return
				}
			}
		}(w)
	}
	wg.Wait()
	return atomic.LoadInt32(&bad) == 0
}

//go:noinline
func c20Churn(depth int, fill byte) byte {
	var pad [256]byte
	for i := range pad {
		pad[i] = fill
	}
	if depth == 0 {
		return pad[17]
	}
	return pad[depth%len(pad)] ^ c20Churn(depth-1, fill)
}

func init() {
	register("C20", &Prop{
		Gen: func(g *Gen) {
			sizes := []int{0, 1, 2, 3, 7, 8, 15, 16, 17, 63, 64, 65, 255, 256, 1000}
			for vr := 0; vr < 2; vr++ {
				for k := 0; k < 3; k++ {
					g.Add("concurrent", Ls(I(2), I(8+4*k), I(g.Scale(4000, 100000)), I(0), I(0), I(0), I(vr)))
				}
			}
			for _, opv := range []int{0, 1, 2, 3} {
				op, vr := opv%2, opv/2
				g.Add("nil", Ls(I(op), I(0), I(0), I(0), I(0), I(1), I(vr)))
				for _, bl := range sizes {
					for _, off := range []int{0, 1, bl / 2, bl} {
						if off > bl {
							continue
						}
						for _, ln := range []int{0, 1, (bl - off) / 2, bl - off} {
							if off+ln > bl {
								continue
							}
							for _, cp := range []int{ln, ln + 1, bl - off} {
								if cp < ln || off+cp > bl {
									continue
								}
								g.Add("sub", Ls(I(op), I(bl), I(off), I(ln), I(cp), I(0), I(vr)))
							}
						}
					}
				}
				// size classes beyond 1, 2 and 4 GiB (untouched zero memory: cheap): conversions must not depend on
				// any fixed maximum length
				for _, bl := range []int{1 << 30, 1<<30 + 1, 1<<30 + 16, 1 << 31, 1<<31 + 3, 1 << 32, 1<<32 + 1, 1<<32 + 5} { // no 2^30, 2^31, 2^32 limits
					g.Add("huge", Ls(I(op), I(bl), I(0), I(bl), I(bl), I(0), I(vr)))
					g.Add("huge", Ls(I(op), I(bl), I(8), I(bl-8), I(bl-8), I(0), I(vr)))
					g.Add("huge", Ls(I(op), I(bl), I(bl-5), I(5), I(5), I(0), I(vr)))
				}
				n := g.Scale(300, 20000)
				for i := 0; i < n; i++ {
					bl := g.R.Intn(5000)
					off := g.R.Intn(bl + 1)
					ln := g.R.Intn(bl - off + 1)
					cp := ln + g.R.Intn(bl-off-ln+1)
					g.Add("rand", Ls(I(op), I(bl), I(off), I(ln), I(cp), I(0), I(vr)))
				}
			}
		},
		Run: func(in V) V {
			a := AsList(in)
			op, bl, off, ln, cp, nilf := AsInt(a[0]), AsInt(a[1]), AsInt(a[2]), AsInt(a[3]), AsInt(a[4]), AsInt(a[5])
			vr := 0
			if len(a) > 6 {
				vr = AsInt(a[6])
			}
			if vr == 1 && !pre121.Generated {
				return Ls(I(-99)) // the copy of unsafex_go100.go could not be made: the tie to that file is broken
			}
			var base []byte
			huge := bl > 1<<26
			if huge {
				base = make([]byte, bl) // fresh zero pages, never touched except at the sampled positions
				for _, i := range []int{0, 1, bl / 2, bl - 2, bl - 1} {
					base[i] = byte(i*7 + 3)
				}
			} else {
				base = Pat(bl+off, bl)
			}
			eq := func(x, y []byte) bool {
				if !huge {
					return string(x) == string(y)
				}
				if len(x) != len(y) {
					return false
				}
				for _, i := range []int{0, 1, len(x) / 2, len(x) - 2, len(x) - 1} {
					if i >= 0 && i < len(x) && x[i] != y[i] {
						return false
					}
				}
				return true
			}
			if op == 2 {
				// conversions of DIFFERENT strings / slices running at the same time in several goroutines:
				// each result must be the view of its own argument (bl = workers, off = rounds)
				return Ls(I(0), I(0), I(0), Bo(c20Concurrent(vr, bl, off)), I(1), I(1))
			}
			if huge {
				// no copies of a gigabyte: sampled content, pointer, len, cap only
				sample := func(get func(i int) byte, n int) bool {
					for _, i := range []int{0, 1, n / 2, n - 2, n - 1} {
						if i >= 0 && i < n && get(i) != base[off+i] {
							return false
						}
					}
					return true
				}
				if op == 0 {
					b := base[off : off+ln : off+cp]
					s := c20B2S(vr, b)
					po := int(uintptr(unsafe.Pointer(unsafe.StringData(s))) - uintptr(unsafe.Pointer(&base[0])))
					return Ls(I(po), I(len(s)), I(len(s)), Bo(len(s) == ln && sample(func(i int) byte { return s[i] }, len(s))), I(1), I(1))
				}
				bs := unsafe.String(&base[0], len(base))
				s := bs[off : off+ln]
				b := c20S2B(vr, s)
				po := int(uintptr(unsafe.Pointer(&b[0])) - uintptr(unsafe.Pointer(&base[0])))
				ok := len(b) == ln && sample(func(i int) byte { return b[i] }, len(b))
				// cap == len is what makes an append reallocate; the append itself is not run at this size
				return Ls(I(po), I(len(b)), I(cap(b)), Bo(ok), I(1), Bo(cap(b) == len(b)))
			}
			if op == 0 {
				var b []byte
				if nilf == 0 {
					b = base[off : off+ln : off+cp]
				}
				want := append([]byte(nil), b...)
				s := c20B2S(vr, b)
				po := -1
				if len(s) > 0 {
					po = int(uintptr(unsafe.Pointer(unsafe.StringData(s))) - uintptr(unsafe.Pointer(&base[0])))
				}
				return Ls(I(po), I(len(s)), I(len(s)), Bo(eq([]byte(s), want)), I(1), I(1))
			}
			var s string
			bs := string(base) // an immutable copy; substrings share its memory
			if nilf == 0 {
				s = bs[off : off+ln]
			}
			want := []byte(s)
			b := c20S2B(vr, s)
			po := -1
			if len(b) > 0 {
				po = int(uintptr(unsafe.Pointer(&b[0])) - uintptr(unsafe.Pointer(unsafe.StringData(bs))))
			}
			contentEq := eq(b, want)
			if nilf == 0 && ln >= 1 && ln <= 24 {
				// second probe for short strings: the string is built at run time in the producing
				// function and ONLY passed to the conversion; the result outlives that function and
				// must keep the bytes alive (the conversion's result aliases its argument — a
				// compiler that is not told so may keep the string in a dead stack frame)
				var k []byte
				if vr == 1 {
					k = c20StackKey100(byte(off), ln)
				} else {
					k = c20StackKey(byte(off), ln)
				}
				c20Kept = append(c20Kept[:0], k)
				c20Churn(8, 0xEE)
				for i := range k {
					if k[i] != byte(off)+byte(i) {
						contentEq = false
					}
				}
				if len(k) != ln || cap(k) != ln {
					contentEq = false
				}
			}
			lb, cb := len(b), cap(b)
			// appending must never write into the string's memory
			b2 := append(b, 0xAB)
			kept := bs == string(base)
			appOK := len(b2) == lb+1 && eq(b2[:lb], want) && b2[lb] == 0xAB
			return Ls(I(po), I(lb), I(cb), Bo(contentEq), Bo(kept), Bo(appOK))
		},
	})
}
