package main

// C02 — Skip consumes exactly one well-formed value, on every skipper.
// Case format: see coq/Corr/C02.v.  The encoder below is written from the Thrift Binary
// wire format and uses nothing of /repo; the five skippers are the real ones.

import (
	"errors"
	"io"
	"runtime"
	"runtime/debug"
	"time"

	"github.com/cloudwego/gopkg/bufiox"
	"github.com/cloudwego/gopkg/protocol/thrift"
)

// ---------- value trees ----------
type c02Val struct {
	T      int // 2 3 4 6 8 10 11 12 13 14 15
	U      uint64
	S      []byte
	SV     V // byte spec of S as it appears in the case (kept so that big strings stay short on the line)
	Fields []c02Field
	KT, VT int // raw type bytes (map: KT, VT; set/list: KT = element type)
	KVs    [][2]*c02Val
	Elems  []*c02Val
}
type c02Field struct {
	FT, ID int
	V      *c02Val
}

func c02Scalar(t int, u uint64) *c02Val { return &c02Val{T: t, U: u} }
func c02Str(spec V) *c02Val             { return &c02Val{T: 11, S: AsBytes(spec), SV: spec} }

// tree -> cval, runs of pointer-identical members compressed to (99 k member)
func c02ToV(v *c02Val) V {
	switch v.T {
	case 2, 3, 4, 6, 8, 10:
		return Ls(I(v.T), U64(v.U))
	case 11:
		if v.SV != nil {
			return Ls(I(11), v.SV)
		}
		return Ls(I(11), Bs(v.S))
	case 12:
		var items VL
		for i := 0; i < len(v.Fields); {
			j := i
			for j < len(v.Fields) && v.Fields[j] == v.Fields[i] {
				j++
			}
			f := v.Fields[i]
			it := Ls(I(f.FT), I(f.ID), c02ToV(f.V))
			if j-i > 1 {
				it = Ls(I(99), I(j-i), it)
			}
			items = append(items, it)
			i = j
		}
		return Ls(I(12), items)
	case 13:
		var items VL
		for i := 0; i < len(v.KVs); {
			j := i
			for j < len(v.KVs) && v.KVs[j] == v.KVs[i] {
				j++
			}
			it := Ls(c02ToV(v.KVs[i][0]), c02ToV(v.KVs[i][1]))
			if j-i > 1 {
				it = Ls(I(99), I(j-i), it)
			}
			items = append(items, it)
			i = j
		}
		return Ls(I(13), I(v.KT), I(v.VT), items)
	case 14, 15:
		var items VL
		for i := 0; i < len(v.Elems); {
			j := i
			for j < len(v.Elems) && v.Elems[j] == v.Elems[i] {
				j++
			}
			it := c02ToV(v.Elems[i])
			if j-i > 1 {
				it = Ls(I(99), I(j-i), it)
			}
			items = append(items, it)
			i = j
		}
		return Ls(I(v.T), I(v.KT), items)
	}
	panic("c02ToV: bad type")
}

// cval -> tree (expands repeats)
func c02FromV(in V) *c02Val {
	a := AsList(in)
	t := AsInt(a[0])
	switch t {
	case 2, 3, 4, 6, 8, 10:
		return &c02Val{T: t, U: AsU64(a[1])}
	case 11:
		return &c02Val{T: 11, S: AsBytes(a[1])}
	case 12:
		v := &c02Val{T: 12}
		for _, it := range AsList(a[1]) {
			l := AsList(it)
			k := 1
			if AsInt(l[0]) == 99 && len(l) == 3 {
				k = AsInt(l[1])
				l = AsList(l[2])
			}
			f := c02Field{FT: AsInt(l[0]), ID: AsInt(l[1]), V: c02FromV(l[2])}
			for i := 0; i < k; i++ {
				v.Fields = append(v.Fields, f)
			}
		}
		return v
	case 13:
		v := &c02Val{T: 13, KT: AsInt(a[1]), VT: AsInt(a[2])}
		for _, it := range AsList(a[3]) {
			l := AsList(it)
			k := 1
			if len(l) == 3 {
				k = AsInt(l[1])
				l = AsList(l[2])
			}
			kv := [2]*c02Val{c02FromV(l[0]), c02FromV(l[1])}
			for i := 0; i < k; i++ {
				v.KVs = append(v.KVs, kv)
			}
		}
		return v
	case 14, 15:
		v := &c02Val{T: t, KT: AsInt(a[1])}
		for _, it := range AsList(a[2]) {
			l := AsList(it)
			k := 1
			if x, ok := l[0].(VI); ok && x.Int() == 99 {
				k = AsInt(l[1])
				it = l[2]
			}
			e := c02FromV(it)
			for i := 0; i < k; i++ {
				v.Elems = append(v.Elems, e)
			}
		}
		return v
	}
	panic("c02FromV: bad tree " + Show(in))
}

// ---------- independent encoder ----------
func c02BE(out []byte, u uint64, k int) []byte {
	for i := k - 1; i >= 0; i-- {
		out = append(out, byte(u>>(8*uint(i))))
	}
	return out
}

func c02Enc(out []byte, v *c02Val) []byte {
	switch v.T {
	case 2, 3:
		return append(out, byte(v.U))
	case 6:
		return c02BE(out, v.U, 2)
	case 8:
		return c02BE(out, v.U, 4)
	case 4, 10:
		return c02BE(out, v.U, 8)
	case 11:
		out = c02BE(out, uint64(len(v.S)), 4)
		return append(out, v.S...)
	case 12:
		for _, f := range v.Fields {
			out = append(out, byte(f.FT))
			out = c02BE(out, uint64(f.ID), 2)
			out = c02Enc(out, f.V)
		}
		return append(out, 0)
	case 13:
		out = append(out, byte(v.KT), byte(v.VT))
		out = c02BE(out, uint64(len(v.KVs)), 4)
		for _, kv := range v.KVs {
			out = c02Enc(out, kv[0])
			out = c02Enc(out, kv[1])
		}
		return out
	case 14, 15:
		out = append(out, byte(v.KT))
		out = c02BE(out, uint64(len(v.Elems)), 4)
		for _, e := range v.Elems {
			out = c02Enc(out, e)
		}
		return out
	}
	panic("c02Enc: bad type")
}

// ---------- scripted source (Model/BufReader.v src_read) ----------
var c02ErrInjected = errors.New("verif: injected source error")

type c02Src struct {
	data   []byte
	final  error
	with   bool
	chunks []int
	pos    int
}

// Len: how many bytes have ARRIVED so far and not been read (a packet queue's meaning of Len, not
// "everything that will ever come"); nothing in the library may take it for the length of the stream
func (s *c02Src) Len() int {
	if len(s.chunks) > 0 && s.chunks[0] < len(s.data)-s.pos {
		return s.chunks[0]
	}
	return len(s.data) - s.pos
}

func (s *c02Src) Read(p []byte) (int, error) {
	room := len(p)
	c := room
	if len(s.chunks) > 0 {
		c = s.chunks[0]
		s.chunks = s.chunks[1:]
	}
	remaining := len(s.data) - s.pos
	if remaining == 0 {
		return 0, s.final
	}
	m := c
	if room < m {
		m = room
	}
	if remaining < m {
		m = remaining
	}
	copy(p, s.data[s.pos:s.pos+m])
	s.pos += m
	if s.with && m == remaining && m != 0 {
		return m, s.final
	}
	return m, nil
}

func c02Chunks(v V) []int {
	var out []int
	for _, it := range AsList(v) {
		if l, ok := it.(VL); ok {
			c, k := AsInt(l[0]), AsInt(l[1])
			for i := 0; i < k; i++ {
				out = append(out, c)
			}
		} else {
			out = append(out, AsInt(it))
		}
	}
	return out
}

func c02Err(err error) int {
	if err == nil {
		return 0
	}
	return 1
}

func c02Ret(got, want []byte) V {
	if string(got) == string(want) {
		return I(1)
	}
	return Ls(I(0), Bs(got))
}

func c02Prefix(tr []byte) []byte {
	k := len(tr)
	if k > 16 {
		k = 16
	}
	return tr[:k]
}

func c02Run(in V) V {
	a := AsList(in)
	var vals []*c02Val
	for _, t := range AsList(a[0]) {
		vals = append(vals, c02FromV(t))
	}
	trailing := AsBytes(a[1])
	sc := AsList(a[2])
	fin := io.EOF
	if AsInt(sc[0]) == 21 {
		fin = c02ErrInjected
	}
	with := AsBool(sc[1])
	chunks := c02Chunks(sc[2])
	opts := AsInt(a[3])
	rel, fresh := opts&1 != 0, opts&2 != 0

	var encs [][]byte
	var data []byte
	var xencs VL
	for _, v := range vals {
		e := c02Enc(nil, v)
		encs = append(encs, e)
		xencs = append(xencs, Bs(e))
		data = append(data, e...)
	}
	data = append(data, trailing...)
	follow := c02Prefix(trailing)
	newSrc := func() *c02Src {
		return &c02Src{data: data, final: fin, with: with, chunks: append([]int(nil), chunks...)}
	}

	stall := false // a run of >= 100 empty reads makes bufiox give up (io.ErrNoProgress)
	run := 0
	for _, c := range chunks {
		if c == 0 {
			run++
			if run >= 100 {
				stall = true
			}
		} else {
			run = 0
		}
	}

	// 1. Binary.Skip
	oBS, _ := c02Guard(0, len(vals), false, func() (VL, int) {
		var o VL
		off := 0
		for _, v := range vals {
			buf := data[off:len(data):len(data)]
			n, err := thrift.Binary.Skip(buf, thrift.TType(v.T))
			if n2, err2, pan, ran := skipOnStack(buf, thrift.TType(v.T)); ran && (pan || n2 != n || c02Err(err2) != c02Err(err)) {
				o = append(o, Ls(I(-96), I(n2))) // the same bytes on a stack-resident buffer gave another result
				break
			}
			o = append(o, Ls(I(c02Err(err)), I(n)))
			if err != nil || n < 0 || off+n > len(data) {
				break
			}
			off += n
		}
		return o, 0
	})

	// 2. BufferReader.Skip over a bufiox reader
	oBR, fBR := c02Guard(1, len(vals), stall, func() (VL, int) {
		var o VL
		r := bufiox.NewDefaultReader(newSrc())
		br := thrift.NewBufferReader(r)
		defer func() { br.Recycle(); r.Release(nil) }()
		for _, v := range vals {
			err := br.Skip(thrift.TType(v.T))
			o = append(o, Ls(I(c02Err(err)), I64(br.Readn())))
			if err != nil {
				return o, 0
			}
			if rel {
				br.Recycle()
				br = thrift.NewBufferReader(r)
			}
		}
		b, err := r.Next(len(follow))
		if err == nil && string(b) == string(follow) {
			return o, 1
		}
		return o, 0
	})

	// 3. SkipDecoder over a bufiox reader
	oSD, fSD := c02Guard(2, len(vals), stall, func() (VL, int) {
		var o VL
		r := bufiox.NewDefaultReader(newSrc())
		d := thrift.NewSkipDecoder(r)
		defer func() { d.Release(); r.Release(nil) }()
		for i, v := range vals {
			b, err := d.Next(thrift.TType(v.T))
			if err != nil {
				return append(o, Ls(I(1), I(0), I(r.ReadLen()))), 0
			}
			o = append(o, Ls(I(0), c02Ret(b, encs[i]), I(r.ReadLen())))
			if rel {
				d.Release()
				d = thrift.NewSkipDecoder(r)
			}
		}
		b, err := r.Next(len(follow))
		if err == nil && string(b) == string(follow) {
			return o, 1
		}
		return o, 0
	})

	// 4. BytesSkipDecoder
	oBSD, fBSD := c02Guard(3, len(vals), false, func() (VL, int) {
		var o VL
		d := thrift.NewBytesSkipDecoder(data[:len(data):len(data)])
		defer func() { d.Release() }()
		consumed := 0
		for i, v := range vals {
			b, err := d.Next(thrift.TType(v.T))
			if err != nil {
				return append(o, Ls(I(1), I(0))), 0
			}
			o = append(o, Ls(I(0), c02Ret(b, encs[i])))
			consumed += len(b)
			if rel && consumed <= len(data) {
				d.Release()
				d = thrift.NewBytesSkipDecoder(data[consumed:len(data):len(data)])
			}
		}
		b, err := d.SkipN(len(follow))
		if err == nil && string(b) == string(follow) {
			return o, 1
		}
		return o, 0
	})

	// 5. ReaderSkipDecoder over the scripted io.Reader itself
	oRSD, fRSD := c02Guard(4, len(vals), false, func() (VL, int) {
		var o VL
		src := newSrc()
		var d *thrift.ReaderSkipDecoder
		if fresh {
			d = &thrift.ReaderSkipDecoder{}
			d.Reset(src)
		} else {
			d = thrift.NewReaderSkipDecoder(src)
		}
		defer func() { d.Release() }()
		for i, v := range vals {
			b, err := d.Next(thrift.TType(v.T))
			if err != nil {
				return append(o, Ls(I(1), I(0), I(src.pos))), 0
			}
			o = append(o, Ls(I(0), c02Ret(b, encs[i]), I(src.pos)))
			if rel {
				d.Release()
				d = thrift.NewReaderSkipDecoder(src)
			}
		}
		b, err := d.SkipN(len(follow))
		if err == nil && string(b) == string(follow) {
			return o, 1
		}
		return o, 0
	})
	return Ls(xencs, oBS, oBR, I(fBR), oSD, I(fSD), oBSD, I(fBSD), oRSD, I(fRSD))
}

// A skipper that does not return within the deadline is reported as (-98) (a hang is a
// failure of the property); that skipper is not run again in this process, the goroutine
// stuck inside it cannot be stopped.
var c02Hung [5]bool
var c02Dev [5]int

// c02Guard runs one skipper on one case.  [want] is the number of values: when the skipper
// (on a script that cannot stall) did not skip them all with follow-up bytes in place, the
// case is a deviation: memory is returned to the OS (a mis-skipped stream makes the stream
// decoders allocate whatever "length" they read next), and after 10 deviations the skipper is
// not run any more in this process and reports (-97) — the deviating cases themselves are
// reported in full.
func c02Guard(i int, want int, lenient bool, f func() (VL, int)) (VL, int) {
	if c02Hung[i] {
		return VL{Ls(I(-98))}, 0
	}
	if c02Dev[i] >= 10 {
		return VL{Ls(I(-97))}, 0
	}
	type res struct {
		o  VL
		fl int
		pv interface{}
	}
	ch := make(chan res, 1)
	go func() {
		var r res
		defer func() {
			if pv := recover(); pv != nil {
				r.pv = pv
			}
			ch <- r
		}()
		r.o, r.fl = f()
	}()
	select {
	case r := <-ch:
		bad := r.pv != nil || len(r.o) != want || (i != 0 && r.fl != 1)
		for _, it := range r.o {
			l := AsList(it)
			if AsInt(l[0]) != 0 {
				bad = true // an error (or -97/-98)
			} else if i >= 2 {
				if _, same := l[1].(VI); !same {
					bad = true // returned bytes differ from the encoding
				}
			}
		}
		if bad && !lenient {
			c02Dev[i]++
			runtime.GC()
			runtime.GC()
			debug.FreeOSMemory()
		}
		if r.pv != nil {
			panic(r.pv)
		}
		return r.o, r.fl
	case <-time.After(20 * time.Second):
		c02Hung[i] = true
		return VL{Ls(I(-98))}, 0
	}
}

// ---------- generator ----------
var c02Types = []int{2, 3, 4, 6, 8, 10, 11, 12, 13, 14, 15}
var c02WeirdTags = []int{0, 1, 5, 7, 9, 16, 17, 0x7f, 0x80, 0x81, 0xc8, 0xff}

type c02Script struct {
	name string
	sc   V
}

// scripts for a stream whose values end at the offsets ends[] (last = total value bytes) and
// whose total length is n
func c02Scripts(g *Gen, ends []int, n int) []c02Script {
	eof, inj := 20, 21
	mk := func(fin, with int, ch ...V) V { return Ls(I(fin), I(with), Ls(ch...)) }
	rep := func(c, k int) V { return Ls(I(c), I(k)) }
	var exact []V
	prev := 0
	for _, e := range ends {
		if e > prev {
			exact = append(exact, I(e-prev))
		}
		prev = e
	}
	var exact0 []V // the same with empty reads around every value end
	for _, c := range exact {
		exact0 = append(exact0, I(0), c, I(0), I(0))
	}
	last := ends[len(ends)-1]
	short := []V{I(3), I(1), I(7), I(100), I(2), rep(997, n/997+2)}
	return []c02Script{
		{"one", mk(eof, 0)},
		{"one+eof", mk(eof, 1)},
		{"one+inj", mk(inj, 1)},
		{"bytewise", mk(eof, 0, rep(1, n+2))},
		{"bytewise+eof", mk(eof, 1, rep(1, n+2))},
		{"short", mk(eof, 0, short...)},
		{"short+eof", mk(inj, 1, short...)},
		{"empties", mk(eof, 1, I(0), I(5), I(0), I(0), I(700), rep(0, 99), I(1), rep(0, 99), rep(4000, n/4000+2))},
		{"bigchunk", mk(eof, 0, I(3*4096), I(1), rep(5*4096, n/4096+2))},
		{"exact", mk(eof, 0, exact...)},
		{"exact+eof", mk(eof, 1, exact...)},
		{"exact0", mk(eof, 1, exact0...)},
		{"split-1", mk(eof, 1, I(last-1), I(1), rep(1, 3))},
		{"split+1", mk(eof, 1, I(last+1), I(1))},
		{"twos", mk(eof, 1, rep(2, n/2+2))},
		{"stall", mk(eof, 0, I(1), rep(0, 100), rep(50, n/50+2))},
		{"rand", mk(eof, g.R.Intn(2), I(g.R.Intn(9)), I(g.R.Intn(9)), I(g.R.Intn(300)), I(g.R.Intn(5000)), rep(1+g.R.Intn(40), n+2))},
	}
}

type c02Gen struct {
	g  *Gen
	sn int
}

func (c *c02Gen) u(t int) uint64 {
	r := c.g.R
	var x uint64
	switch r.Intn(4) {
	case 0:
		x = r.Uint64()
	case 1:
		x = ^uint64(0)
	case 2:
		x = uint64(r.Intn(3))
	default:
		x = uint64(1) << uint(r.Intn(64))
	}
	switch t {
	case 2:
		if r.Intn(3) > 0 {
			return x & 1
		}
		return x & 0xff
	case 3:
		return x & 0xff
	case 6:
		return x & 0xffff
	case 8:
		return x & 0xffffffff
	}
	return x
}

func (c *c02Gen) str(n int) *c02Val {
	r := c.g.R
	if n <= 24 && r.Intn(2) == 0 {
		b := make([]byte, n)
		r.Read(b)
		return c02Str(Bs(b))
	}
	return c02Str(PatV(r.Intn(256), n))
}

func (c *c02Gen) smallStr() *c02Val {
	r := c.g.R
	switch r.Intn(6) {
	case 0:
		return c.str(0)
	case 1:
		return c.str(1)
	default:
		return c.str(r.Intn(20))
	}
}

func (c *c02Gen) fid() int {
	r := c.g.R
	switch r.Intn(5) {
	case 0:
		return []int{0, 1, 0x7fff, 0x8000, 0xffff, 0x00ff, 0x0100}[r.Intn(7)]
	case 1:
		return r.Intn(65536)
	default:
		return 1 + r.Intn(30)
	}
}

// a value of type t; containers get up to w members and nest at most d more levels
func (c *c02Gen) val(t, d, w int) *c02Val {
	r := c.g.R
	switch t {
	case 2, 3, 4, 6, 8, 10:
		return c02Scalar(t, c.u(t))
	case 11:
		return c.smallStr()
	}
	pick := func() int {
		if d <= 0 {
			return c02Types[r.Intn(7)] // scalars and strings only
		}
		return c02Types[r.Intn(len(c02Types))]
	}
	n := 0
	if d > 0 || r.Intn(2) == 0 {
		n = r.Intn(w + 1)
	}
	switch t {
	case 12:
		v := &c02Val{T: 12}
		for i := 0; i < n; i++ {
			ft := pick()
			v.Fields = append(v.Fields, c02Field{FT: ft, ID: c.fid(), V: c.val(ft, d-1, w)})
		}
		return v
	case 13:
		kt, vt := pick(), pick()
		v := &c02Val{T: 13, KT: kt, VT: vt}
		for i := 0; i < n; i++ {
			v.KVs = append(v.KVs, [2]*c02Val{c.val(kt, d-1, w), c.val(vt, d-1, w)})
		}
		if n == 0 && r.Intn(2) == 0 {
			v.KT, v.VT = c.anyTag(), c.anyTag()
		}
		return v
	default:
		et := pick()
		v := &c02Val{T: t, KT: et}
		for i := 0; i < n; i++ {
			v.Elems = append(v.Elems, c.val(et, d-1, w))
		}
		if n == 0 && r.Intn(2) == 0 {
			v.KT = c.anyTag()
		}
		return v
	}
}

func (c *c02Gen) anyTag() int {
	r := c.g.R
	if r.Intn(3) == 0 {
		return r.Intn(256)
	}
	return c02WeirdTags[r.Intn(len(c02WeirdTags))]
}

func (c *c02Gen) trailing(k int) V {
	r := c.g.R
	switch k % 6 {
	case 0:
		return Bs(nil)
	case 1:
		return Bs([]byte{byte(r.Intn(256))})
	case 2:
		b := make([]byte, 1+r.Intn(12))
		r.Read(b)
		return Bs(b)
	case 3:
		return Bs([]byte{0x0b, 0, 0, 0, 1, 0x61, 0x0f, 0x08, 0x7f, 0xff, 0xff, 0xff}) // looks like more values
	case 4:
		return PatV(r.Intn(256), 17+r.Intn(300))
	default:
		return PatV(r.Intn(256), 4096+r.Intn(5000))
	}
}

func c02Ends(vals []*c02Val) ([]int, int) {
	var ends []int
	tot := 0
	for _, v := range vals {
		tot += len(c02Enc(nil, v))
		ends = append(ends, tot)
	}
	return ends, tot
}

// scripts whose cost in the (list-based) reader models is quadratic in the stream length
var c02Fine = map[string]string{"bytewise": "short", "bytewise+eof": "short+eof", "twos": "bigchunk", "rand": "exact+eof"}

// add one case: values, trailing and script chosen by a walk over all (script, trailing kind)
// pairs (or all scripts, or the named script).  Streams above 2500 bytes get the fine-grained
// scripts only when asked for by name: the reader models are quadratic there.
func (c *c02Gen) addS(class string, vals []*c02Val, opts int, allScripts bool, name string) {
	ends, tot := c02Ends(vals)
	var trees VL
	for _, v := range vals {
		trees = append(trees, c02ToV(v))
	}
	ns := 17
	tk := c.sn + c.sn/ns
	tr := c.trailing(tk)
	if name != "" && tot > 12000 {
		tr = c.trailing(tk%5) // no long trailing for the expensive named cases
	}
	n := tot + len(AsBytes(tr))
	scripts := c02Scripts(c.g, ends, n)
	byName := func(nm string) c02Script {
		for _, s := range scripts {
			if s.name == nm {
				return s
			}
		}
		panic("c02: no script " + nm)
	}
	coarse := func(s c02Script) c02Script {
		if alt, ok := c02Fine[s.name]; ok && n > 12000 {
			return byName(alt)
		}
		return s
	}
	if allScripts {
		for _, s := range scripts {
			s = coarse(s)
			c.g.Add(class+"/"+s.name, Ls(trees, tr, s.sc, I(opts)))
		}
		c.sn++
		return
	}
	var s c02Script
	if name != "" {
		s = byName(name)
	} else {
		s = coarse(scripts[c.sn%len(scripts)])
	}
	c.sn++
	c.g.Add(class+"/"+s.name, Ls(trees, tr, s.sc, I(opts)))
}

func (c *c02Gen) add(class string, vals []*c02Val, opts int, allScripts bool) {
	c.addS(class, vals, opts, allScripts, "")
}

func (c *c02Gen) rep(v *c02Val, k int) []*c02Val {
	out := make([]*c02Val, k)
	for i := range out {
		out[i] = v
	}
	return out
}

func genC02(g *Gen) {
	c := &c02Gen{g: g}
	r := g.R
	one := func(v *c02Val) []*c02Val { return []*c02Val{v} }

	// 1. scalars and strings: every scalar type, boundary string sizes x all scripts
	for _, t := range []int{2, 3, 4, 6, 8, 10} {
		c.add("scalar", one(c02Scalar(t, c.u(t))), 0, true)
	}
	strSizes := []int{0, 1, 2, 3, 4, 5, 255, 256, 4087, 4088, 4091, 4092, 4093, 4095, 4096, 4097, 8187, 8188, 8189, 8192, 8193, 12289}
	for _, n := range strSizes {
		c.add("string", one(c.str(n)), 0, n < 300 || n == 4092 || n == 8188)
		c.add("string", one(c.str(n)), 2, false)
	}
	for _, n := range []int{16381, 70000, 65535, 65536, 65537, 131072} { // exact multiples of 64 KiB included
		c.add("bigstring", one(c.str(n)), 2, false)
	}
	// fast-path containers whose payload is an exact multiple of 64 KiB (and its neighbours)
	for _, n := range []int{8191, 8192, 8193, 16384} {
		c.add("list-fast-64k", one(&c02Val{T: 15, KT: 10, Elems: c.rep(c02Scalar(10, c.u(10)), n)}), 2, false)
	}
	{
		kv := [2]*c02Val{c02Scalar(10, c.u(10)), c02Scalar(4, c.u(4))}
		m := &c02Val{T: 13, KT: 10, VT: 4}
		for i := 0; i < 4096; i++ {
			m.KVs = append(m.KVs, kv)
		}
		c.add("map-fast-64k", one(m), 2, false)
		c.add("struct-set-64k", one(&c02Val{T: 12, Fields: []c02Field{{8, 1, c02Scalar(8, 5)},
			{14, 2, &c02Val{T: 14, KT: 8, Elems: c.rep(c02Scalar(8, c.u(8)), 16384)}}, {10, 3, c02Scalar(10, 9)}}}), 2, false)
	}
	// a few long streams under fine-grained fragmentation (expensive in the models)
	c.addS("string-fine", one(c.str(4097)), 2, false, "bytewise+eof")
	c.addS("string-fine", one(c.str(4093)), 0, false, "bytewise")
	c.addS("string-fine", one(c.str(8189)), 2, false, "twos")

	// 2. maps: all 11x11 key/value combinations x sizes 0,1,2,many
	for _, kt := range c02Types {
		for _, vt := range c02Types {
			for _, n := range []int{0, 1, 2, 3 + r.Intn(6)} {
				v := &c02Val{T: 13, KT: kt, VT: vt}
				for i := 0; i < n; i++ {
					v.KVs = append(v.KVs, [2]*c02Val{c.val(kt, 1, 2), c.val(vt, 1, 2)})
				}
				c.add("map", one(v), 0, false)
			}
		}
	}
	// 3. lists and sets: all 11 element types x sizes 0,1,2,many; big counts through repeats
	for _, t := range []int{14, 15} {
		for _, et := range c02Types {
			for _, n := range []int{0, 1, 2, 3 + r.Intn(8), 40 + r.Intn(30)} {
				v := &c02Val{T: t, KT: et}
				for i := 0; i < n; i++ {
					v.Elems = append(v.Elems, c.val(et, 1, 2))
				}
				c.add("list", one(v), 0, false)
			}
			el := c.val(et, 1, 2)
			cnt := 300 + r.Intn(1500)
			if c02FixedW(et) == 0 { // slow path: the decoder models are quadratic in (calls x bytes)
				if m := 12000 / len(c02Enc(nil, el)); cnt > m {
					cnt = m + 2
				}
			}
			big := &c02Val{T: t, KT: et, Elems: c.rep(el, cnt)}
			c.add("list-big", one(big), 2, false)
		}
	}
	// fast-path containers crossing the buffer sizes, map with big counts
	for _, n := range []int{511, 512, 513, 1023, 1024, 1025, 5000} {
		c.add("list-fast-big", one(&c02Val{T: 15, KT: 10, Elems: c.rep(c02Scalar(10, c.u(10)), n)}), 0, false)
		c.add("list-fast-big", one(&c02Val{T: 14, KT: 3, Elems: c.rep(c02Scalar(3, c.u(3)), n*8)}), 0, false)
		kv := [2]*c02Val{c02Scalar(8, c.u(8)), c02Scalar(6, c.u(6))}
		m := &c02Val{T: 13, KT: 8, VT: 6}
		for i := 0; i < n; i++ {
			m.KVs = append(m.KVs, kv)
		}
		c.add("map-fast-big", one(m), 0, false)
		kv2 := [2]*c02Val{c.str(3), c02Scalar(10, c.u(10))}
		m2 := &c02Val{T: 13, KT: 11, VT: 10}
		for i := 0; i < 250+n%50; i++ { // 15 bytes per entry: crosses the 4096-byte buffer
			m2.KVs = append(m2.KVs, kv2)
		}
		c.add("map-slow-big", one(m2), 2, false)
	}
	// 4. empty containers with arbitrary tag bytes
	for _, tg := range append(append([]int{}, c02WeirdTags...), c02Types...) {
		c.add("empty-tag", one(&c02Val{T: 15, KT: tg}), 0, false)
		c.add("empty-tag", one(&c02Val{T: 14, KT: tg}), 0, false)
		c.add("empty-tag", one(&c02Val{T: 13, KT: tg, VT: c.anyTag()}), 0, false)
		c.add("empty-tag", one(&c02Val{T: 13, KT: c02Types[r.Intn(11)], VT: tg}), 0, false)
		// nested: a list of empty lists with weird tags
		c.add("empty-tag", one(&c02Val{T: 15, KT: 15, Elems: []*c02Val{{T: 15, KT: tg}, {T: 15, KT: c.anyTag()}}}), 0, false)
	}
	// 5. structs: 0,1,2,many fields of every type, boundary field ids
	c.add("struct", one(&c02Val{T: 12}), 0, true)
	for _, ft := range c02Types {
		for _, id := range []int{0, 1, 0x7fff, 0x8000, 0xffff} {
			v := &c02Val{T: 12, Fields: []c02Field{{ft, id, c.val(ft, 1, 2)}}}
			c.add("struct1", one(v), 0, false)
		}
		v := &c02Val{T: 12}
		for i := 0; i < 2+r.Intn(12); i++ {
			ft2 := ft
			if i%2 == 1 {
				ft2 = c02Types[r.Intn(11)]
			}
			v.Fields = append(v.Fields, c02Field{ft2, c.fid(), c.val(ft2, 2, 3)})
		}
		c.add("structN", one(v), 0, false)
	}
	{
		f := c02Field{8, 7, c02Scalar(8, 0x01020304)}
		v := &c02Val{T: 12}
		for i := 0; i < 2000; i++ {
			v.Fields = append(v.Fields, f)
		}
		c.add("struct-big", one(v), 2, false)
	}
	// 6. nesting chains up to 63 for every container kind and leaf kind
	leafs := []func() *c02Val{
		func() *c02Val { return c02Scalar(8, c.u(8)) },
		func() *c02Val { return c.str(r.Intn(6)) },
		func() *c02Val { return c02Scalar(2, 1) },
	}
	wrap := func(kind int, in *c02Val) *c02Val {
		switch kind {
		case 0:
			return &c02Val{T: 15, KT: in.T, Elems: []*c02Val{in}}
		case 1:
			return &c02Val{T: 14, KT: in.T, Elems: []*c02Val{in, in}}
		case 2:
			return &c02Val{T: 12, Fields: []c02Field{{in.T, c.fid(), in}}}
		case 3:
			k := c02Scalar(6, c.u(6))
			return &c02Val{T: 13, KT: 6, VT: in.T, KVs: [][2]*c02Val{{k, in}}}
		case 4:
			return &c02Val{T: 13, KT: in.T, VT: 11, KVs: [][2]*c02Val{{in, c.str(2)}}}
		default:
			return &c02Val{T: 13, KT: in.T, VT: in.T, KVs: [][2]*c02Val{{in, in}}}
		}
	}
	for _, depth := range []int{1, 2, 3, 7, 31, 32, 33, 61, 62, 63} {
		for kind := 0; kind < 6; kind++ {
			if (kind == 1 || kind == 5) && depth > 7 {
				continue // doubling kinds are exponential
			}
			for li, lf := range leafs {
				v := lf()
				for i := 0; i < depth; i++ {
					v = wrap(kind, v)
				}
				c.add("nest", one(v), 0, false)
				if li == 0 {
					// the innermost container empty (height exactly depth)
					var e *c02Val
					if kind == 2 {
						e = &c02Val{T: 12}
					} else if kind >= 3 {
						e = &c02Val{T: 13, KT: c.anyTag(), VT: c.anyTag()}
					} else {
						e = &c02Val{T: 15 - kind, KT: c.anyTag()}
					}
					for i := 1; i < depth; i++ {
						e = wrap(kind, e)
					}
					c.add("nest-empty", one(e), 0, false)
				}
			}
		}
		// mixed kinds
		v := c02Lf2(c, r)
		for i := 0; i < depth; i++ {
			v = wrap([]int{0, 2, 3, 4}[r.Intn(4)], v)
		}
		c.add("nest-mixed", one(v), 0, false)
	}
	// 7. strings inside containers crossing the buffer sizes (slow paths with big SkipN)
	for _, n := range []int{4080, 4096, 8192, 9000} {
		s := c.str(n)
		c.add("list-bigstr", one(&c02Val{T: 15, KT: 11, Elems: []*c02Val{c.str(5), s, c.str(1), s}}), 2, false)
		c.add("map-bigstr", one(&c02Val{T: 13, KT: 11, VT: 11, KVs: [][2]*c02Val{{c.str(2), s}, {s, c.str(0)}}}), 0, false)
		c.add("struct-bigstr", one(&c02Val{T: 12, Fields: []c02Field{{8, 1, c02Scalar(8, 5)}, {11, 2, s}, {11, 3, c.str(n / 2)}, {10, 4, c02Scalar(10, 9)}}}), 2, false)
	}
	// growing SkipN sizes (ReaderSkipDecoder grows its buffer at every step)
	{
		v := &c02Val{T: 12}
		for i := 0; i < 14; i++ {
			v.Fields = append(v.Fields, c02Field{11, i + 1, c.str(1 << uint(i))})
		}
		c.add("struct-growing", one(v), 2, true)
		c.addS("struct-growing", one(v), 2, false, "rand")
	}
	// 8. sequences on the same decoder / reader, with and without Release + reuse
	nseq := g.Scale(900, 8000)
	for i := 0; i < nseq; i++ {
		k := 2 + r.Intn(5)
		var vals []*c02Val
		for j := 0; j < k; j++ {
			t := c02Types[r.Intn(11)]
			if r.Intn(12) == 0 {
				vals = append(vals, c.str([]int{4090, 4096, 8190, 5000}[r.Intn(4)]))
			} else {
				vals = append(vals, c.val(t, 2, 3))
			}
		}
		c.add("seq", vals, r.Intn(4), false)
	}
	// 9. random trees
	nrand := g.Scale(4000, 60000)
	for i := 0; i < nrand; i++ {
		t := c02Types[r.Intn(11)]
		c.add("rand", one(c.val(t, 1+r.Intn(4), 1+r.Intn(5))), r.Intn(4), false)
	}
	// spread the expensive cases over the driver's shards
	r.Shuffle(len(g.cases), func(i, j int) { g.cases[i], g.cases[j] = g.cases[j], g.cases[i] })
}

func c02FixedW(t int) int {
	switch t {
	case 2, 3:
		return 1
	case 6:
		return 2
	case 8:
		return 4
	case 4, 10:
		return 8
	}
	return 0
}

func c02Lf2(c *c02Gen, r interface{ Intn(int) int }) *c02Val {
	if r.Intn(2) == 0 {
		return c02Scalar(10, c.u(10))
	}
	return c.str(r.Intn(9))
}

func init() {
	register("C02", &Prop{Gen: genC02, Run: c02Run})
}
