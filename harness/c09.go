package main

// C09 — zero-copy slices stay valid until Release/Flush; caller memory is never touched.
//
// One case = one object (bufiox reader / writer, thrift.ReaderSkipDecoder) driven through a
// history.  Every slice the object hands out is RETAINED and re-read after every operation;
// after every operation and inside every io.Reader/io.Writer callback a CO-TENANT allocates
// from every mcache size class (several blocks each), overwrites what it gets and frees it.
// Through the verif hooks the data pointers of the object's current/parked buffers are
// canonicalised to block ids in order of first appearance; these ids are the allocator oracle
// of the heap-level model, which checks that every block is fresh or legitimately pooled and
// that no block it still considers held shows up in the co-tenant's hands.
//
// input   (kind params ops)
//   kind 0 DefaultReader       params (data final with chunks)
//   kind 1 BytesReader         params (pre data spare)         caller array = pre ++ data ++ spare, buf = array[pre : pre+data : cap]
//   kind 2 DefaultWriter       params (failk)
//   kind 3 BytesWriter         params (nil pre data spare)
//   kind 4 ReaderSkipDecoder   params (data final with chunks)
//   reader ops  (0 n) Next (1 n) Peek (2 n) Skip (3 k) ReadBinary (4) ReadLen (5) Release (6 t sizes) thrift.SkipDecoder.Next(t)
//   writer ops  (0 n) Malloc (1 bytes capextra) WriteBinary (2 k off bytes) store into region k (3) Flush (4) WrittenLen
//   skip ops    (0 t sizes) Next(t) (1 n) SkipN (2 data final with chunks) Reset(new source)
//               (3) Release() — back to the package's sync.Pool, the object keeps its buffer
//               (4 data final with chunks) NewReaderSkipDecoder(new source) — out (3) iff the pool hands the released object out again
// output  ((out state allocs cots pcots after live nids)* callerok)
//   state  reader: (cur ri ro (pend*))  writer: (cur (pend*) nocache errset target)  skip: (cur n)   cur/pend/target = () | (id off len cap)
//   allocs ids of the blocks that newly appeared in the object's hands during the op, in order
//   pcots  like cots, per mcache.Malloc/Free of the op (empty unless built with the instrumented mcache)
//   cots   per callback of the op: ((class id off)*) interesting blocks the co-tenant obtained;  after: the same after the op
//   live   1 iff every retained slice still has its expected contents (and regions are pairwise disjoint)
//   nids   number of block ids assigned so far

import (
	"errors"
	"io"
	"runtime"
	"runtime/debug"
	"sync"
	"unsafe"

	"github.com/bytedance/gopkg/lang/mcache"
	"github.com/cloudwego/gopkg/bufiox"
	"github.com/cloudwego/gopkg/protocol/thrift"
)

const (
	c09Classes = 18 // co-tenant size classes 1 B .. 128 KiB
	c09PerCls  = 3
	c09B       = 4096
)

var c09ErrInjected = errors.New("c09: injected source error")
var c09ErrSink = errors.New("c09: injected sink failure")

var c09RelErr = errors.New("the caller's own processing error")

func c09ErrCode(err error) int {
	switch {
	case err == nil:
		return 0
	case errors.Is(err, io.EOF):
		return 20
	case errors.Is(err, c09ErrInjected):
		return 21
	case errors.Is(err, io.ErrNoProgress):
		return 22
	case errors.Is(err, c09ErrSink):
		return 24
	case err.Error() == "bufiox: negative count":
		return 23
	}
	return 99
}

func c09Ptr(b []byte) uintptr { return *(*uintptr)(unsafe.Pointer(&b)) }

// ---- block table: canonical ids for memory seen in the object's or the caller's hands ----
type c09Range struct {
	base uintptr
	cap  int
}
type c09Sess struct {
	ranges   []c09Range
	prevHeld map[int]bool
	snap     func() []bufiox.VerifOwnBuf // current buffer first (if any), then parked ones
	opAllocs VL
	opCots   VL
	opPool   VL // co-tenant runs at pool operations (only with the instrumented mcache)
	cotRuns  int
	inCot    bool
	closed   bool
	classes  int // co-tenant size classes 2^0 .. 2^(classes-1); raised for histories with big values
}

func (s *c09Sess) lookup(p uintptr) (int, int, bool) {
	for i, r := range s.ranges {
		if p >= r.base && p < r.base+uintptr(r.cap) {
			return i, int(p - r.base), true
		}
	}
	return -1, 0, false
}
func (s *c09Sess) intern(p uintptr, cp int) (int, int) {
	if id, off, ok := s.lookup(p); ok {
		return id, off
	}
	s.ranges = append(s.ranges, c09Range{p, cp})
	return len(s.ranges) - 1, 0
}
func (s *c09Sess) bufV(b bufiox.VerifOwnBuf) V {
	if b.Cap == 0 {
		return Ls()
	}
	id, off := s.intern(b.Base, b.Cap)
	return Ls(I(id), I(off), I(b.Len), I(b.Cap))
}

// observe: snapshot the object's buffers; ids that were not held at the previous snapshot are
// this op's allocations (in order: parked buffers first — they are older — then the current one)
func (s *c09Sess) observe() {
	if s.snap == nil {
		return
	}
	bufs := s.snap()
	held := map[int]bool{}
	order := append(append([]bufiox.VerifOwnBuf(nil), bufs[1:]...), bufs[0])
	for _, b := range order {
		if b.Cap == 0 {
			continue
		}
		id, _ := s.intern(b.Base, b.Cap)
		if !s.prevHeld[id] && !held[id] {
			s.opAllocs = append(s.opAllocs, I(id))
		}
		held[id] = true
	}
	s.prevHeld = held
}

// the co-tenant: allocate from every size class, overwrite, free
func (s *c09Sess) cotRun() V {
	s.cotRuns++
	var got VL
	var held [][]byte
	for cl := 0; cl < s.classes; cl++ {
		for k := 0; k < c09PerCls; k++ {
			b := mcache.Malloc(1 << cl)
			fill := byte(0xC7 + s.cotRuns)
			if id, off, ok := s.lookup(c09Ptr(b)); ok {
				got = append(got, Ls(I(cl), I(id), I(off)))
				for i := range b {
					b[i] = fill
				}
			} else {
				n := len(b)
				if n > 64 {
					n = 64
				}
				for i := 0; i < n; i++ {
					b[i], b[len(b)-1-i] = fill, fill
				}
			}
			held = append(held, b)
		}
	}
	// blocks the object once held go back first: sync.Pool then hands them (dirty) to the
	// object's next Malloc of that class, which exercises pooled reuse
	for i := len(held) - 1; i >= 0; i-- {
		if _, _, ok := s.lookup(c09Ptr(held[i])); ok {
			mcache.Free(held[i])
			held[i] = nil
		}
	}
	for i := len(held) - 1; i >= 0; i-- {
		if held[i] != nil {
			mcache.Free(held[i])
		}
	}
	return got
}

func (s *c09Sess) callback() {
	s.inCot = true
	s.observe()
	s.opCots = append(s.opCots, s.cotRun())
	s.inCot = false
}

// poolPoint runs at every mcache.Malloc (entry) and accepted mcache.Free (exit) of the object
// when the harness is built with the instrumented mcache (check builds it that way for C09).
func (s *c09Sess) poolPoint() {
	if s.inCot || s.closed {
		return
	}
	s.inCot = true
	s.observe()
	s.opPool = append(s.opPool, s.cotRun())
	s.inCot = false
}

func (s *c09Sess) close() {
	s.closed = true
	if c09SetPoolHook != nil {
		c09SetPoolHook(nil)
	}
}

// c09SetPoolHook is provided by c09_mcachehook.go (build tag verif_mcache); nil otherwise.
var c09SetPoolHook func(f func())

// finish one op: final snapshot, state, co-tenant, live check
func (s *c09Sess) endOp(out V, state func() V, liveok func() bool) V {
	s.observe()
	st := state()
	allocs, cots := s.opAllocs, s.opCots
	s.opAllocs, s.opCots = nil, nil
	if allocs == nil {
		allocs = VL{}
	}
	if cots == nil {
		cots = VL{}
	}
	s.inCot = true
	after := s.cotRun()
	s.inCot = false
	if after == nil {
		after = VL{}
	}
	pcots := s.opPool
	s.opPool = nil
	if pcots == nil {
		pcots = VL{}
	}
	return Ls(out, st, allocs, cots, pcots, after, Bo(liveok()), I(len(s.ranges)))
}

var c09Once sync.Once

func c09NewSess() *c09Sess { return c09NewSessN(c09Classes) }

func c09NewSessN(classes int) *c09Sess {
	c09Once.Do(func() {
		runtime.GOMAXPROCS(1) // one P: sync.Pool hands a freed block to the next Get of its class
		debug.SetGCPercent(-1)
	})
	runtime.GC() // between cases only: within a case no address is ever reused
	s := &c09Sess{prevHeld: map[int]bool{}, classes: classes}
	s.inCot = true
	s.cotRun() // warm-up: the pools hold dirty blocks
	s.inCot = false
	s.cotRuns = 0
	if c09SetPoolHook != nil {
		c09SetPoolHook(s.poolPoint)
	}
	return s
}

// ---- scripted source (Model/Own.v src_read) with a callback before every Read ----
type c09Src struct {
	data   []byte
	final  error
	with   bool
	chunks []int
	pos    int
	cb     func()
}

func (s *c09Src) Read(p []byte) (int, error) {
	if s.cb != nil {
		s.cb()
	}
	room := len(p)
	c := room
	if len(s.chunks) > 0 {
		c = s.chunks[0]
		s.chunks = s.chunks[1:]
	}
	remaining := len(s.data) - s.pos
	if remaining == 0 {
		return 0, s.final
	}
	m := c
	if room < m {
		m = room
	}
	if remaining < m {
		m = remaining
	}
	copy(p, s.data[s.pos:s.pos+m])
	s.pos += m
	if s.with && m == remaining && m != 0 {
		return m, s.final
	}
	return m, nil
}

func c09Expand(v V) []int {
	var out []int
	for _, it := range AsList(v) {
		if l, ok := it.(VL); ok {
			c, k := AsInt(l[0]), AsInt(l[1])
			for i := 0; i < k; i++ {
				out = append(out, c)
			}
		} else {
			out = append(out, AsInt(it))
		}
	}
	return out
}

func c09MkSrc(p []V, cb func()) *c09Src {
	fin := io.EOF
	if AsInt(p[1]) == 21 {
		fin = c09ErrInjected
	}
	return &c09Src{data: AsBytes(p[0]), final: fin, with: AsBool(p[2]), chunks: c09Expand(p[3]), cb: cb}
}

type c09Live struct {
	b    []byte
	want []byte
}

func c09LiveOK(live []c09Live) bool {
	for _, l := range live {
		if string(l.b) != string(l.want) {
			return false
		}
	}
	return true
}

func c09Seg(data []byte, pos, n int) []byte {
	if pos > len(data) {
		pos = len(data)
	}
	if pos+n > len(data) {
		n = len(data) - pos
	}
	return append([]byte(nil), data[pos:pos+n]...)
}

// ---------------- readers ----------------
func c09RunReader(kind int, p []V, ops []V) V {
	s := c09NewSess()
	var r *bufiox.DefaultReader
	var stream, arr, pristine []byte
	if kind == 0 {
		src := c09MkSrc(p, s.callback)
		stream = src.data
		r = bufiox.NewDefaultReader(src)
	} else {
		pre, data, spare := AsBytes(p[0]), AsBytes(p[1]), AsBytes(p[2])
		arr = append(append(append(make([]byte, 0, len(pre)+len(data)+len(spare)), pre...), data...), spare...)
		pristine = append([]byte(nil), arr...)
		buf := arr[len(pre) : len(pre)+len(data) : len(arr)]
		if cap(buf) > 0 {
			s.intern(c09Ptr(arr[:1]), len(arr))
		}
		stream = data
		br := bufiox.NewBytesReader(buf)
		r = &br.DefaultReader
	}
	s.snap = func() []bufiox.VerifOwnBuf {
		st := bufiox.VerifOwnReader(r)
		return append([]bufiox.VerifOwnBuf{st.Buf}, st.Pending...)
	}
	state := func() V {
		st := bufiox.VerifOwnReader(r)
		var pd VL = VL{}
		for _, b := range st.Pending {
			pd = append(pd, s.bufV(b))
		}
		return Ls(s.bufV(st.Buf), I(st.Ri), Bo(st.ReadOnly), pd)
	}
	var live []c09Live
	cur := 0
	sliceV := func(b []byte) V {
		if len(b) == 0 {
			return Ls(I(0), Bs(b), I(-1), I(0))
		}
		id, off, ok := s.lookup(c09Ptr(b))
		if !ok {
			id, off = -2, 0
		}
		return Ls(I(0), Bs(b), I(id), I(off))
	}
	var outs VL
	for _, o := range ops {
		a := AsList(o)
		var out V
		liveok := true
		switch AsInt(a[0]) {
		case 0, 1:
			n := AsInt(a[1])
			var b []byte
			var err error
			if AsInt(a[0]) == 0 {
				b, err = r.Next(n)
			} else {
				b, err = r.Peek(n)
			}
			s.observe() // the slice may live in a buffer allocated by this very op
			if err != nil {
				out = Ls(I(1), I(c09ErrCode(err)))
			} else if b == nil && n != 0 {
				out = Ls(I(2))
			} else {
				out = sliceV(b)
				live = append(live, c09Live{b, c09Seg(stream, cur, n)})
				if AsInt(a[0]) == 0 {
					cur += n
				}
			}
		case 2:
			n := AsInt(a[1])
			if err := r.Skip(n); err != nil {
				out = Ls(I(1), I(c09ErrCode(err)))
			} else {
				out = Ls(I(3))
				cur += n
			}
		case 3:
			k := AsInt(a[1])
			bs := make([]byte, k)
			m, err := r.ReadBinary(bs)
			mm := m
			if mm > k {
				mm = k
			}
			if mm < 0 {
				mm = 0
			}
			out = Ls(I(4), I(m), Bs(bs[:mm]), I(c09ErrCode(err)))
			cur += mm
		case 4:
			out = Ls(I(5), I(r.ReadLen()))
		case 5:
			liveok = c09LiveOK(live) // every live slice is re-read right before the Release
			// Release(e): e is the caller's own processing error; it must make no difference to the reader
			if relN++; relN&1 == 0 {
				r.Release(c09RelErr)
			} else {
				r.Release(nil)
			}
			live = nil
			out = Ls(I(3))
		case 6:
			sd := thrift.NewSkipDecoder(r)
			b, err := sd.Next(thrift.TType(AsInt(a[1])))
			sd.Release()
			s.observe()
			if err != nil {
				out = Ls(I(1), I(c09ErrCode(err)))
			} else {
				out = sliceV(b)
				live = append(live, c09Live{b, c09Seg(stream, cur, len(b))})
				cur += len(b)
			}
		default:
			panic("c09: bad reader op")
		}
		lk := liveok
		outs = append(outs, s.endOp(out, state, func() bool { return lk && c09LiveOK(live) }))
	}
	s.close()
	callerok := string(arr) == string(pristine)
	runtime.KeepAlive(arr)
	return Ls(outs, Bo(callerok))
}

// ---------------- writers ----------------
type c09Sink struct {
	calls, failAt int
	got           [][]byte
	cb            func()
}

func (k *c09Sink) Write(p []byte) (int, error) {
	k.calls++
	if k.cb != nil {
		k.cb()
	}
	if k.calls == k.failAt {
		return 0, c09ErrSink
	}
	k.got = append(k.got, append([]byte(nil), p...))
	return len(p), nil
}

type c09Region struct {
	b      []byte
	stored []byte // what the caller last stored (nil: nothing yet)
	mask   []bool
	log    int // logical offset
}

func c09RunWriter(kind int, p []V, ops []V) V {
	s := c09NewSess()
	var w *bufiox.DefaultWriter
	var bw *bufiox.BytesWriter
	sink := &c09Sink{cb: s.callback}
	var target []byte
	var arr, pristine []byte
	protected := 0 // arr[:protected] must never change
	if kind == 2 {
		sink.failAt = AsInt(p[0])
		w = bufiox.NewDefaultWriter(sink)
	} else {
		if AsInt(p[0]) == 0 {
			pre, data, spare := AsBytes(p[1]), AsBytes(p[2]), AsBytes(p[3])
			arr = append(append(append(make([]byte, 0, len(pre)+len(data)+len(spare)), pre...), data...), spare...)
			target = arr[len(pre) : len(pre)+len(data) : len(arr)]
			if target == nil {
				target = []byte{}
			}
			pristine = append([]byte(nil), arr...)
			protected = len(pre) + len(data)
			if cap(target) > 0 {
				s.intern(c09Ptr(arr[:1]), len(arr))
			}
		}
		bw = bufiox.NewBytesWriter(&target)
		w = &bw.DefaultWriter
	}
	initial := append([]byte(nil), target...)
	s.snap = func() []bufiox.VerifOwnBuf {
		st := bufiox.VerifOwnWriter(w)
		return append([]bufiox.VerifOwnBuf{st.Buf}, st.Pending...)
	}
	state := func() V {
		st := bufiox.VerifOwnWriter(w)
		var pd VL = VL{}
		for _, b := range st.Pending {
			pd = append(pd, s.bufV(b))
		}
		var tg V = Ls()
		if kind == 3 && cap(target) > 0 {
			if id, off, ok := s.lookup(c09Ptr(target[:1])); ok {
				tg = Ls(I(id), I(off), I(len(target)), I(cap(target)))
			} else {
				tg = Ls(I(-2), I(0), I(len(target)), I(cap(target)))
			}
		}
		return Ls(s.bufV(st.Buf), pd, Bo(st.DisableCache), Bo(st.ErrSet), tg)
	}
	var regions []*c09Region // every Malloc region ever handed out
	var liveRegs []*c09Region
	var shadow []byte // expected unflushed output
	var known []bool
	if kind == 3 {
		shadow = append(shadow, initial...)
		for range initial {
			known = append(known, true)
		}
	}
	var payloads [][2][]byte // (payload array, pristine copy)
	regsOK := func() bool {
		for i, r := range liveRegs {
			for j := range r.b {
				if r.mask[j] && r.b[j] != r.stored[j] {
					return false
				}
			}
			for _, q := range liveRegs[:i] { // pairwise disjoint
				if len(r.b) > 0 && len(q.b) > 0 {
					a0, a1 := c09Ptr(r.b), c09Ptr(r.b)+uintptr(len(r.b))
					b0, b1 := c09Ptr(q.b), c09Ptr(q.b)+uintptr(len(q.b))
					if a0 < b1 && b0 < a1 {
						return false
					}
				}
			}
		}
		return true
	}
	var outs VL
	for _, o := range ops {
		a := AsList(o)
		var out V
		liveok := true
		switch AsInt(a[0]) {
		case 0:
			n := AsInt(a[1])
			b, err := w.Malloc(n)
			s.observe()
			if err != nil {
				out = Ls(I(0), I(c09ErrCode(err)), I(w.WrittenLen()), I(-1), I(0), I(0))
			} else {
				id, off := -1, 0
				if len(b) > 0 {
					var ok bool
					if id, off, ok = s.lookup(c09Ptr(b)); !ok {
						id = -2
					}
				}
				out = Ls(I(0), I(0), I(w.WrittenLen()), I(id), I(off), I(len(b)))
				r := &c09Region{b: b, stored: make([]byte, len(b)), mask: make([]bool, len(b)), log: len(shadow)}
				regions = append(regions, r)
				liveRegs = append(liveRegs, r)
				shadow = append(shadow, make([]byte, len(b))...)
				known = append(known, make([]bool, len(b))...)
			}
		case 1:
			bs := AsBytes(a[1])
			pl := make([]byte, len(bs), len(bs)+AsInt(a[2]))
			copy(pl, bs)
			full := pl[:cap(pl)]
			if cap(pl) > 0 {
				s.intern(c09Ptr(full), cap(pl))
			}
			payloads = append(payloads, [2][]byte{full, append([]byte(nil), full...)})
			n, err := w.WriteBinary(pl)
			ec := c09ErrCode(err)
			if err == nil && n != len(pl) {
				ec = 8
			}
			if err == nil {
				shadow = append(shadow, pl[:n]...)
				for i := 0; i < n; i++ {
					known = append(known, true)
				}
			}
			out = Ls(I(0), I(ec), I(w.WrittenLen()))
		case 2:
			k, off, data := AsInt(a[1]), AsInt(a[2]), AsBytes(a[3])
			ok := false
			if k >= 0 && k < len(regions) {
				r := regions[k]
				isLive := false
				for _, q := range liveRegs {
					if q == r {
						isLive = true
					}
				}
				if isLive && off >= 0 && len(data) > 0 && off+len(data) <= len(r.b) {
					copy(r.b[off:], data)
					copy(r.stored[off:], data)
					copy(shadow[r.log+off:], data)
					for i := range data {
						r.mask[off+i] = true
						known[r.log+off+i] = true
					}
					ok = true
				}
			}
			if ok {
				out = Ls(I(0), I(0), I(w.WrittenLen()))
			} else {
				out = Ls(I(0), I(9), I(w.WrittenLen()))
			}
		case 3:
			liveok = regsOK() // every region is re-read right before the Flush
			before := len(sink.got)
			hadBuf := bufiox.VerifOwnWriter(w).NonNil
			hadErr := bufiox.VerifOwnWriter(w).ErrSet
			err := w.Flush()
			var fl V = Ls()
			var flushed []byte
			gotFlush := false
			if kind == 2 && len(sink.got) > before {
				flushed, gotFlush = sink.got[len(sink.got)-1], true
			}
			if kind == 3 && err == nil && !hadErr && hadBuf {
				flushed, gotFlush = append([]byte(nil), target...), true
			}
			if gotFlush {
				fl = Ls(Bs(flushed))
				// what the caller last stored is what is flushed
				if len(flushed) != len(shadow) {
					liveok = false
				} else {
					for i := range shadow {
						if known[i] && shadow[i] != flushed[i] {
							liveok = false
						}
					}
				}
				liveRegs, shadow, known = nil, nil, nil
			}
			out = Ls(I(1), I(c09ErrCode(err)), I(w.WrittenLen()), fl)
		case 4:
			out = Ls(I(0), I(0), I(w.WrittenLen()))
		default:
			panic("c09: bad writer op")
		}
		lk := liveok
		outs = append(outs, s.endOp(out, state, func() bool { return lk && regsOK() }))
	}
	s.close()
	callerok := string(arr[:protected]) == string(pristine[:protected])
	for _, pl := range payloads {
		if string(pl[0]) != string(pl[1]) {
			callerok = false
		}
	}
	runtime.KeepAlive(arr)
	runtime.KeepAlive(regions)
	return Ls(outs, Bo(callerok))
}

// ---------------- ReaderSkipDecoder ----------------
// the co-tenant must reach the size class of the biggest buffer the history can make the decoder
// allocate: pow2ceil(stream length) is an upper bound
func c09SkipClasses(p []V, ops []V) int {
	mx := len(AsBytes(p[0]))
	for _, o := range ops {
		a := AsList(o)
		if k := AsInt(a[0]); (k == 2 || k == 4) && len(AsBytes(a[1])) > mx {
			mx = len(AsBytes(a[1]))
		}
	}
	cls := c09Classes
	for cls < 24 && 1<<(cls-1) < 2*mx {
		cls++
	}
	return cls
}

func c09RunSkip(p []V, ops []V) V {
	s := c09NewSessN(c09SkipClasses(p, ops))
	src := c09MkSrc(p, s.callback)
	d := &thrift.ReaderSkipDecoder{}
	d.Reset(src)
	s.snap = func() []bufiox.VerifOwnBuf {
		base, ln, cp, _ := thrift.VerifOwnRSD(d)
		return []bufiox.VerifOwnBuf{{Base: base, Len: ln, Cap: cp}}
	}
	state := func() V {
		base, ln, cp, n := thrift.VerifOwnRSD(d)
		return Ls(s.bufV(bufiox.VerifOwnBuf{Base: base, Len: ln, Cap: cp}), I(n))
	}
	var live []c09Live
	var outs VL
	for _, o := range ops {
		a := AsList(o)
		var out V
		switch AsInt(a[0]) {
		case 0:
			pos := src.pos
			live = nil
			b, err := d.Next(thrift.TType(AsInt(a[1])))
			s.observe()
			if err != nil {
				out = Ls(I(1), I(c09ErrCode(err)))
			} else {
				id, off := -1, 0
				if len(b) > 0 {
					var ok bool
					if id, off, ok = s.lookup(c09Ptr(b)); !ok {
						id = -2
					}
				}
				out = Ls(I(0), Bs(b), I(id), I(off))
				live = []c09Live{{b, c09Seg(src.data, pos, len(b))}}
			}
		case 1:
			live = nil // SkipN may overwrite or move the buffer of the last result
			b, err := d.SkipN(AsInt(a[1]))
			if err != nil {
				out = Ls(I(1), I(c09ErrCode(err)))
			} else {
				out = Ls(I(0), Bs(b), I(-1), I(0))
			}
		case 2:
			live = nil
			src = c09MkSrc(a[1:], s.callback)
			d.Reset(src)
			out = Ls(I(3))
		case 3:
			live = nil
			d.Release() // d stays observable through the hook: what a pooled decoder stands on
			out = Ls(I(3))
		case 4:
			live = nil
			src = c09MkSrc(a[1:], s.callback)
			d2 := thrift.NewReaderSkipDecoder(src)
			if d2 == d {
				out = Ls(I(3))
			} else { // single P, no GC inside a case: the pool's private slot returns the object just Put
				out = Ls(I(7))
				d = d2
			}
		default:
			panic("c09: bad skip op")
		}
		outs = append(outs, s.endOp(out, state, func() bool { return c09LiveOK(live) }))
	}
	s.close()
	return Ls(outs, Bo(true))
}

func init() {
	register("C09", &Prop{
		Gen: genC09,
		Run: func(in V) V {
			a := AsList(in)
			kind, p, ops := AsInt(a[0]), AsList(a[1]), AsList(a[2])
			switch kind {
			case 0, 1:
				return c09RunReader(kind, p, ops)
			case 2, 3:
				return c09RunWriter(kind, p, ops)
			case 4:
				return c09RunSkip(p, ops)
			}
			panic("c09: bad kind")
		},
	})
}

// ---------------- generator ----------------

// one thrift value for the skip decoders: type, encoding, the SkipN sizes the template asks for
type c09Val struct {
	t     int
	enc   VL // parts of a concatenation spec
	sizes []int
	n     int
}

func c09Be32(x int) []byte { return []byte{byte(x >> 24), byte(x >> 16), byte(x >> 8), byte(x)} }

func c09GenVal(g *Gen, big bool) c09Val {
	strlen := func() int {
		if big && g.R.Intn(2) == 0 {
			return []int{100, 1000, 4092, 5000, 9000}[g.R.Intn(5)]
		}
		return g.R.Intn(40)
	}
	switch g.R.Intn(6) {
	case 0: // I32
		return c09Val{8, VL{PatV(g.R.Intn(200), 4)}, []int{4}, 4}
	case 1: // I64
		return c09Val{10, VL{PatV(g.R.Intn(200), 8)}, []int{8}, 8}
	case 2: // STRING
		l := strlen()
		return c09Val{11, VL{Bs(c09Be32(l)), PatV(g.R.Intn(200), l)}, []int{4, l}, 4 + l}
	case 3: // LIST<I64>
		k := g.R.Intn(30)
		return c09Val{15, VL{Bs(append([]byte{10}, c09Be32(k)...)), PatV(g.R.Intn(200), 8*k)}, []int{5, 8 * k}, 5 + 8*k}
	case 4: // LIST<STRING>
		k := g.R.Intn(4)
		v := c09Val{15, VL{Bs(append([]byte{11}, c09Be32(k)...))}, []int{5}, 5}
		for i := 0; i < k; i++ {
			l := strlen()
			v.enc = append(v.enc, Bs(c09Be32(l)), PatV(g.R.Intn(200), l))
			v.sizes = append(v.sizes, 4, l)
			v.n += 4 + l
		}
		return v
	default: // STRUCT { 1: string, 2: i32 }
		l := strlen()
		v := c09Val{12, VL{Bs([]byte{11, 0, 1}), Bs(c09Be32(l)), PatV(g.R.Intn(200), l), Bs([]byte{8, 0, 2}), PatV(3, 4), Bs([]byte{0})},
			[]int{1, 2, 4, l, 1, 2, 4, 1}, 3 + 4 + l + 3 + 4 + 1}
		return v
	}
}

func c09Sizes(sz []int) V {
	var l VL = VL{}
	for _, x := range sz {
		l = append(l, I(x))
	}
	return l
}

func c09Chunks(g *Gen, n int) (V, int) {
	switch g.R.Intn(7) {
	case 0:
		return Ls(), g.R.Intn(2)
	case 1:
		return Ls(I(1), I(0), I(3), Ls(I(1000), I(n/1000+2))), g.R.Intn(2)
	case 2:
		return Ls(I(0), I(0), I(c09B), I(0), Ls(I(3000), I(n/3000+2))), g.R.Intn(2)
	case 3:
		return Ls(I(3*c09B), I(1), Ls(I(5*c09B), I(n/c09B+2))), 0
	case 4:
		return Ls(Ls(I(c09B), I(n/c09B+2))), 1
	case 5:
		return Ls(I(7), Ls(I(2500), I(n/2500+2))), g.R.Intn(2)
	default:
		return Ls(I(100), I(0), Ls(I(20000), I(n/20000+2))), g.R.Intn(2)
	}
}

func genC09(g *Gen) { genC09With(g, true) }

// withBig = false: only the small histories (the library of C14's modelled cycles)
func genC09With(g *Gen, withBig bool) {
	B := c09B
	// the big-value histories are expensive for the model: spread them over the case list (the
	// driver shards the list into contiguous chunks, one per core)
	var bigs []c09Case
	if withBig {
		bigs = genC09Big(g)
	}
	nbig := 0
	flushBig := func(upto int) {
		for nbig < upto && nbig < len(bigs) {
			g.Add(bigs[nbig].cls, bigs[nbig].in)
			nbig++
		}
	}
	op := func(k, n int) V { return Ls(I(k), I(n)) }
	rel, rl := Ls(I(5)), Ls(I(4))
	// ---- directed reader histories: slices retained across 0..many growths, pool reuse after Release ----
	g.Add("r/dir", Ls(I(0), Ls(PatV(1, 40000), I(20), I(0), Ls()), Ls(op(0, 10), op(1, 100), op(0, 5000), op(0, 9000), op(1, 20000), rel, op(0, 100), rel)))
	g.Add("r/dir", Ls(I(0), Ls(PatV(2, 30000), I(20), I(1), Ls(I(1000), I(3000))), Ls(op(0, 3), op(0, 4093), op(0, 1), op(1, 4096), op(0, 8000), rel, op(0, 4096), op(0, 9000), rel, op(0, 1), rel, op(0, 100000))))
	g.Add("r/dir", Ls(I(0), Ls(PatV(3, 100), I(21), I(0), Ls()), Ls(op(0, 50), op(0, 60), op(1, 50), rel, op(0, 50), rel, op(0, 1))))
	g.Add("r/dir", Ls(I(0), Ls(PatV(4, 20000), I(20), I(0), Ls(Ls(I(4096), I(10)))), Ls(op(0, 100), rel, op(0, 5000), op(0, 100), rel, op(0, 14800), rel, op(0, 10), rel)))
	g.Add("r/dir", Ls(I(0), Ls(PatV(5, 0), I(20), I(0), Ls()), Ls(op(0, 0), op(1, 0), rel, op(0, 1), rel)))
	for _, spare := range []int{0, 10, 28, 3996} {
		for _, pre := range []int{0, 16} {
			g.Add("b/dir", Ls(I(1), Ls(PatV(9, pre), PatV(7, 100), PatV(8, spare)), Ls(op(0, 10), op(1, 20), op(0, 50), rel, op(0, 10), op(1, 200), op(0, 30), rel, op(0, 1))))
			g.Add("b/dir", Ls(I(1), Ls(PatV(9, pre), PatV(7, 100), PatV(8, spare)), Ls(op(0, 100), rel, op(0, 1), rel)))
			g.Add("b/dir", Ls(I(1), Ls(PatV(9, pre), PatV(7, 4096), PatV(8, spare)), Ls(op(0, 4000), op(1, 97), rel, op(0, 96), rel, op(1, 1), rel)))
		}
	}
	g.Add("b/dir", Ls(I(1), Ls(PatV(9, 0), PatV(7, 0), PatV(8, 0)), Ls(op(0, 0), op(0, 1), rel)))
	g.Add("b/dir", Ls(I(1), Ls(PatV(9, 4), PatV(7, 0), PatV(8, 64)), Ls(op(0, 0), op(0, 1), rel, op(1, 3), rel)))
	// ---- random reader histories ----
	alpha := []int{0, 1, 2, 3, 7, 100, 1000, B - 1, B, B + 1, 2 * B, 2*B + 1, 10000, 20000}
	small := []int{0, 1, 2, 3, 5, 8, 13, 40}
	for i := 0; i < g.Scale(600, 3000); i++ {
		if i%60 == 30 {
			flushBig(nbig + 1)
		}
		bytesKind := i%3 == 0
		tiny := i%4 == 1
		var dl int
		if tiny {
			dl = g.R.Intn(80)
		} else {
			dl = []int{100, B, B + 100, 3 * B, 10 * B}[g.R.Intn(5)] + g.R.Intn(50)
		}
		nops := 2 + g.R.Intn(g.Scale(14, 30))
		if tiny {
			nops = 1 + g.R.Intn(5)
		}
		// the stream carries thrift values at its head so that op 6 (thrift.SkipDecoder) is meaningful
		var parts VL = VL{I(1)}
		var ops VL
		consumed := 0
		for j := 0; j < nops; j++ {
			sz := alpha[g.R.Intn(len(alpha))]
			if tiny || g.R.Intn(3) == 0 {
				sz = small[g.R.Intn(len(small))]
			}
			switch g.R.Intn(14) {
			case 0, 1:
				ops = append(ops, rel)
			case 2:
				ops = append(ops, rl)
			case 3:
				ops = append(ops, op(g.R.Intn(3), -1))
			case 4:
				ops = append(ops, op(2, sz))
			case 5, 6:
				ops = append(ops, op(3, sz))
			case 7, 8, 9:
				ops = append(ops, op(1, sz))
			default:
				ops = append(ops, op(0, sz))
			}
		}
		// a prefix of typed values consumed by SkipDecoder ops at the very start
		if !tiny && g.R.Intn(3) == 0 {
			var pre VL
			for j := 1 + g.R.Intn(3); j > 0; j-- {
				v := c09GenVal(g, true)
				parts = append(parts, v.enc...)
				consumed += v.n
				pre = append(pre, Ls(I(6), I(v.t), c09Sizes(v.sizes)))
				if g.R.Intn(3) == 0 {
					pre = append(pre, rel)
				}
			}
			ops = append(pre, ops...)
		}
		parts = append(parts, PatV(i, dl))
		var data V = parts
		if len(parts) == 2 {
			data = parts[1]
		}
		if bytesKind {
			spare := []int{0, 0, 7, 64, 4096}[g.R.Intn(5)]
			tot := consumed + dl
			if g.R.Intn(3) == 0 && tot > 0 { // make cap a power of two
				c := 1
				for c < tot {
					c *= 2
				}
				spare = c - tot
			}
			pre := []int{0, 0, 8}[g.R.Intn(3)]
			cls := "b/rand"
			if tiny {
				cls = "b/tiny"
			}
			g.Add(cls, Ls(I(1), Ls(PatV(3, pre), data, PatV(5, spare)), ops))
		} else {
			ch, with := c09Chunks(g, consumed+dl)
			cls := "r/rand"
			if tiny {
				cls = "r/tiny"
			}
			g.Add(cls, Ls(I(0), Ls(data, I(20+g.R.Intn(2)), I(with), ch), ops))
		}
	}
	// ---- writers ----
	wm := func(n int) V { return Ls(I(0), I(n)) }
	wb := func(seed, n, extra int) V { return Ls(I(1), PatV(seed, n), I(extra)) }
	fill := func(k, off, seed, n int) V { return Ls(I(2), I(k), I(off), PatV(seed, n)) }
	fl, wl := Ls(I(3)), Ls(I(4))
	g.Add("w/dir", Ls(I(2), Ls(I(0)), Ls(wm(10), wm(4000), wb(1, 100, 28), wm(5000), fill(0, 0, 2, 10), wm(20000), fill(2, 0, 3, 5000), fill(1, 0, 4, 4000), fill(3, 0, 5, 20000), fill(1, 5, 6, 7), fl, wm(100), fill(4, 0, 7, 100), fl, fl)))
	g.Add("w/dir", Ls(I(2), Ls(I(1)), Ls(wm(10), fill(0, 0, 2, 10), wb(1, 5000, 0), fl, wm(1), wb(2, 2, 0), fl, wl)))
	g.Add("w/dir", Ls(I(2), Ls(I(2)), Ls(wb(1, 4096, 0), fl, wb(2, 4097, 4095), wm(1), fill(0, 0, 9, 1), fl, wm(1), fl)))
	g.Add("w/dir", Ls(I(2), Ls(I(0)), Ls(fl, wm(0), fl, wm(-1), wb(1, 0, 0), wb(1, 0, 64), fl, wl)))
	// regions handed out BEFORE a very large WriteBinary stay writable until the caller's Flush
	// (reserve a length prefix, write the body, back-patch the prefix), whatever the payload size
	for _, big := range []int{65536, 70000, 200000} {
		for _, first := range []int{4, 5000} {
			g.Add("w/late-fill-big", Ls(I(2), Ls(I(0)), Ls(wm(first), wb(1, big, 0), fill(0, 0, 2, first), fl, wl)))
			g.Add("w/late-fill-big", Ls(I(2), Ls(I(0)), Ls(wm(first), wm(7), wb(1, big, 3), wb(2, big/2, 0), fill(1, 0, 3, 7), fill(0, 0, 2, first), fl, wm(3), fill(2, 0, 4, 3), fl)))
		}
		g.Add("bw/late-fill-big", Ls(I(3), Ls(I(0), PatV(1, 3), PatV(2, 0), PatV(3, 16)), Ls(wm(4), wb(1, big, 0), fill(0, 0, 2, 4), fl)))
	}
	for _, sp := range [][3]int{{0, 0, 0}, {0, 10, 0}, {0, 10, 54}, {8, 100, 3996}, {0, 0, 4096}, {4, 60, 0}} {
		g.Add("bw/dir", Ls(I(3), Ls(I(0), PatV(1, sp[0]), PatV(2, sp[1]), PatV(3, sp[2])), Ls(wm(5), fill(0, 0, 4, 5), wb(5, 40, 24), wm(5000), fill(1, 0, 6, 5000), wm(9000), fill(2, 0, 7, 9000), fl, wm(3), fill(3, 0, 8, 3), fl, wl)))
		g.Add("bw/dir", Ls(I(3), Ls(I(0), PatV(1, sp[0]), PatV(2, sp[1]), PatV(3, sp[2])), Ls(wm(2), fill(0, 0, 4, 2), fl, fl)))
	}
	g.Add("bw/dir", Ls(I(3), Ls(I(1), PatV(1, 0), PatV(2, 0), PatV(3, 0)), Ls(wm(5), fill(0, 0, 4, 5), wb(5, 4100, 0), fl, fl, wm(1), fill(1, 0, 1, 1), fl)))
	g.Add("bw/dir", Ls(I(3), Ls(I(1), PatV(1, 0), PatV(2, 0), PatV(3, 0)), Ls(fl, wl)))
	wsz := []int{0, 1, 3, 100, 1000, B - 1, B, B + 1, 10000, 30000}
	for i := 0; i < g.Scale(450, 2500); i++ {
		if i%60 == 30 {
			flushBig(nbig + 1)
		}
		tiny := (i/2)%2 == 1
		kind := 2 + i%2
		var params V
		if kind == 2 {
			params = Ls(I([]int{0, 0, 0, 1, 2, 3}[g.R.Intn(6)]))
		} else {
			dl := []int{0, 1, 50, 4000}[g.R.Intn(4)]
			spare := []int{0, 5, 64, 4096}[g.R.Intn(4)]
			if g.R.Intn(3) == 0 && dl > 0 {
				c := 1
				for c < dl {
					c *= 2
				}
				spare = c - dl
			}
			params = Ls(I(0), PatV(1, []int{0, 0, 8}[g.R.Intn(3)]), PatV(i, dl), PatV(3, spare))
			if g.R.Intn(6) == 0 {
				params = Ls(I(1), PatV(1, 0), PatV(2, 0), PatV(3, 0))
			}
		}
		nops := 2 + g.R.Intn(g.Scale(12, 25))
		if tiny {
			nops = 1 + g.R.Intn(4)
		}
		var ops VL
		type pend struct{ k, n int }
		var unfilled []pend
		nreg := 0
		flushFills := func() {
			for _, u := range unfilled {
				if u.n > 0 {
					ops = append(ops, fill(u.k, 0, g.R.Intn(250), u.n))
				}
			}
			unfilled = nil
		}
		for j := 0; j < nops; j++ {
			sz := wsz[g.R.Intn(len(wsz))]
			if tiny || g.R.Intn(3) == 0 {
				sz = small[g.R.Intn(len(small))]
			}
			switch g.R.Intn(12) {
			case 0, 1:
				flushFills()
				ops = append(ops, fl)
			case 2:
				ops = append(ops, wl)
			case 3:
				ops = append(ops, wm(-1))
			case 4, 5, 6:
				extra := []int{0, 0, 3, 64}[g.R.Intn(4)]
				if g.R.Intn(3) == 0 && sz > 0 {
					c := 1
					for c < sz {
						c *= 2
					}
					extra = c - sz
				}
				ops = append(ops, wb(g.R.Intn(250), sz, extra))
			case 7:
				if len(unfilled) > 0 { // out-of-order / partial / repeated stores
					u := unfilled[g.R.Intn(len(unfilled))]
					if u.n > 0 {
						off := g.R.Intn(u.n)
						ops = append(ops, fill(u.k, off, g.R.Intn(250), 1+g.R.Intn(u.n-off)))
					}
				}
			default:
				ops = append(ops, wm(sz))
				unfilled = append(unfilled, pend{nreg, sz})
				nreg++
				if g.R.Intn(2) == 0 {
					flushFills()
				}
			}
		}
		flushFills()
		ops = append(ops, fl)
		cls := []string{"w/rand", "bw/rand"}[kind-2]
		if tiny {
			cls = []string{"w/tiny", "bw/tiny"}[kind-2]
		}
		g.Add(cls, Ls(I(kind), params, ops))
	}
	// ---- ReaderSkipDecoder ----
	for i := 0; i < g.Scale(350, 2000); i++ {
		if i%60 == 30 {
			flushBig(nbig + 1)
		}
		tiny := i%3 == 1
		mk := func() (V, VL) {
			var parts VL = VL{I(1)}
			var ops VL
			total := 0
			for j := 1 + g.R.Intn(5); j > 0; j-- {
				v := c09GenVal(g, !tiny)
				parts = append(parts, v.enc...)
				total += v.n
				ops = append(ops, Ls(I(0), I(v.t), c09Sizes(v.sizes)))
				if g.R.Intn(8) == 0 {
					n := g.R.Intn(20)
					parts = append(parts, PatV(j, n))
					total += n
					ops = append(ops, Ls(I(1), I(n)))
				}
			}
			if g.R.Intn(4) == 0 { // a value cut short by the end of the stream
				v := c09GenVal(g, !tiny)
				if v.n > 1 {
					var cut VL = VL{I(1)}
					cut = append(cut, v.enc...)
					b := AsBytes(cut)
					parts = append(parts, Bs(b[:g.R.Intn(len(b))]))
					ops = append(ops, Ls(I(0), I(v.t), c09Sizes(v.sizes)))
				}
			}
			ch, with := c09Chunks(g, total+1)
			if tiny {
				ch = Ls(I(1), I(0), I(2))
			}
			return Ls(parts, I(20+g.R.Intn(2)), I(with), ch), ops
		}
		p, ops := mk()
		for k := g.R.Intn(3); k > 0; k-- { // Reset, or Release + New through the package's pool: p.b survives
			p2, ops2 := mk()
			if g.R.Intn(2) == 0 {
				ops = append(ops, append(VL{I(2)}, AsList(p2)...))
			} else {
				ops = append(ops, Ls(I(3)), append(VL{I(4)}, AsList(p2)...))
			}
			ops = append(ops, ops2...)
		}
		if g.R.Intn(6) == 0 {
			ops = append(ops, Ls(I(3))) // the history ends with the decoder in the pool
		}
		cls := "k/rand"
		if tiny {
			cls = "k/tiny"
		}
		g.Add(cls, Ls(I(4), p, ops))
	}
	flushBig(len(bigs))
}

// one BIG thrift value (its private buffer leaves the small size classes): n = payload size
func c09GenBigVal(g *Gen, n int) c09Val {
	form := g.R.Intn(4)
	if n >= 1<<19 { // after a big part every further SkipN re-allocates and copies the whole value: keep the MiB-sized ones flat
		form = 3 * g.R.Intn(2)
	}
	switch form {
	case 0: // LIST<I64>
		k := n / 8
		return c09Val{15, VL{Bs(append([]byte{10}, c09Be32(k)...)), PatV(g.R.Intn(200), 8*k)}, []int{5, 8 * k}, 5 + 8*k}
	case 1: // STRUCT { 1: string, 2: i32 }
		return c09Val{12, VL{Bs([]byte{11, 0, 1}), Bs(c09Be32(n)), PatV(g.R.Intn(200), n), Bs([]byte{8, 0, 2}), PatV(3, 4), Bs([]byte{0})},
			[]int{1, 2, 4, n, 1, 2, 4, 1}, 3 + 4 + n + 3 + 4 + 1}
	case 2: // LIST<STRING> of a small and a big one: the buffer grows in the middle of the value
		l0 := 1 + g.R.Intn(5000)
		return c09Val{15, VL{Bs(append([]byte{11}, c09Be32(2)...)), Bs(c09Be32(l0)), PatV(g.R.Intn(200), l0), Bs(c09Be32(n)), PatV(g.R.Intn(200), n)},
			[]int{5, 4, l0, 4, n}, 5 + 4 + l0 + 4 + n}
	default: // STRING
		return c09Val{11, VL{Bs(c09Be32(n)), PatV(g.R.Intn(200), n)}, []int{4, n}, 4 + n}
	}
}

// ReaderSkipDecoder with values beyond 64 KiB (private buffer >= 128 KiB, up to 2 MiB): skip,
// Release to the package pool, take a decoder again, skip small and big values — the co-tenant
// (whose size classes are extended to the biggest buffer) acts in between and at every pool
// operation.  Also the directed Peek-then-grow reader histories.
type c09Case struct {
	cls string
	in  V
}

func genC09Big(g *Gen) (out []c09Case) {
	add := func(cls string, in V) { out = append(out, c09Case{cls, in}) }
	op := func(k, n int) V { return Ls(I(k), I(n)) }
	rel := Ls(I(5))
	// ---- Peek with nothing consumed (ReadLen = 0), held across growth; right after New and right after Release ----
	for _, n1 := range []int{1, 100, c09B} {
		for _, n2 := range []int{c09B + 1, 3 * c09B, 40000} {
			ch := []V{Ls(), Ls(Ls(I(1000), I(60))), Ls(I(c09B), Ls(I(3000), I(30)))}[g.R.Intn(3)]
			add("r/peekgrow", Ls(I(0), Ls(PatV(n1+n2, 60000), I(20), I(g.R.Intn(2)), ch),
				Ls(op(1, n1), op(1, n2), op(1, n1), op(0, n2), rel, op(1, n1), op(1, n2+c09B), Ls(I(4)), op(0, 10), rel, rel, op(1, 2*n2), op(1, n1), rel)))
		}
	}
	add("r/peekgrow", Ls(I(0), Ls(PatV(77, 300000), I(20), I(0), Ls()),
		Ls(op(1, 10), op(1, 5000), op(1, 10000), op(1, 70000), op(1, 140000), op(0, 1), rel, op(1, 100), op(1, 280000), rel)))
	// ---- big values ----
	// payload sizes of the successive decoder users (0: a small value)
	sizesQuick := [][]int{
		{65536 + 1, 0}, {70000, 0, 70000}, {66000, 140000, 0}, {140000, 70000, 0, 300000}, {200000, 0, 0}, {0, 131073, 0, 66000},
		{300000, 0}, {70000, 70001}, {1000000, 0}, {0, 1100000, 70000},
	}
	n := len(sizesQuick)
	if g.Thor {
		n *= 6
	}
	for i := 0; i < n; i++ {
		sz := sizesQuick[i%len(sizesQuick)]
		var p V
		var ops VL
		for u, n0 := range sz {
			var parts VL = VL{I(1)}
			var uops VL
			total := 0
			addv := func(v c09Val) {
				parts = append(parts, v.enc...)
				total += v.n
				uops = append(uops, Ls(I(0), I(v.t), c09Sizes(v.sizes)))
			}
			if g.R.Intn(2) == 0 {
				addv(c09GenVal(g, false))
			}
			if n0 == 0 {
				addv(c09GenVal(g, true))
			} else {
				addv(c09GenBigVal(g, n0+g.R.Intn(3)))
			}
			if g.R.Intn(2) == 0 {
				addv(c09GenVal(g, false))
			}
			var ch V = Ls()
			switch g.R.Intn(4) {
			case 0:
				ch = Ls(I(1), I(0), Ls(I(65536), I(total/65536+2)))
			case 1:
				ch = Ls(I(3), Ls(I(total/3+1), I(5)))
			}
			srcp := Ls(parts, I(20+g.R.Intn(2)), I(g.R.Intn(2)), ch)
			switch {
			case u == 0:
				p = srcp
			case g.R.Intn(4) == 0:
				ops = append(ops, append(VL{I(2)}, AsList(srcp)...))
			default:
				ops = append(ops, Ls(I(3)), append(VL{I(4)}, AsList(srcp)...))
			}
			ops = append(ops, uops...)
		}
		ops = append(ops, Ls(I(3)))
		add("k/big", Ls(I(4), p, ops))
	}
	g.R.Shuffle(len(out), func(i, j int) { out[i], out[j] = out[j], out[i] })
	return out
}
