#!/usr/bin/env python3
"""restate.py — append 'Theorem <name> : <type>. Proof. exact (<expr>). Qed.' blocks to Properties/<ID>.v,
with <type> as printed by Coq's Check for <expr> in the context of that file plus the given imports.
One-off authoring helper (the result is ordinary source, checked by every build)."""
import subprocess, sys, os, re, json
COQ = os.path.join(os.path.dirname(os.path.dirname(os.path.abspath(__file__))), "coq")

def restate(pid, header, imports, entries):
    pf = os.path.join(COQ, "Properties", pid + ".v")
    base = open(pf).read()
    tmp = os.path.join(COQ, "Properties", f"Tmp{pid}.v")
    body = base + "\n" + imports + "\nSet Printing Width 100000. Set Printing Depth 100000.\n"
    for name, expr in entries:
        body += f'Definition tmp_{name} := ({expr}).\nCheck tmp_{name}.\n'
    open(tmp, "w").write(body)
    p = subprocess.run(["coqc", "-R", ".", "GV", tmp], cwd=COQ, stdout=subprocess.PIPE, stderr=subprocess.STDOUT, text=True)
    for ext in (".v", ".vo", ".vok", ".vos", ".glob"):
        try: os.remove(tmp[:-2] + ext)
        except OSError: pass
    try: os.remove(os.path.join(COQ, "Properties", f".Tmp{pid}.aux"))
    except OSError: pass
    if p.returncode != 0:
        print(p.stdout[-3000:]); sys.exit(1)
    out = p.stdout
    add = "\n" + header + "\n" + imports + "\n"
    for name, expr in entries:
        m = re.search(r"^tmp_%s\s*\n?\s*: (.*?)(?=^tmp_|\Z)" % re.escape(name), out, re.S | re.M)
        if not m: print("no type for", name, out[-2000:]); sys.exit(1)
        ty = " ".join(m.group(1).split())
        add += f"\nTheorem {name} :\n  {ty}.\nProof. exact ({expr}). Qed.\n"
    open(pf, "w").write(base.rstrip("\n") + "\n" + add)
    print(pid, "restated", len(entries))

if __name__ == "__main__":
    spec = json.load(open(sys.argv[1]))
    for s in spec: restate(s["pid"], s["header"], s["imports"], [tuple(e) for e in s["entries"]])
