// goconsts: the translator.  Loads /repo with full type information and prints, as Coq
// definitions, every fact of the Go source that the theorems depend on and that can be read
// off the source without interpreting control flow:
//
//   - every package-level integer/string/bool constant of the modelled packages;
//   - every package-level array/slice/map composite literal whose elements are constants
//     (typeToSize, bits2primes, defaultApplicationExceptionMessage, ...);
//   - every package-level error value initialised by New{Protocol,Application,Transport}Exception
//     with constant arguments (kind, type id, message);
//   - for each index expression typeToSize[e]: whether the static type of e is signed;
//   - the static type (bit width, signedness) of selected local variables (headerInfoSize in
//     ttheader.Decode);
//   - the constant case labels of selected switch statements (checkProtocolID, the generated
//     FastRead switches);
//   - a fingerprint (SHA-256 of the comment-free printed AST) of every function.
//
// Output: <out>/Consts.v (replaced only when different) and <fp>/fingerprints.json.
package main

import (
	"bytes"
	"crypto/sha256"
	"encoding/hex"
	"encoding/json"
	"flag"
	"fmt"
	"go/ast"
	"go/constant"
	"go/printer"
	"go/token"
	"go/types"
	"os"
	"path/filepath"
	"sort"
	"strings"

	"golang.org/x/tools/go/packages"
)

var pkgShort = map[string]string{
	"github.com/cloudwego/gopkg/bufiox":                        "bufiox",
	"github.com/cloudwego/gopkg/protocol/thrift":               "thrift",
	"github.com/cloudwego/gopkg/protocol/thrift/base":          "base",
	"github.com/cloudwego/gopkg/protocol/thrift/unknownfields": "unknownfields",
	"github.com/cloudwego/gopkg/protocol/thrift/apache":        "apache",
	"github.com/cloudwego/gopkg/protocol/ttheader":             "ttheader",
	"github.com/cloudwego/gopkg/container/strmap":              "strmap",
	"github.com/cloudwego/gopkg/internal/strstore":             "strstore",
	"github.com/cloudwego/gopkg/internal/hash/maphash":         "maphash",
	"github.com/cloudwego/gopkg/unsafex":                       "unsafex",
}

// switch statements whose constant case labels are exported: pkg.func
var caseFuncs = map[string]bool{
	"ttheader.checkProtocolID": true,
	"base.FastRead":            true, // both receivers, see recvName
	"thrift.FastRead":          true,
}

// local variables whose static type is exported: pkg.func.var
var localTypes = map[string]bool{
	"ttheader.Decode.headerInfoSize": true,
}

func coqIdent(s string) string {
	s = strings.ReplaceAll(s, ".", "_")
	return s
}

func coqString(s string) string {
	return "\"" + strings.ReplaceAll(s, "\"", "\"\"") + "\"%string"
}

func coqZ(v constant.Value) (string, bool) {
	if v == nil {
		return "", false
	}
	switch v.Kind() {
	case constant.Int:
		s := v.ExactString()
		if strings.HasPrefix(s, "-") {
			return "(" + s + ")%Z", true
		}
		return s + "%Z", true
	case constant.Bool:
		if constant.BoolVal(v) {
			return "1%Z", true
		}
		return "0%Z", true
	case constant.Float:
		// only exact small rationals are printed: as numerator/denominator pair elsewhere
		return "", false
	}
	return "", false
}

type out struct {
	lines []string
}

func (o *out) add(format string, a ...interface{}) {
	o.lines = append(o.lines, fmt.Sprintf(format, a...))
}

func recvName(fd *ast.FuncDecl) string {
	if fd.Recv == nil || len(fd.Recv.List) == 0 {
		return ""
	}
	t := fd.Recv.List[0].Type
	for {
		switch x := t.(type) {
		case *ast.StarExpr:
			t = x.X
			continue
		case *ast.IndexExpr:
			t = x.X
			continue
		case *ast.Ident:
			return x.Name
		}
		return "?"
	}
}

func intTypeInfo(t types.Type) (bits int, signed bool, ok bool) {
	b, isb := t.Underlying().(*types.Basic)
	if !isb {
		return 0, false, false
	}
	switch b.Kind() {
	case types.Int8:
		return 8, true, true
	case types.Int16:
		return 16, true, true
	case types.Int32:
		return 32, true, true
	case types.Int64, types.Int:
		return 64, true, true
	case types.Uint8:
		return 8, false, true
	case types.Uint16:
		return 16, false, true
	case types.Uint32:
		return 32, false, true
	case types.Uint64, types.Uint, types.Uintptr:
		return 64, false, true
	}
	return 0, false, false
}

func main() {
	repo := flag.String("repo", "/repo", "repository root")
	outDir := flag.String("out", "", "directory for Consts.v")
	fpDir := flag.String("fp", "", "directory for fingerprints.json")
	flag.Parse()

	cfg := &packages.Config{
		Mode:       packages.NeedName | packages.NeedFiles | packages.NeedSyntax | packages.NeedTypes | packages.NeedTypesInfo | packages.NeedImports | packages.NeedDeps,
		Dir:        *repo,
		BuildFlags: []string{"-tags=verif"},
		Env:        append(os.Environ(), "GOFLAGS=-mod=mod", "GOPROXY=off", "GOSUMDB=off", "GOTOOLCHAIN=local"),
	}
	pkgs, err := packages.Load(cfg, "./...")
	if err != nil {
		fmt.Fprintln(os.Stderr, "load:", err)
		os.Exit(2)
	}
	bad := false
	for _, p := range pkgs {
		for _, e := range p.Errors {
			fmt.Fprintln(os.Stderr, "package error:", e)
			bad = true
		}
	}
	if bad {
		os.Exit(2)
	}
	sort.Slice(pkgs, func(i, j int) bool { return pkgs[i].PkgPath < pkgs[j].PkgPath })

	o := &out{}
	o.add("(* GENERATED by tools/goconsts from the Go source of /repo on every run. Do not edit. *)")
	o.add("From Coq Require Import ZArith List String.")
	o.add("Import ListNotations.")
	o.add("Open Scope Z_scope.")
	o.add("")
	fps := map[string]string{}

	for _, p := range pkgs {
		short, ok := pkgShort[p.PkgPath]
		if !ok {
			continue
		}
		o.add("(* ---- package %s ---- *)", p.PkgPath)
		// constants
		scope := p.Types.Scope()
		names := scope.Names()
		sort.Strings(names)
		for _, n := range names {
			c, ok := scope.Lookup(n).(*types.Const)
			if !ok {
				continue
			}
			if z, ok := coqZ(c.Val()); ok {
				o.add("Definition %s_%s : Z := %s.", short, n, z)
			} else if c.Val().Kind() == constant.String {
				o.add("Definition %s_%s : string := %s.", short, n, coqString(constant.StringVal(c.Val())))
			} else if c.Val().Kind() == constant.Float {
				// exact rational
				num, _ := constant.Uint64Val(constant.Num(c.Val()))
				den, _ := constant.Uint64Val(constant.Denom(c.Val()))
				o.add("Definition %s_%s_num : Z := %d%%Z.", short, n, num)
				o.add("Definition %s_%s_den : Z := %d%%Z.", short, n, den)
			}
		}
		// package-level vars with composite literals / exception constructors; functions
		var ttsSites []string
		for _, f := range p.Syntax {
			fname := filepath.Base(p.Fset.Position(f.Pos()).Filename)
			if strings.HasSuffix(fname, "_test.go") {
				continue
			}
			for _, d := range f.Decls {
				switch d := d.(type) {
				case *ast.GenDecl:
					if d.Tok != token.VAR {
						continue
					}
					for _, s := range d.Specs {
						vs := s.(*ast.ValueSpec)
						for i, name := range vs.Names {
							if i >= len(vs.Values) {
								continue
							}
							emitVar(o, p, short, name.Name, vs.Values[i])
						}
					}
				case *ast.FuncDecl:
					if d.Body == nil {
						continue
					}
					fn := d.Name.Name
					rn := recvName(d)
					full := short + "." + fn
					if rn != "" {
						full = short + "." + rn + "." + fn
					}
					// fingerprint
					var buf bytes.Buffer
					cfgp := printer.Config{Mode: printer.RawFormat}
					// strip comments by printing the node alone (comments live in the file, not the node)
					_ = cfgp.Fprint(&buf, token.NewFileSet(), d)
					sum := sha256.Sum256(buf.Bytes())
					fps[full] = hex.EncodeToString(sum[:])
					// C14 side check: statements of a strmap Get that assign through the receiver
					if short == "strmap" && fn == "Get" && rn != "" && d.Recv != nil && len(d.Recv.List) > 0 && len(d.Recv.List[0].Names) > 0 {
						o.add("Definition strmap_%s_Get_receiver_writes : Z := %d%%Z.", rn, receiverWrites(d.Body, d.Recv.List[0].Names[0].Name))
					}
					// typeToSize index sites, local var types, case labels
					ast.Inspect(d.Body, func(n ast.Node) bool {
						switch x := n.(type) {
						case *ast.IndexExpr:
							if id, ok := x.X.(*ast.Ident); ok && id.Name == "typeToSize" && short == "thrift" {
								t := p.TypesInfo.TypeOf(x.Index)
								_, signed, _ := intTypeInfo(t)
								pos := p.Fset.Position(x.Pos())
								ttsSites = append(ttsSites, fmt.Sprintf("(%s, %s) (* %s:%d %s *)", coqString(strings.TrimSuffix(fname, ".go")), boolZ(signed), fname, pos.Line, full))
							}
						case *ast.AssignStmt:
							if x.Tok == token.DEFINE {
								for _, lhs := range x.Lhs {
									if id, ok := lhs.(*ast.Ident); ok && localTypes[short+"."+fn+"."+id.Name] {
										if obj := p.TypesInfo.Defs[id]; obj != nil {
											bits, signed, _ := intTypeInfo(obj.Type())
											o.add("Definition %s_%s_%s_bits : Z := %d%%Z.", short, fn, id.Name, bits)
											o.add("Definition %s_%s_%s_signed : Z := %s.", short, fn, id.Name, boolZ(signed))
										}
									}
								}
							}
						case *ast.SwitchStmt:
							if caseFuncs[short+"."+fn] {
								var vals []string
								for _, cc := range x.Body.List {
									for _, e := range cc.(*ast.CaseClause).List {
										if tv, ok := p.TypesInfo.Types[e]; ok && tv.Value != nil {
											if z, ok := coqZ(tv.Value); ok {
												vals = append(vals, z)
											}
										}
									}
								}
								if len(vals) > 0 {
									nm := fn
									if rn != "" {
										nm = rn + "_" + fn
									}
									o.add("Definition %s_%s_cases : list Z := [%s].", short, nm, strings.Join(vals, "; "))
								}
							}
						}
						return true
					})
					emitFastCodecFacts(o, p, short, rn, fn, d)
				}
			}
		}
		if short == "thrift" {
			sort.Strings(ttsSites)
			o.add("(* static signedness of every index expression typeToSize[e]: (file, 1 if the index type is signed) *)")
			o.add("Definition thrift_typeToSize_index_sites : list (string * Z) := [\n  %s].", strings.Join(ttsSites, ";\n  "))
		}
		o.add("")
	}

	emitSpan(o, pkgs) // C16: span allocator constants (external module) and thrift's span size
	text := strings.Join(o.lines, "\n") + "\n"
	if *outDir != "" {
		fn := filepath.Join(*outDir, "Consts.v")
		old, _ := os.ReadFile(fn)
		if string(old) != text {
			if err := os.WriteFile(fn, []byte(text), 0o644); err != nil {
				panic(err)
			}
			fmt.Println("Consts.v updated")
		}
	} else {
		fmt.Print(text)
	}
	if *fpDir != "" {
		b, _ := json.MarshalIndent(fps, "", " ")
		os.WriteFile(filepath.Join(*fpDir, "fingerprints.json"), b, 0o644)
	}
}

// receiverWrites counts the assignments and inc/dec statements of body whose target is reached
// through the receiver variable recv (recv.f = .., recv.f[i] = .., *recv = .., recv.f++).
// Stores through a local alias of receiver memory are not seen (no alias analysis).
func receiverWrites(body *ast.BlockStmt, recv string) int {
	root := func(e ast.Expr) string {
		for {
			switch x := e.(type) {
			case *ast.SelectorExpr:
				e = x.X
			case *ast.IndexExpr:
				e = x.X
			case *ast.StarExpr:
				e = x.X
			case *ast.ParenExpr:
				e = x.X
			case *ast.SliceExpr:
				e = x.X
			case *ast.Ident:
				return x.Name
			default:
				return ""
			}
		}
	}
	n := 0
	ast.Inspect(body, func(nd ast.Node) bool {
		switch x := nd.(type) {
		case *ast.AssignStmt:
			for _, lhs := range x.Lhs {
				if _, isIdent := lhs.(*ast.Ident); !isIdent && root(lhs) == recv {
					n++
				}
			}
		case *ast.IncDecStmt:
			if _, isIdent := x.X.(*ast.Ident); !isIdent && root(x.X) == recv {
				n++
			}
		}
		return true
	})
	return n
}

func boolZ(b bool) string {
	if b {
		return "1%Z"
	}
	return "0%Z"
}

// emitVar prints package-level composite literals of constants and exception constructors.
func emitVar(o *out, p *packages.Package, short, name string, val ast.Expr) {
	switch v := val.(type) {
	case *ast.CompositeLit:
		t := p.TypesInfo.TypeOf(v)
		switch tt := t.Underlying().(type) {
		case *types.Array:
			n := int(tt.Len())
			vals := make([]string, n)
			for i := range vals {
				vals[i] = "0%Z"
			}
			idx := 0
			for _, e := range v.Elts {
				var ve ast.Expr = e
				if kv, ok := e.(*ast.KeyValueExpr); ok {
					ktv := p.TypesInfo.Types[kv.Key]
					if ktv.Value == nil {
						return
					}
					k, _ := constant.Int64Val(ktv.Value)
					idx = int(k)
					ve = kv.Value
				}
				tv := p.TypesInfo.Types[ve]
				z, ok := coqZ(tv.Value)
				if !ok {
					return
				}
				if idx < 0 || idx >= n {
					return
				}
				vals[idx] = z
				idx++
			}
			o.add("Definition %s_%s : list Z := [%s].", short, name, strings.Join(vals, "; "))
		case *types.Slice:
			var vals []string
			idx := 0
			for _, e := range v.Elts {
				var ve ast.Expr = e
				if kv, ok := e.(*ast.KeyValueExpr); ok {
					ktv := p.TypesInfo.Types[kv.Key]
					if ktv.Value == nil {
						return
					}
					k, _ := constant.Int64Val(ktv.Value)
					idx = int(k)
					ve = kv.Value
				}
				tv := p.TypesInfo.Types[ve]
				z, ok := coqZ(tv.Value)
				if !ok || idx < 0 || idx > 1<<20 {
					return
				}
				for len(vals) <= idx {
					vals = append(vals, "0%Z")
				}
				vals[idx] = z
				idx++
			}
			o.add("Definition %s_%s : list Z := [%s].", short, name, strings.Join(vals, "; "))
		case *types.Map:
			// map[int-const]string-const (default exception messages)
			var vals []string
			for _, e := range v.Elts {
				kv, ok := e.(*ast.KeyValueExpr)
				if !ok {
					return
				}
				ktv, vtv := p.TypesInfo.Types[kv.Key], p.TypesInfo.Types[kv.Value]
				kz, ok1 := coqZ(ktv.Value)
				if !ok1 || vtv.Value == nil || vtv.Value.Kind() != constant.String {
					return
				}
				vals = append(vals, fmt.Sprintf("(%s, %s)", kz, coqString(constant.StringVal(vtv.Value))))
			}
			o.add("Definition %s_%s : list (Z * string) := [%s].", short, name, strings.Join(vals, "; "))
		}
	case *ast.CallExpr:
		fn := ""
		switch f := v.Fun.(type) {
		case *ast.Ident:
			fn = f.Name
		case *ast.SelectorExpr:
			fn = f.Sel.Name
		}
		kind := map[string]int{"NewTransportException": 1, "NewProtocolException": 2, "NewApplicationException": 3}[fn]
		if kind == 0 || len(v.Args) != 2 {
			return
		}
		a0, a1 := p.TypesInfo.Types[v.Args[0]], p.TypesInfo.Types[v.Args[1]]
		z, ok := coqZ(a0.Value)
		if !ok || a1.Value == nil || a1.Value.Kind() != constant.String {
			return
		}
		o.add("Definition %s_%s : Z * Z * string := (%d%%Z, %s, %s). (* kind 1=transport 2=protocol 3=application, type id, message *)", short, name, kind, z, coqString(constant.StringVal(a1.Value)))
	}
}

// ---- additive (C11/C15): literal facts of the generated FastCodec writers/readers ----
//
//	base.<T>.FastWriteNocopy : for every pair of consecutive statements
//	     b[off] = <const T>; binary.BigEndian.PutUint16(b[off+1:], <const ID>)   -> _fields  (T, ID)
//	     b[off] = <const K>; b[off+1] = <const V>                                -> _mapkv   (K, V)
//	thrift.ApplicationException.FastWrite : every call <x>.WriteFieldBegin(_, <const T>, <const ID>) -> _fields (T, ID)
//	thrift.ApplicationException.FastRead  : for every case clause of the tag-less switch, the constant
//	     operands of its == comparisons, in source order                          -> _conds
func constOf(p *packages.Package, e ast.Expr) (string, bool) {
	if tv, ok := p.TypesInfo.Types[e]; ok && tv.Value != nil {
		return coqZ(tv.Value)
	}
	return "", false
}

func isIndexOfB(e ast.Expr) (*ast.IndexExpr, bool) {
	ix, ok := e.(*ast.IndexExpr)
	if !ok {
		return nil, false
	}
	id, ok := ix.X.(*ast.Ident)
	return ix, ok && id.Name == "b"
}

func emitFastCodecFacts(o *out, p *packages.Package, short, rn, fn string, d *ast.FuncDecl) {
	if rn == "" {
		return
	}
	if short == "base" && fn == "FastWriteNocopy" {
		var fields, mapkv []string
		ast.Inspect(d.Body, func(n ast.Node) bool {
			blk, ok := n.(*ast.BlockStmt)
			if !ok {
				return true
			}
			for i := 0; i+1 < len(blk.List); i++ {
				as, ok := blk.List[i].(*ast.AssignStmt)
				if !ok || as.Tok != token.ASSIGN || len(as.Lhs) != 1 || len(as.Rhs) != 1 {
					continue
				}
				if _, ok := isIndexOfB(as.Lhs[0]); !ok {
					continue
				}
				c1, ok := constOf(p, as.Rhs[0])
				if !ok {
					continue
				}
				switch nx := blk.List[i+1].(type) {
				case *ast.ExprStmt:
					call, ok := nx.X.(*ast.CallExpr)
					if !ok || len(call.Args) != 2 {
						continue
					}
					sel, ok := call.Fun.(*ast.SelectorExpr)
					if !ok || sel.Sel.Name != "PutUint16" {
						continue
					}
					if c2, ok := constOf(p, call.Args[1]); ok {
						fields = append(fields, fmt.Sprintf("(%s, %s)", c1, c2))
					}
				case *ast.AssignStmt:
					if nx.Tok != token.ASSIGN || len(nx.Lhs) != 1 || len(nx.Rhs) != 1 {
						continue
					}
					if _, ok := isIndexOfB(nx.Lhs[0]); !ok {
						continue
					}
					if c2, ok := constOf(p, nx.Rhs[0]); ok {
						mapkv = append(mapkv, fmt.Sprintf("(%s, %s)", c1, c2))
					}
				}
			}
			return true
		})
		o.add("Definition %s_%s_%s_fields : list (Z * Z) := [%s]. (* (type, id) of every field header written *)", short, rn, fn, strings.Join(fields, "; "))
		o.add("Definition %s_%s_%s_mapkv : list (Z * Z) := [%s]. (* (key type, value type) of every map header written *)", short, rn, fn, strings.Join(mapkv, "; "))
	}
	if short == "thrift" && rn == "ApplicationException" && fn == "FastWrite" {
		var fields []string
		ast.Inspect(d.Body, func(n ast.Node) bool {
			call, ok := n.(*ast.CallExpr)
			if !ok || len(call.Args) != 3 {
				return true
			}
			sel, ok := call.Fun.(*ast.SelectorExpr)
			if !ok || sel.Sel.Name != "WriteFieldBegin" {
				return true
			}
			c1, ok1 := constOf(p, call.Args[1])
			c2, ok2 := constOf(p, call.Args[2])
			if ok1 && ok2 {
				fields = append(fields, fmt.Sprintf("(%s, %s)", c1, c2))
			}
			return true
		})
		o.add("Definition %s_%s_%s_fields : list (Z * Z) := [%s]. (* (type, id) of every WriteFieldBegin *)", short, rn, fn, strings.Join(fields, "; "))
	}
	if short == "thrift" && rn == "ApplicationException" && fn == "FastRead" {
		var conds []string
		ast.Inspect(d.Body, func(n ast.Node) bool {
			sw, ok := n.(*ast.SwitchStmt)
			if !ok || sw.Tag != nil {
				return true
			}
			for _, cc := range sw.Body.List {
				for _, e := range cc.(*ast.CaseClause).List {
					var cs []string
					ast.Inspect(e, func(m ast.Node) bool {
						be, ok := m.(*ast.BinaryExpr)
						if !ok || be.Op != token.EQL {
							return true
						}
						if c, ok := constOf(p, be.Y); ok {
							cs = append(cs, c)
						} else if c, ok := constOf(p, be.X); ok {
							cs = append(cs, c)
						}
						return true
					})
					conds = append(conds, "["+strings.Join(cs, "; ")+"]")
				}
			}
			return true
		})
		o.add("Definition %s_%s_%s_conds : list (list Z) := [%s]. (* constants compared with == in each case of the tag-less switch *)", short, rn, fn, strings.Join(conds, "; "))
	}
}

// emitSpan prints (C16) the argument of thrift's `spanCache = span.NewSpanCache(<const>)`, the
// initial value of spanCacheEnable, and the package-level constants of the external package
// github.com/bytedance/gopkg/lang/span (size classes of the bump allocator), which is loaded
// from source as a dependency of protocol/thrift.
func emitSpan(o *out, pkgs []*packages.Package) {
	const spanPath = "github.com/bytedance/gopkg/lang/span"
	for _, p := range pkgs {
		if pkgShort[p.PkgPath] != "thrift" {
			continue
		}
		o.add("(* ---- span allocator used by %s ---- *)", p.PkgPath)
		for _, f := range p.Syntax {
			for _, d := range f.Decls {
				gd, ok := d.(*ast.GenDecl)
				if !ok || gd.Tok != token.VAR {
					continue
				}
				for _, s := range gd.Specs {
					vs := s.(*ast.ValueSpec)
					for i, name := range vs.Names {
						if i >= len(vs.Values) {
							continue
						}
						switch name.Name {
						case "spanCache":
							if ce, ok := vs.Values[i].(*ast.CallExpr); ok && len(ce.Args) == 1 {
								if sel, ok := ce.Fun.(*ast.SelectorExpr); ok && sel.Sel.Name == "NewSpanCache" {
									if z, ok := coqZ(p.TypesInfo.Types[ce.Args[0]].Value); ok {
										o.add("Definition thrift_spanCache_size : Z := %s.", z)
									}
								}
							}
						case "spanCacheEnable":
							if z, ok := coqZ(p.TypesInfo.Types[vs.Values[i]].Value); ok {
								o.add("Definition thrift_spanCacheEnable_init : Z := %s.", z)
							}
						}
					}
				}
			}
		}
		if sp := p.Imports[spanPath]; sp != nil && sp.Types != nil {
			scope := sp.Types.Scope()
			names := scope.Names()
			sort.Strings(names)
			for _, n := range names {
				if c, ok := scope.Lookup(n).(*types.Const); ok {
					if z, ok := coqZ(c.Val()); ok {
						o.add("Definition span_%s : Z := %s.", n, z)
					}
				}
			}
		}
		o.add("")
	}
}
