#!/usr/bin/env python3
"""seedcheck — confirm a seeded change and run the checks against it, never touching /repo.

  tools/seedcheck.py <src-dir> <ID> <variant> [--checks C03,C08] [--tier quick] [--keep]

<src-dir> holds patch.diff, the demonstration file(s), demo_path.txt and meta.json as delivered by an
independent sub-agent.  Steps (all in a scratch git worktree of /repo under /tmp/sv):
  1. demo WITHOUT the change  -> must pass
  2. apply the change; module builds; the existing suite (demo removed) -> must pass
  3. demo WITH the change     -> must fail
  4. VERIF_REPO=<worktree> ./check <ID> for every requested check -> record exit code / VIOLATION line
The confirmed seed is stored as /verif/seeded/<ID>/<variant>/ (patch.diff, demo, meta.json).
"""
import argparse, json, os, re, shutil, subprocess, sys, time

ROOT = os.path.dirname(os.path.dirname(os.path.abspath(__file__)))
FALLBACK_BASE = "2c7f196"   # /repo HEAD before the repair of Binary.Skip's end address (fix: commit after it)
ENV = dict(os.environ, GOFLAGS="-mod=mod", GOPROXY="off", GOSUMDB="off", GOTOOLCHAIN="local")

def sh(cmd, cwd=None, env=None, timeout=3600):
    p = subprocess.run(cmd, cwd=cwd, env=env or ENV, shell=isinstance(cmd, str), timeout=timeout,
                       stdout=subprocess.PIPE, stderr=subprocess.STDOUT, text=True)
    return p.returncode, p.stdout

def main():
    ap = argparse.ArgumentParser()
    ap.add_argument("src"); ap.add_argument("pid"); ap.add_argument("variant")
    ap.add_argument("--checks"); ap.add_argument("--tier", default="quick"); ap.add_argument("--keep", action="store_true")
    ap.add_argument("--skip-confirm", action="store_true", help="only run the checks (seed already confirmed)")
    ap.add_argument("--base", help="commit of /repo to apply the change to (default: HEAD; when the patch does not apply there, "
                                   "the commit the seeds of rounds 1-7 were written against: " + FALLBACK_BASE + ")")
    a = ap.parse_args()
    checks = a.checks.split(",") if a.checks else [a.pid]
    wt = f"/tmp/sv/{a.pid}_{a.variant}"
    sh(["git", "-C", "/repo", "worktree", "remove", "--force", wt]); shutil.rmtree(wt, ignore_errors=True)
    os.makedirs("/tmp/sv", exist_ok=True)
    base = a.base or "HEAD"
    if not a.base:   # does the patch apply to HEAD?  otherwise use the commit it was written against
        rc, out = sh(["git", "-C", "/repo", "worktree", "add", "--detach", wt, "HEAD"])
        if rc != 0: print(out); sys.exit(2)
        rc, out = sh(["git", "apply", "--check", os.path.join(os.path.abspath(a.src), "patch.diff")], cwd=wt)
        sh(["git", "-C", "/repo", "worktree", "remove", "--force", wt]); shutil.rmtree(wt, ignore_errors=True)
        if rc != 0: base = FALLBACK_BASE
    rc, out = sh(["git", "-C", "/repo", "worktree", "add", "--detach", wt, base])
    if rc != 0: print(out); sys.exit(2)
    rc, out = sh(["git", "-C", "/repo", "rev-parse", "--short", base])
    base_sha = out.strip()
    rec = dict(property=a.pid, variant=a.variant, ran=[], confirmed=False, base=base_sha)
    try:
        # demo files: every *.go in src; destination from demo_path.txt (first token of each line that ends in .go)
        dp = open(os.path.join(a.src, "demo_path.txt")).read()
        paths = re.findall(r"([\w./-]+\.go)", dp)
        demos = [f for f in os.listdir(a.src) if f.endswith(".go")]
        placed = []
        arrows = dict(re.findall(r"([\w.-]+\.go)\s*->\s*([\w./-]+\.go)", dp))   # "file.go -> path/in/repo.go" lines
        for d in demos:
            dest = arrows.get(d) or next((p for p in paths if os.path.basename(p) == d and "/" in p), None)
            if dest is None: dest = next((p for p in paths if "/" in p), None)
            dest = dest.lstrip("./")
            if dest.startswith("tmp/") or dest.startswith("/"):
                dest = re.sub(r"^.*?/seed/C\d+/", "", dest)
            full = os.path.join(wt, dest)
            os.makedirs(os.path.dirname(full), exist_ok=True)
            shutil.copy(os.path.join(a.src, d), full); placed.append(dest)
        pkgs = sorted({"./" + os.path.dirname(p) + "/" for p in placed})
        race = "-race" if ("race" in open(os.path.join(a.src, "meta.json")).read().lower() and a.pid == "C14") else ""
        democmd = f"go test -vet=off -count=1 {race} -run 'SeedDemo|Seed' " + " ".join(pkgs)
        if not a.skip_confirm:
            rc0, o0 = sh(democmd, cwd=wt)
            rec["ran"].append(dict(cmd=democmd + "   (without the change)", exit=rc0, tail=o0[-400:]))
            rc, o = sh(["git", "apply", os.path.join(os.path.abspath(a.src), "patch.diff")], cwd=wt)
            if rc != 0: print("patch does not apply:", o); rec["ran"].append(dict(cmd="git apply", exit=rc, tail=o)); raise SystemExit(3)
            rc1, o1 = sh(democmd, cwd=wt)
            rec["ran"].append(dict(cmd=democmd + "   (with the change)", exit=rc1, tail=o1[-600:]))
            for p in placed: os.remove(os.path.join(wt, p))
            rc2, o2 = sh("go build ./... && go test -vet=off -count=1 ./...", cwd=wt)
            rec["ran"].append(dict(cmd="go build ./... && go test -vet=off -count=1 ./...   (with the change, demo removed)", exit=rc2, tail=o2[-600:]))
            rec["confirmed"] = (rc0 == 0 and rc1 != 0 and rc2 == 0)
            print(f"confirm: demo-without={rc0} demo-with={rc1} suite-with={rc2} -> confirmed={rec['confirmed']}")
        else:
            rc, o = sh(["git", "apply", os.path.join(os.path.abspath(a.src), "patch.diff")], cwd=wt)
            for p in placed: os.remove(os.path.join(wt, p))
            rec["confirmed"] = None
        rec["checks"] = {}
        for c in checks:
            t0 = time.time()
            rc, o = sh([os.path.join(ROOT, "check"), c, "--tier", a.tier], cwd=ROOT, env=dict(ENV, VERIF_REPO=wt), timeout=7200)
            line = next((l for l in o.splitlines() if l.startswith("VIOLATION")), None) or (o.strip().splitlines() or ["?"])[-1]
            replay = None
            m = re.search(r"replay=(\S+)", line)
            if m and os.path.exists(m.group(1)):
                try: replay = json.load(open(m.group(1)))
                except Exception: pass
            rec["checks"][c] = dict(exit=rc, line=line, wall_s=round(time.time() - t0, 1),
                                    replay_kind=(replay or {}).get("kind"), replay_case=str((replay or {}).get("case_line", (replay or {}).get("input", "")))[:300])
            print(f"check {c}: exit={rc} {line}")
    finally:
        if not a.keep:
            sh(["git", "-C", "/repo", "worktree", "remove", "--force", wt]); shutil.rmtree(wt, ignore_errors=True)
    if rec["confirmed"] is not False:
        dst = os.path.join(ROOT, "seeded", a.pid, a.variant)
        os.makedirs(dst, exist_ok=True)
        if os.path.realpath(a.src) != os.path.realpath(dst):
            for f in os.listdir(a.src):
                if f != "meta.json" and os.path.isfile(os.path.join(a.src, f)): shutil.copy(os.path.join(a.src, f), os.path.join(dst, f))
        meta = {}
        try: meta = json.load(open(os.path.join(a.src, "meta.json")))
        except Exception as e: meta = dict(author_meta_unparsed=open(os.path.join(a.src, "meta.json")).read()[:4000])
        old = {}
        if os.path.exists(os.path.join(dst, "meta.json")):
            try: old = json.load(open(os.path.join(dst, "meta.json")))
            except Exception: pass
        out = dict(property=a.pid, variant=a.variant, breaks=meta.get("summary") or meta.get("breaks") or old.get("breaks"),
                   needs_to_manifest=meta.get("needs_to_manifest") or old.get("needs_to_manifest"),
                   files_changed=meta.get("files_changed") or old.get("files_changed"),
                   why_existing_tests_pass=meta.get("why_existing_tests_pass") or old.get("why_existing_tests_pass"),
                   author="independent sub-agent given only the property text and a scratch worktree of /repo",
                   coordinator_confirmation=rec["ran"] or old.get("coordinator_confirmation"),
                   confirmed=rec["confirmed"] if rec["confirmed"] is not None else old.get("confirmed"),
                   repo_base=rec["base"],
                   checks_run=dict(old.get("checks_run", {}), **rec["checks"]))
        json.dump(out, open(os.path.join(dst, "meta.json"), "w"), indent=1)
    else:
        print("NOT CONFIRMED — not stored")
        for r in rec["ran"]: print(r["cmd"], "->", r["exit"], "\n", r["tail"])

if __name__ == "__main__":
    main()
