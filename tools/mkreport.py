#!/usr/bin/env python3
"""Prints the as-built tables of DESIGN.md section 11 from the files the checks themselves wrote:
evidence/<ID>.json (last run in /verif against /repo) and seeded/<ID>/<variant>/meta.json."""
import json, os, glob, re
ROOT = os.path.dirname(os.path.dirname(os.path.abspath(__file__)))

def props():
    return [json.loads(l) for l in open(os.path.join(ROOT, "properties.jsonl"))]

def status_table():
    out = ["| id | title | theorems (closed) | obligations | cases (quick) | wall s | partial? |", "|---|---|---|---|---|---|---|"]
    for p in props():
        pid = p["id"]
        ev = os.path.join(ROOT, "evidence", pid + ".json")
        cl = os.path.join(ROOT, "claims", pid + ".json")
        if not os.path.exists(ev):
            out.append(f"| {pid} | {p['title']} | — | — | — | — | not built |"); continue
        e = json.load(open(ev)); c = e["coverage"]
        note = json.load(open(cl)).get("note", "") if os.path.exists(cl) else ""
        partial = "partial" if re.search(r"\bPARTIAL\b|[Pp]artial", note) else ""
        out.append(f"| {pid} | {p['title']} | {c.get('print_assumptions','?').split(' ')[0]} | {c.get('obligations')} | {c.get('evaluations')} | {e.get('wall_s')} | {partial} |")
    return "\n".join(out)

def seeded_table():
    out = ["| seed | intended property | what the change does | confirmed | detected by (check: verdict) |", "|---|---|---|---|---|"]
    for d in sorted(glob.glob(os.path.join(ROOT, "seeded", "*", "*"))):
        mf = os.path.join(d, "meta.json")
        if not os.path.exists(mf): continue
        m = json.load(open(mf))
        det = []
        for c, r in sorted((m.get("checks_run") or {}).items()):
            line = r.get("line", "")
            v = "VIOLATION (no-failing-input-found)" if "no-failing-input-found" in line else ("VIOLATION" if line.startswith("VIOLATION") else ("missed" if r.get("exit") == 0 else "error"))
            det.append(f"{c}: {v}")
        what = (m.get("breaks") or "").replace("|", "/").replace("\n", " ")
        what = what[:230] + ("…" if len(what) > 230 else "")
        out.append(f"| {os.path.basename(os.path.dirname(d))}/{os.path.basename(d)} | {m.get('property')} | {what} | {m.get('confirmed')} | {'; '.join(det)} |")
    return "\n".join(out)

if __name__ == "__main__":
    print("### Status per property (from evidence/*.json of the last run)\n")
    print(status_table())
    print("\n### Seeded changes (from seeded/*/*/meta.json)\n")
    print(seeded_table())
