#!/usr/bin/env python3
"""Generates /verif/MANIFEST.json from the table below (kept in one place so the manifest is always valid)."""
import json, glob, os, subprocess
ROOT = os.path.dirname(os.path.dirname(os.path.abspath(__file__)))

NOTE = ("Trusted: Coq 8.16.1 kernel incl. vm_compute (no native_compute), no axioms (Print Assumptions must say "
        "'Closed under the global context' on every run); translators tools/goconsts (constants, tables, static types) and tools/gotrans "
        "(Go function bodies of a whitelisted subset -> coq/Gen/Funcs.v, with Lib/GoSem.v; cross-checked against the Go compiler by semtest.sh); "
        "extraction (ExtrOcamlBasic) + ocaml/driver.ml, "
        "cross-checked by an in-kernel vm_compute sample; the Go correspondence harness. Go function bodies are modelled by hand "
        "(not verified) and tied to /repo by running model and implementation on the same cases on every run. ")

# claims/<ID>.json: {"text": ..., "technique": ..., "note": ..., "design_ref": ...}
CLAIMS = {}
for fn in sorted(os.listdir(os.path.join(ROOT, "claims"))):
    if fn.endswith(".json"):
        d = json.load(open(os.path.join(ROOT, "claims", fn)))
        CLAIMS[fn[:-5]] = (d["text"], d["technique"], d.get("note", ""), d.get("design_ref", "5 " + fn[:-5]))

NOT_YET = {}

def hook_commits():
    """commits in /repo that add the build-tag-guarded hook files (message starts with 'verif hook')"""
    try:
        out = subprocess.run(["git", "-C", "/repo", "log", "--format=%H %s"], capture_output=True, text=True).stdout
        return [l.split()[0] for l in out.splitlines() if l.split(" ", 1)[1].startswith("verif hook")]
    except Exception:
        return []

def main():
    props = [json.loads(l) for l in open(os.path.join(ROOT, "properties.jsonl"))]
    checks, na = [], []
    for p in props:
        pid = p["id"]
        if pid in CLAIMS:
            text, tech, extra, ref = CLAIMS[pid]
            checks.append(dict(
                property_id=pid,
                quick_cmd=f"./check {pid} --tier quick",
                thorough_cmd=f"./check {pid} --tier thorough",
                evidence_file=f"/verif/evidence/{pid}.json",
                replay_cmd_template=f"./check {pid} --replay {{path}}",
                engine="rocq-proof+correspondence",
                level_claimed=dict(category="proof", text=text, design_ref="DESIGN.md §" + ref),
                level_note=NOTE + extra,
                technique=tech))
        else:
            na.append(dict(property_id=pid, reason=NOT_YET.get(pid, "check not built yet in this revision (work in progress; the design in DESIGN.md §5 applies)")))
    m = dict(
        version=1,
        setup_cmd="./setup.sh",
        hooks=dict(guard="verif", enable="go build -tags verif (the harness module replaces github.com/cloudwego/gopkg => /repo)",
                   baseline_off_cmd="cd /repo && GOFLAGS=-mod=mod GOPROXY=off GOSUMDB=off go test -vet=off -count=1 ./...",
                   source_commits=hook_commits(), add_only=True),
        engines=[dict(name="rocq-proof+correspondence", path="/verif/check",
                      serves_properties=[c["property_id"] for c in checks],
                      kind_free_text="Rocq (Coq 8.16.1) theorems about executable Gallina models; models tied to /repo on every run by regenerating translators (constants/tables/static types; Go function bodies of a whitelisted subset with equivalence lemmas to the hand models) and a differential correspondence run (Go harness vs extracted model, sample re-evaluated in the kernel)")],
        checks=checks,
        notes="See DESIGN.md (section 11: as built). known_findings.txt lists the sixteen defects repaired by 'fix:' commits in /repo and one recorded finding (C18). seeded/ holds " + str(len(glob.glob(os.path.join(ROOT, "seeded", "*", "*", "meta.json")))) + " independently seeded changes with each check's verdict.",
        not_applicable=na)
    json.dump(m, open(os.path.join(ROOT, "MANIFEST.json"), "w"), indent=1)
    print("MANIFEST.json:", len(checks), "checks,", len(na), "not claimed")

if __name__ == "__main__":
    main()
