#!/usr/bin/env python3
"""Inserts notes/design_section11.md into DESIGN.md (before Appendix A, replacing an earlier copy) and
fills the generated tables from evidence/ and seeded/ (tools/mkreport.py)."""
import os, re, sys
ROOT = os.path.dirname(os.path.dirname(os.path.abspath(__file__)))
sys.path.insert(0, os.path.join(ROOT, "tools"))
import mkreport
sec = open(os.path.join(ROOT, "notes", "design_section11.md")).read()
sec = sec.replace("<!-- BEGIN GENERATED STATUS -->\n<!-- END GENERATED STATUS -->",
                  "<!-- BEGIN GENERATED STATUS -->\n" + mkreport.status_table() + "\n<!-- END GENERATED STATUS -->")
sec = sec.replace("<!-- BEGIN GENERATED SEEDS -->\n<!-- END GENERATED SEEDS -->",
                  "<!-- BEGIN GENERATED SEEDS -->\n" + mkreport.seeded_table() + "\n<!-- END GENERATED SEEDS -->")
d = open(os.path.join(ROOT, "DESIGN.md")).read()
d = re.sub(r"## 11\. As built\n.*?(?=## Appendix A\.)", "", d, flags=re.S)
i = d.index("## Appendix A.")
bar = "---------------------------------------------------------------------------------------------\n\n"
d = d[:i] + sec.rstrip("\n") + "\n\n" + bar + d[i:]
open(os.path.join(ROOT, "DESIGN.md"), "w").write(d)
print("DESIGN.md section 11 regenerated")
