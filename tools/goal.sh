#!/bin/bash
# usage: goal.sh <file.v> <line>   — prints the goal just before <line> (1-based) of a proof
f=$1; n=$2
tmp=$(mktemp -d /tmp/goalXXXX)
head -n $((n-1)) "$f" > $tmp/G.v
echo "Show. Abort." >> $tmp/G.v
( cd "$(dirname "$0")/../coq" && timeout 300 coqc -R . GV -o $tmp/G.vo $tmp/G.v 2>&1 | head -${3:-60} )
rm -rf $tmp
