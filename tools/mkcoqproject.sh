#!/bin/bash
# Regenerates coq/_CoqProject from the files present (Extract/*.v are compiled separately by ./check).
cd "$(dirname "$0")/../coq"
{ echo "-R . GV"; find . -name '*.v' -not -path './Extract/*' | sed 's|^\./||' | sort; } > _CoqProject.new
if ! cmp -s _CoqProject.new _CoqProject; then mv _CoqProject.new _CoqProject; else rm _CoqProject.new; fi
