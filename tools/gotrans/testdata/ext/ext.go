// Package ext: a function the translator treats as EXTERNAL (tools/gotrans externalFns): calls of
// it become calls of a function parameter of the generated definition.
package ext

import "errors"

var ErrOdd = errors.New("odd")

// Calc is a deterministic function of its arguments; it only reads b.
func Calc(b []byte, k int) (int, error) {
	s := k
	for _, x := range b {
		s += int(x)
	}
	if s%2 != 0 {
		return s, ErrOdd
	}
	return s / 2, nil
}
