// Package ext: a function the translator treats as EXTERNAL (tools/gotrans externalFns): calls of
// it become calls of a function parameter of the generated definition.
package ext

import "errors"

var ErrOdd = errors.New("odd")

// Calc is a deterministic function of its arguments; it only reads b.
func Calc(b []byte, k int) (int, error) {
	s := k
	for _, x := range b {
		s += int(x)
	}
	if s%2 != 0 {
		return s, ErrOdd
	}
	return s / 2, nil
}

// Dirty stands for an allocation of uninitialised memory (dirtmake.Bytes): n bytes of a content the
// program must not depend on (here 0xEE), capacity c; panics unless 0 <= n <= c.
func Dirty(n, c int) []byte {
	b := make([]byte, n, c)
	for i := range b {
		b[i] = 0xEE
	}
	return b
}

// Seed / Keyed stand for maphash: a keyed hash whose key is a field of the structure that uses it.
type Seed struct{ K uint64 }

func Keyed(seed Seed, s string) uint64 {
	h := seed.K
	for i := 0; i < len(s); i++ {
		h = h*31 + uint64(s[i])
	}
	return h
}
