// Package ext: a function the translator treats as EXTERNAL (tools/gotrans externalFns): calls of
// it become calls of a function parameter of the generated definition.
package ext

import "errors"

var ErrOdd = errors.New("odd")

// Calc is a deterministic function of its arguments; it only reads b.
func Calc(b []byte, k int) (int, error) {
	s := k
	for _, x := range b {
		s += int(x)
	}
	if s%2 != 0 {
		return s, ErrOdd
	}
	return s / 2, nil
}

// Dirty stands for an allocation of uninitialised memory (dirtmake.Bytes): n bytes of a content the
// program must not depend on (here 0xEE), capacity c; panics unless 0 <= n <= c.
func Dirty(n, c int) []byte {
	b := make([]byte, n, c)
	for i := range b {
		b[i] = 0xEE
	}
	return b
}

// Seed / Keyed stand for maphash: a keyed hash whose key is a field of the structure that uses it.
type Seed struct{ K uint64 }

func Keyed(seed Seed, s string) uint64 {
	h := seed.K
	for i := 0; i < len(s); i++ {
		h = h*31 + uint64(s[i])
	}
	return h
}

// Alloc / Free stand for the pooled allocator (mcache.Malloc / mcache.Free, tools/gotrans allocFns):
// Alloc(size[, capacity]) returns fresh memory of length size and capacity max(size, capacity)
// whose content the program must not depend on (here 0xA0 + the number of earlier allocations
// modulo 16, in every byte up to the capacity); Free records the capacity it is given.
var (
	Allocs int
	Freed  []int
)

func Alloc(size int, capacity ...int) []byte {
	c := size
	if len(capacity) > 0 && capacity[0] > size {
		c = capacity[0]
	}
	b := make([]byte, c)
	for i := range b {
		b[i] = byte(0xA0 + Allocs%16)
	}
	Allocs++
	return b[:size]
}

func Free(b []byte) { Freed = append(Freed, cap(b)) }
