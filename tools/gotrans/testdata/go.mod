module semtest

go 1.22.0
