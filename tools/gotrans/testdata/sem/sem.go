// Package sem: small functions that exercise every construct of the subset tools/gotrans
// translates.  tools/gotrans/semtest.sh translates them, runs them with the real Go compiler on
// a grid of inputs (cmd/gen) and lets Coq check that the generated Gallina definitions compute
// the same results: a differential test of the translator and of coq/Lib/GoSem.v.
package sem

import (
	"encoding/binary"
	"errors"
	"fmt"
	"math"

	"semtest/ext"
)

func AddU8(a, b uint8) uint8       { return a + b }
func SubI8(a, b int8) int8         { return a - b }
func MulI16(a, b int16) int16      { return a * b }
func NegI8(a int8) int8            { return -a }
func NotU8(a uint8) uint8          { return ^a }
func NotI8(a int8) int8            { return ^a }
func ShlU8(a uint8, k uint8) uint8 { return a << k }
func ShrU8(a uint8, k uint8) uint8 { return a >> k }
func ShrI8(a int8, k uint8) int8   { return a >> k }
func ShlI8c(a int8) int8           { return a << 3 }
func DivI8(a, b int8) int8         { return a / b }
func RemI8(a, b int8) int8         { return a % b }
func DivU8(a, b uint8) uint8       { return a / b }
func RemU8(a, b uint8) uint8       { return a % b }
func Bits(a, b uint8) uint8        { return (a & b) | (a^b)&^0x0f }
func BitsI8(a, b int8) int8        { return (a & b) ^ (a | b) }
func ConvChain(a int16) uint32     { return uint32(uint8(a)) + uint32(int32(a)) }
func ConvWiden(a int8) int64       { return int64(a)*3 + int64(uint16(a)) }
func ConvInt(a uint32) int         { return int(a) - 1 }
func ConvU64(a int64) uint64       { return uint64(a) >> 60 }
func AddI64(a, b int64) int64      { return a + b }
func MulU32(a, b uint32) uint32    { return a * b }
func CmpI8(a, b int8) bool         { return a < b && a <= b || a > b && a >= b && a != b }

func Switch(a uint8) int {
	switch a {
	case 1, 2:
		return 10
	case 3:
		a++
	case 4:
	default:
		return 30
	}
	return int(a)
}

func Compound(a uint8) uint8 {
	x := a
	x += 200
	x <<= 1
	x |= 1
	x--
	x ^= 0x55
	x -= 3
	x *= 5
	x >>= 1
	x &= 0x7f
	return x
}

func ShortCircuit(b []byte, i int) bool {
	return i >= 0 && i < len(b) && b[i] == 7 || i < 0
}

func OrEffect(b []byte, i int) bool {
	return i > 100 || b[i] == 1
}

func VarDecl(b []byte) int {
	var n int
	var s []byte
	s = b[1:]
	n = len(s)
	return n
}

func Slice2(b []byte, lo, hi int) []byte { return b[lo:hi] }
func SliceTo(b []byte, hi int) []byte    { return b[:hi] }
func SliceFrom(b []byte, lo int) []byte  { return b[lo:] }
func Index(b []byte, i int) byte         { return b[i] }
func StrIndex(s string, i int) byte      { return s[i] }
func StrEq(a, b string) bool             { return a == b }
func StrConv(b []byte) string            { return string(b[1:]) + "" }
func LenStr(s string) int                { return len(s) + len("héllo") }

func NamedBare(b []byte) (n int, ok bool) {
	if len(b) == 0 {
		return
	}
	n = int(b[0])
	ok = true
	return
}

func IfElseChain(a int) int {
	if a < 0 {
		return -1
	} else if a == 0 {
		return 0
	} else {
		a = a * 2
	}
	return a
}

func IfInit(b []byte) int {
	if n := len(b); n > 2 {
		return n
	}
	return 0
}

func Parallel(a, b int) int {
	a, b = b, a+b
	return a*1000 + b
}

func Shadow(a int) int {
	x := a
	if a > 0 {
		x := a * 2
		a = x
	}
	return x*100 + a
}

func Put16(b []byte, off int, v uint16) int {
	binary.BigEndian.PutUint16(b[off:], v)
	return len(b)
}

func Put64(b []byte, v uint64) int {
	binary.BigEndian.PutUint64(b, v)
	return 8
}

func Store(b []byte, i int, v int16) int {
	b[i] = byte(v)
	return i + 1
}

func Copy(dst []byte, src []byte, off int) int { return copy(dst[off:], src) }

func StoreThenRead(b []byte) byte {
	b[0] = 9
	b[1] = b[0] + 1
	return b[1]
}

func CallChain(b []byte) int {
	n := Store(b, 0, 300)
	return n + Put16(b, n, 0xBEEF)
}

func Load(b []byte) uint64 {
	return uint64(binary.BigEndian.Uint16(b)) + uint64(binary.BigEndian.Uint32(b[2:])) + binary.BigEndian.Uint64(b[6:])>>8
}

func F64(v uint64) uint64 { return math.Float64bits(math.Float64frombits(v)) }

func Append(b []byte, v uint16, s string) []byte {
	b = append(b, byte(v>>8), byte(v))
	return append(b, s...)
}

func Inc(a int8) int8 {
	a++
	a++
	a--
	return a
}

func ExplicitPanic(a int) int {
	if a == 3 {
		panic("three")
	}
	return a
}

// the top-level call may read the buffer it stores into in its own arguments
func PutFromSelf(b []byte) int {
	binary.BigEndian.PutUint16(b[2:], uint16(b[0])<<8|uint16(b[1]))
	n := Store(b, 0, int16(b[3]))
	return n
}

// ---------------------------------------------------------------------------------------------
// phase 2: loops, recursion, pointer parameters, maps, struct variables, tables, abstract objects

func SumTo(n int) int {
	s := 0
	for i := 0; i < n; i++ {
		s += i
	}
	return s
}

func LoopBreak(b []byte) int {
	i := 0
	for {
		if i >= len(b) {
			break
		}
		if b[i] == 0 {
			break
		}
		i++
	}
	return i
}

func LoopContinue(b []byte) int {
	n := 0
	for i := 0; i < len(b); i++ {
		if b[i]&1 == 0 {
			continue
		}
		n += int(b[i])
	}
	return n
}

func LoopReturn(b []byte, x byte) int {
	for i := 0; i < len(b); i++ {
		if b[i] == x {
			return i
		}
	}
	return -1
}

// a condition that can panic; a uint8 counter that wraps
func LoopCondPanic(b []byte) int {
	n := 0
	for i := uint8(250); b[i] != 0; i++ {
		n++
	}
	return n
}

func NestedLoops(n int) int {
	s := 0
	for i := 0; i < n; i++ {
		for j := 0; j <= i; j++ {
			if j == 3 {
				continue
			}
			if i == 5 {
				break
			}
			s += i*j + 1
		}
		if s > 60 {
			return -s
		}
	}
	return s
}

// an infinite loop that ends only by return; continue and return inside a switch
func LoopSwitch(b []byte) (n int, ok bool) {
	i := 0
	for {
		if i >= len(b) {
			return
		}
		switch b[i] {
		case 0:
			i++
			continue
		case 1:
			n++
		case 2:
			return n, true
		case 3:
			if n > 1 {
				break
			}
			n += 10
		default:
			i += 2
			continue
		}
		i++
	}
}

// the same for statement reached along two paths
func LoopTwoPaths(a int) int {
	x := 0
	if a > 2 {
		x = a
	}
	for i := 0; i < 3; i++ {
		x += i
	}
	return x
}

func SwitchBreak(a int) int {
	switch a {
	case 1:
		if a > 0 {
			break
		}
		a = 2
	case 2:
		a = 7
	}
	return a + 1
}

// a local slice made by make, stored into and read back
func LoopStore(n int) int {
	b := make([]byte, n)
	for i := 0; i < n; i++ {
		b[i] = byte(i * 3)
	}
	s := 0
	for i := 0; i < len(b); i++ {
		s += int(b[i]) * (i + 1)
	}
	return s
}

func Fact(n int) int {
	if n <= 0 {
		return 1
	}
	return n * Fact(n-1)
}

// recursion inside a loop
func Tree(b []byte, pos int, maxdepth int) (int, int) {
	if maxdepth == 0 {
		return pos, -1
	}
	if pos >= len(b) {
		return pos, -2
	}
	n := int(b[pos])
	pos++
	cnt := 1
	for i := 0; i < n; i++ {
		var c int
		pos, c = Tree(b, pos, maxdepth-1)
		if c < 0 {
			return pos, c
		}
		cnt += c
	}
	return pos, cnt
}

func bump(p *int, k int) int {
	*p += k
	old := *p
	*p = *p * 2
	*p++
	return old
}

func PtrUse(a int) int {
	x := a
	y := bump(&x, 3)
	z := bump(&x, y)
	return x*1000 + y + z
}

func PtrPass(p *int) int {
	r := bump(p, 1)
	return r + *p
}

func PtrLoop(p *int32, n int) {
	for i := 0; i < n; i++ {
		*p += *p
	}
}

func fill(m map[uint16]string, k uint16, v string) { m[k] = v }

func MapUse(a uint16, s string) string {
	var m map[uint16]string
	if m == nil {
		m = make(map[uint16]string)
	}
	fill(m, a, s)
	fill(m, 1, "one")
	m[a] = m[a] + "!"
	return m[1] + m[a] + m[99]
}

func MapNilStore(a int) int {
	var m map[string]int
	if a > 0 {
		m = make(map[string]int, 4)
	}
	r := m["z"]
	if a != -1 {
		m["k"] = a
	}
	return m["k"] + r
}

func MapParamSet(m map[string]string, k, v string) string {
	m[k] = v
	return m["a"] + m[k]
}

func MapParamGet(m map[int8]int, k int8) int { return m[k] + m[-k] }

type Pt struct {
	X int
	Y uint8
	S string
}

func StructUse(a int) (p Pt, ok bool) {
	p.X = a
	p.Y = uint8(a)
	if a < 0 {
		return
	}
	p.S = "ok"
	p.X += int(p.Y)
	p.Y++
	ok = p.S == "ok"
	return
}

var tbl = [4]int8{1, -2, 3, 0}

func Tbl(i uint8) int { return int(tbl[i&3])*10 + int(tbl[i]) }

var scale = 3

// package-level variables read inside a loop
func TblLoop(n uint8) int {
	s := 0
	for i := uint8(0); i < n; i++ {
		s += int(tbl[i]) * scale
	}
	return s
}

func inner(b []byte) (int, error) {
	x := b[0]
	if x > 200 {
		return 0, fmt.Errorf("big first byte %d", x)
	}
	return int(x), nil
}

func ErrWrap(b []byte) (int, error) {
	if len(b) == 0 {
		return 0, errors.New("empty")
	}
	v, err := inner(b)
	if err != nil {
		return v, fmt.Errorf("wrap: %s", err.Error())
	}
	if v > 100 {
		return v, fmt.Errorf("%s: %d", fmt.Sprintf("big %d", v), v)
	}
	return v, nil
}

func ErrNilDeref(a int) error {
	var err error
	if a > 0 {
		err = errors.New("x")
	}
	return fmt.Errorf("w %s", err.Error())
}

// an abstract object: the methods of the interface value are given to the generated definition
type Src interface {
	Get(n int) ([]byte, error)
	Pos() int
}

func SumSrc(s Src, k int) (int, bool) {
	total := 0
	for i := 0; i < k; i++ {
		b, err := s.Get(2)
		if err != nil {
			return total, false
		}
		total += int(b[0])*256 + int(b[1])
	}
	return total + s.Pos(), true
}

func SumSrcTwice(s Src, unused fmt.Stringer, k int) (int, bool) {
	a, ok := SumSrc(s, k)
	if !ok {
		return a, false
	}
	b, ok := SumSrc(s, 1)
	return a*1000 + b, ok
}

// a generic struct of abstract objects as receiver; recursion with a depth budget
type Tpl[T Src] struct{ R T }

func (p Tpl[T]) Count(maxdepth int) (int, bool) {
	if maxdepth == 0 {
		return 0, false
	}
	b, err := p.R.Get(1)
	if err != nil {
		return 0, false
	}
	n := int(b[0])
	if n >= 4 {
		return 1, true
	}
	cnt := 1
	for i := 0; i < n; i++ {
		c, ok := p.Count(maxdepth - 1)
		if !ok {
			return cnt, false
		}
		cnt += c
	}
	return cnt + p.R.Pos()*0, true
}

// ---------------------------------------------------------------------------------------------
// forward goto to labels of the outermost block; a pointer receiver to a struct with fields;
// a value of a struct type without fields; an external function

func GotoFwd(a int) (r int, ok bool) {
	if a > 0 {
		goto pos
	}
	if a < -5 {
		goto neg
	}
	r = 1
	return
pos:
	r = a * 2
	ok = true
neg:
	r -= 100
	return r, ok
}

func GotoLoop(b []byte) (n int, code int) {
	for i := 0; i < len(b); i++ {
		for j := 0; j < int(b[i]); j++ {
			if j == 3 {
				goto three
			}
			n++
		}
		if b[i] == 9 {
			goto nine
		}
	}
	return n, 0
three:
	return n, 3
nine:
	code = 9
	return
}

type Empty struct{}

func (Empty) Double(a int) int { return 2 * a }

type Rec struct {
	A int
	S string
	M map[string]int
}

func (p *Rec) Fill(b []byte) (n int, ok bool) {
	x := Empty{}
	var y Empty
	for i := 0; i < len(b); i++ {
		if b[i] == 0 {
			goto bad
		}
		p.A += x.Double(int(b[i])) + y.Double(1)
		if b[i] > 100 {
			p.M = make(map[string]int, int(b[i])-200) // a negative hint at run time
		}
		if b[i] == 7 {
			p.M["seven"] = p.A
			p.S = p.S + "7"
		}
		p.A++
		n++
	}
	return n, true
bad:
	return n, false
}

func UseExt(b []byte, k int) (int, bool) {
	v, err := ext.Calc(b[1:], k)
	if err != nil {
		return v, false
	}
	for i := 0; i < 2; i++ {
		w, err := ext.Calc(b, v)
		if err != nil {
			return w, false
		}
		v = w
	}
	return v, true
}
