// Package sem: small functions that exercise every construct of the subset tools/gotrans
// translates.  tools/gotrans/semtest.sh translates them, runs them with the real Go compiler on
// a grid of inputs (cmd/gen) and lets Coq check that the generated Gallina definitions compute
// the same results: a differential test of the translator and of coq/Lib/GoSem.v.
package sem

import (
	"encoding/binary"
	"math"
)

func AddU8(a, b uint8) uint8       { return a + b }
func SubI8(a, b int8) int8         { return a - b }
func MulI16(a, b int16) int16      { return a * b }
func NegI8(a int8) int8            { return -a }
func NotU8(a uint8) uint8          { return ^a }
func NotI8(a int8) int8            { return ^a }
func ShlU8(a uint8, k uint8) uint8 { return a << k }
func ShrU8(a uint8, k uint8) uint8 { return a >> k }
func ShrI8(a int8, k uint8) int8   { return a >> k }
func ShlI8c(a int8) int8           { return a << 3 }
func DivI8(a, b int8) int8         { return a / b }
func RemI8(a, b int8) int8         { return a % b }
func DivU8(a, b uint8) uint8       { return a / b }
func RemU8(a, b uint8) uint8       { return a % b }
func Bits(a, b uint8) uint8        { return (a & b) | (a^b)&^0x0f }
func BitsI8(a, b int8) int8        { return (a & b) ^ (a | b) }
func ConvChain(a int16) uint32     { return uint32(uint8(a)) + uint32(int32(a)) }
func ConvWiden(a int8) int64       { return int64(a)*3 + int64(uint16(a)) }
func ConvInt(a uint32) int         { return int(a) - 1 }
func ConvU64(a int64) uint64       { return uint64(a) >> 60 }
func AddI64(a, b int64) int64      { return a + b }
func MulU32(a, b uint32) uint32    { return a * b }
func CmpI8(a, b int8) bool         { return a < b && a <= b || a > b && a >= b && a != b }

func Switch(a uint8) int {
	switch a {
	case 1, 2:
		return 10
	case 3:
		a++
	case 4:
	default:
		return 30
	}
	return int(a)
}

func Compound(a uint8) uint8 {
	x := a
	x += 200
	x <<= 1
	x |= 1
	x--
	x ^= 0x55
	x -= 3
	x *= 5
	x >>= 1
	x &= 0x7f
	return x
}

func ShortCircuit(b []byte, i int) bool {
	return i >= 0 && i < len(b) && b[i] == 7 || i < 0
}

func OrEffect(b []byte, i int) bool {
	return i > 100 || b[i] == 1
}

func VarDecl(b []byte) int {
	var n int
	var s []byte
	s = b[1:]
	n = len(s)
	return n
}

func Slice2(b []byte, lo, hi int) []byte { return b[lo:hi] }
func SliceTo(b []byte, hi int) []byte    { return b[:hi] }
func SliceFrom(b []byte, lo int) []byte  { return b[lo:] }
func Index(b []byte, i int) byte         { return b[i] }
func StrIndex(s string, i int) byte      { return s[i] }
func StrEq(a, b string) bool             { return a == b }
func StrConv(b []byte) string            { return string(b[1:]) + "" }
func LenStr(s string) int                { return len(s) + len("héllo") }

func NamedBare(b []byte) (n int, ok bool) {
	if len(b) == 0 {
		return
	}
	n = int(b[0])
	ok = true
	return
}

func IfElseChain(a int) int {
	if a < 0 {
		return -1
	} else if a == 0 {
		return 0
	} else {
		a = a * 2
	}
	return a
}

func IfInit(b []byte) int {
	if n := len(b); n > 2 {
		return n
	}
	return 0
}

func Parallel(a, b int) int {
	a, b = b, a+b
	return a*1000 + b
}

func Shadow(a int) int {
	x := a
	if a > 0 {
		x := a * 2
		a = x
	}
	return x*100 + a
}

func Put16(b []byte, off int, v uint16) int {
	binary.BigEndian.PutUint16(b[off:], v)
	return len(b)
}

func Put64(b []byte, v uint64) int {
	binary.BigEndian.PutUint64(b, v)
	return 8
}

func Store(b []byte, i int, v int16) int {
	b[i] = byte(v)
	return i + 1
}

func Copy(dst []byte, src []byte, off int) int { return copy(dst[off:], src) }

func StoreThenRead(b []byte) byte {
	b[0] = 9
	b[1] = b[0] + 1
	return b[1]
}

func CallChain(b []byte) int {
	n := Store(b, 0, 300)
	return n + Put16(b, n, 0xBEEF)
}

func Load(b []byte) uint64 {
	return uint64(binary.BigEndian.Uint16(b)) + uint64(binary.BigEndian.Uint32(b[2:])) + binary.BigEndian.Uint64(b[6:])>>8
}

func F64(v uint64) uint64 { return math.Float64bits(math.Float64frombits(v)) }

func Append(b []byte, v uint16, s string) []byte {
	b = append(b, byte(v>>8), byte(v))
	return append(b, s...)
}

func Inc(a int8) int8 {
	a++
	a++
	a--
	return a
}

func ExplicitPanic(a int) int {
	if a == 3 {
		panic("three")
	}
	return a
}

// the top-level call may read the buffer it stores into in its own arguments
func PutFromSelf(b []byte) int {
	binary.BigEndian.PutUint16(b[2:], uint16(b[0])<<8|uint16(b[1]))
	n := Store(b, 0, int16(b[3]))
	return n
}
