package sem

import (
	"encoding/binary"

	"semtest/ext"
)

// phase 3 of the translator (ext3.go): switch without a tag, sub-slices handed to callees that
// store into them, calls of methods of the same pointer receiver

// the conditions are evaluated top to bottom, lazily: b[a] is evaluated only when the first
// condition fails (and panics then when a is out of range)
func SwitchNoTag(b []byte, a int, c int) int {
	r := 0
	switch {
	case a < 0 && c > 0:
		r = 1
	case b[a] == 7:
		r = 2
		if c == 3 {
			break
		}
		r = 3
	case c == 5 || b[a] == 9:
		return 4
	default:
		r = 5
	}
	return r*10 + c
}

func SwitchNoTagNoDefault(a int) int {
	switch {
	case a > 3:
		a = a - 3
	case a > 1:
		a = a - 1
	}
	return a
}

func put1(b []byte, v byte) int {
	b[0] = v
	return 1
}

func put2(b []byte, v byte) int {
	b[1] = v
	b[0] = v + 1
	return 2
}

// b[off:] handed to callees that store into it: the stores land in b; the slice expression
// panics when off > len(b), the store when the tail is too short
func SubSliceStore(b []byte, off int, v byte) int {
	n := put1(b[off:], v)
	n += put2(b[off+n:], v+10)
	n += put1(b[off+n:], 0) + put1(b, 99)
	return n
}

func SubSliceLoop(b []byte, k int) int {
	off := 0
	for i := 0; i < k; i++ {
		off += put2(b[off:], byte(i))
	}
	return off
}

type Acc struct {
	A int
	S string
}

func (p *Acc) Bump(k int) int {
	p.A += k
	p.S = p.S + "b"
	return p.A
}

func (p *Acc) Peek() int { return 7 }

// methods of the same receiver: the fields the callee assigns are the caller's afterwards; a nil
// receiver panics only where a field is touched
func (p *Acc) Twice(k int) int {
	if k == 100 {
		return p.Peek()
	}
	a := p.Bump(k)
	p.A *= 2
	b := p.Bump(k)
	return a*1000 + b
}

func (p *Acc) BumpLoop(n int) int {
	s := 0
	for i := 0; i < n; i++ {
		s += p.Bump(i)
	}
	return s + p.A
}

// ---- for k, v := range m over a map: the enumeration order is a parameter of the generated
// definition (the harness reads the order Go used off the result) ----

func RangeConcat(m map[string]string, skip string) (out string, n int) {
	n = len(m)
	if m == nil {
		n = -1
	}
	for k, v := range m {
		if k == skip {
			continue
		}
		out = out + k + v
	}
	return
}

// break and return inside a range statement; keys of an integer type
func RangeStop(m map[uint16]string, stop uint16, ret uint16) (out []byte, done bool) {
	for k, v := range m {
		out = append(out, byte(k))
		if k == stop {
			break
		}
		if k == ret {
			return out, true
		}
		out = append(out, v...)
	}
	out = append(out, 255)
	return out, false
}

// two range statements (two orders), the second after an if that may return
func RangeTwo(a map[string]string, b map[string]string) (out string) {
	for k := range a {
		out = out + k
	}
	if len(a) == 2 {
		return out + "!"
	}
	for _, v := range b {
		out = out + v
	}
	return out
}

// a callee that enumerates a map: its order is a parameter of the caller too
func RangeCaller(m map[string]string) (string, int) {
	s, n := RangeConcat(m, "z")
	return s + "|", n + 1
}

// ---- an interface value that may be nil: a nil flag; a method call through nil panics ----

type Sink interface{ Put(b []byte, n int) error }

func SinkWrite(buf []byte, s Sink, v []byte) int {
	if s == nil || len(v) < 3 {
		return copy(buf, v)
	}
	buf[0] = byte(len(v))
	_ = s.Put(v, len(buf[1:]))
	return 1
}

func SinkTwice(buf []byte, s Sink, v []byte) int {
	n := SinkWrite(buf, s, v)
	return n + SinkWrite(buf[n:], s, v)
}

func SinkNil(buf []byte, v []byte) int { return SinkTwice(buf, nil, v) }

func SinkUse(s Sink, v []byte) int {
	if s != nil && len(v) > 3 {
		return 0
	}
	_ = s.Put(v, 1)
	return 1
}

// ---- p == nil for the pointer receiver ----

func (p *Acc) NilSafe(k int) int {
	if p == nil {
		return -1
	}
	if nil != p && k > 0 {
		p.A += k
	}
	return p.A
}

// ---- windows into the memory of an abstract object (bufiox.Writer.Malloc) ----

type Arena interface {
	Alloc(n int) ([]byte, error)
	Put(b []byte) (int, error)
}

func ArenaFill(a Arena, n int, v byte) (first []byte, err error) {
	var buf []byte
	buf, err = a.Alloc(n)
	if err != nil {
		return nil, err
	}
	first = buf[0:2]
	last := buf[n-1:]
	for i := 0; i < len(buf); i++ {
		buf[i] = v + byte(i)
	}
	binary.BigEndian.PutUint16(first, 0x0102)
	last[0] = 9
	if _, err = a.Put(unsafeBytes("xy")); err != nil {
		return first, err
	}
	mid, err := a.Alloc(3)
	if err != nil {
		return first, err
	}
	binary.BigEndian.PutUint32(buf[1:5], 0xA0B0C0D0)
	mid[2] = v
	whole := buf[:]
	whole[len(whole)-2] = 7
	return first, nil
}

func unsafeBytes(s string) []byte { return []byte(s) }

// ---- a parameter of a struct type; v, ok := m[k] ----

type Cfg struct {
	A int
	S string
	M map[string]string
}

func CfgUse(c Cfg, k string) (int, string, bool) {
	v, ok := c.M[k]
	if !ok {
		return c.A, c.S, ok
	}
	c.A += len(v)
	c.S = c.S + v
	return c.A, c.S, ok
}

func MapOkInt(m map[int8]int, k int8) (r int) {
	if v, ok := m[k]; ok {
		r = v + 1
	} else if _, ok2 := m[k+1]; ok2 {
		r = -2
	}
	return r
}

// ---- range over a []byte ----

func RangeBytes(b []byte, stop byte) (sum int, idx int, n int) {
	for i, x := range b {
		if x == stop {
			break
		}
		if x == 0 {
			continue
		}
		sum += int(x) * i
		idx = i
	}
	for i := range b[1:] {
		n += i
	}
	for _, x := range b {
		if x == 255 {
			return -1, -1, -1
		}
		n += int(x)
	}
	for range b {
		n++
	}
	return
}

func RangeBytesNested(b []byte, k int) int {
	s := 0
	for j := 0; j < k; j++ {
		for i, x := range b {
			s += int(x) + i*j
		}
	}
	return s
}

// ---- a method of an abstract object that stores into its []byte argument; uninitialised memory ----

type Codec interface {
	Size() int
	WriteTo(b []byte, w Sink) int
}

func Pack(c Codec, tag byte) []byte {
	n := c.Size()
	buf := ext.Dirty(n+2, n+2)
	buf[0] = tag
	k := c.WriteTo(buf[1:], nil)
	buf[1+k] = 255
	return buf
}

func PackTwice(c Codec, tag byte) ([]byte, int) {
	n := c.Size()
	buf := ext.Dirty(2*n+1, 2*n+1)
	k := c.WriteTo(buf, nil)
	k += c.WriteTo(buf[k:], nil)
	k += put1(buf[k:], tag)
	return buf, k + len(buf)
}

// ---- a read-only view of a generic struct with slice fields ----

type Ent[V any] struct {
	Off int
	Sz  uint32
	V   V
}

type Table[V any] struct {
	Data  []byte
	Items []Ent[V]
	Idx   []int32
	Seed  ext.Seed
}

func (m *Table[V]) Find(s string) (t V, ok bool) {
	if len(m.Idx) == 0 {
		return t, false
	}
	h := uint32(ext.Keyed(m.Seed, s)) % uint32(len(m.Idx))
	i := m.Idx[h]
	if i < 0 {
		return
	}
	e := &m.Items[i]
	for j := i; ; j++ {
		if string(m.Data[e.Off:e.Off+int(e.Sz)]) == s {
			return e.V, true
		}
		if j+1 >= int32(len(m.Items)) {
			break
		}
		e = &m.Items[j+1]
	}
	return t, false
}

func (m *Table[V]) Sizes() int { return len(m.Items)*100 + len(m.Idx) }
