package sem

// phase 3 of the translator (ext3.go): switch without a tag, sub-slices handed to callees that
// store into them, calls of methods of the same pointer receiver

// the conditions are evaluated top to bottom, lazily: b[a] is evaluated only when the first
// condition fails (and panics then when a is out of range)
func SwitchNoTag(b []byte, a int, c int) int {
	r := 0
	switch {
	case a < 0 && c > 0:
		r = 1
	case b[a] == 7:
		r = 2
		if c == 3 {
			break
		}
		r = 3
	case c == 5 || b[a] == 9:
		return 4
	default:
		r = 5
	}
	return r*10 + c
}

func SwitchNoTagNoDefault(a int) int {
	switch {
	case a > 3:
		a = a - 3
	case a > 1:
		a = a - 1
	}
	return a
}

func put1(b []byte, v byte) int {
	b[0] = v
	return 1
}

func put2(b []byte, v byte) int {
	b[1] = v
	b[0] = v + 1
	return 2
}

// b[off:] handed to callees that store into it: the stores land in b; the slice expression
// panics when off > len(b), the store when the tail is too short
func SubSliceStore(b []byte, off int, v byte) int {
	n := put1(b[off:], v)
	n += put2(b[off+n:], v+10)
	n += put1(b[off+n:], 0) + put1(b, 99)
	return n
}

func SubSliceLoop(b []byte, k int) int {
	off := 0
	for i := 0; i < k; i++ {
		off += put2(b[off:], byte(i))
	}
	return off
}

type Acc struct {
	A int
	S string
}

func (p *Acc) Bump(k int) int {
	p.A += k
	p.S = p.S + "b"
	return p.A
}

func (p *Acc) Peek() int { return 7 }

// methods of the same receiver: the fields the callee assigns are the caller's afterwards; a nil
// receiver panics only where a field is touched
func (p *Acc) Twice(k int) int {
	if k == 100 {
		return p.Peek()
	}
	a := p.Bump(k)
	p.A *= 2
	b := p.Bump(k)
	return a*1000 + b
}

func (p *Acc) BumpLoop(n int) int {
	s := 0
	for i := 0; i < n; i++ {
		s += p.Bump(i)
	}
	return s + p.A
}
