package sem

import "semtest/ext"

// phase 4 of the translator (ext4.go): pointer receivers to structs listed in csStructs —
// []byte fields with spare capacity, a [][]byte field, an interface-typed field whose method
// stores into a window, a nested struct with an array field, the allocator as an object

type CStats struct {
	B [4]int
	I int
}

func (s *CStats) SPut(x int) {
	s.B[s.I] = x
	s.I = (s.I + 1) % 4
}

func (s *CStats) SMax() int {
	var m int
	for _, v := range s.B {
		if m < v {
			m = v
		}
	}
	return m
}

// a[i] for an array field: bounds-checked
func (s *CStats) SAt(i int) int { return s.B[i] }

type Feed interface {
	Read(p []byte) (int, error)
}

type CBuf struct {
	Buf    []byte
	Parked [][]byte
	Rd     Feed
	Pos    int
	Err    error
	St     CStats
	RO     bool
}

// *p = S{...}; cap of a parameter; an interface-typed parameter stored into a field
func (c *CBuf) CReset(rd Feed, buf []byte) {
	if cap(buf) > 0 {
		*c = CBuf{Buf: buf, Rd: rd, RO: true}
	} else {
		*c = CBuf{Rd: rd, Pos: 0}
	}
}

func (c *CBuf) CLenCap() (int, int) { return len(c.Buf), cap(c.Buf) }

func (c *CBuf) CNils() (bool, bool, int) { return c.Buf == nil, c.Parked != nil, len(c.Parked) }

// a slice of a slice with capacity as a VALUE: checked against the capacity, not the length
func (c *CBuf) CWindow(a, b int) []byte { return c.Buf[a:b] }
func (c *CBuf) CFrom(a int) []byte      { return c.Buf[a:] }
func (c *CBuf) CTo(b int) []byte        { return c.Buf[:b] }

// re-slicing the field itself (may grow up to the capacity, may panic)
func (c *CBuf) CReslice(a, b int) int {
	c.Buf = c.Buf[a:b]
	return len(c.Buf)
}

// the window buf[len:cap] handed to a method that stores into it
func (c *CBuf) CFill() (int, error) {
	m, err := c.Rd.Read(c.Buf[len(c.Buf):cap(c.Buf)])
	c.Buf = c.Buf[:len(c.Buf)+m]
	if err != nil {
		c.Err = err
	}
	return m, err
}

// the loop of a reader: until n bytes are there, the source fails or three reads in a row were empty
func (c *CBuf) CFillN(n int) int {
	for empty := 0; empty < 3; {
		m, err := c.Rd.Read(c.Buf[len(c.Buf):cap(c.Buf)])
		c.Buf = c.Buf[:len(c.Buf)+m]
		if err != nil {
			c.Err = err
			return len(c.Buf) - c.Pos
		}
		if n <= len(c.Buf)-c.Pos {
			return n
		}
		if m > 0 {
			empty = 0
		} else {
			empty++
		}
	}
	return -1
}

// copy into the spare capacity
func (c *CBuf) CPut(bs []byte) int {
	n := copy(c.Buf[len(c.Buf):cap(c.Buf)], bs)
	c.Buf = c.Buf[:len(c.Buf)+n]
	return n
}

// copy into a window in the middle; copy out of the slice into a parameter
func (c *CBuf) CPutAt(a, b int, bs []byte) int { return copy(c.Buf[a:b], bs) }
func (c *CBuf) CGet(bs []byte) int             { return copy(bs, c.Buf[c.Pos:]) }

// a fresh buffer, the old one parked, the contents moved
func (c *CBuf) CGrow(n int) int {
	nbuf := ext.Alloc(n)
	if !c.RO {
		c.Parked = append(c.Parked, c.Buf)
	}
	cn := copy(nbuf[c.Pos:], c.Buf[c.Pos:])
	c.Buf = nbuf[:c.Pos+cn]
	c.RO = false
	return len(c.Parked)
}

// Alloc with a capacity; a local declared by var and assigned in both branches
func (c *CBuf) CFresh(n int, big bool) int {
	var nbuf []byte
	if big {
		nbuf = ext.Alloc(0, 2*n)
	} else {
		nbuf = ext.Alloc(n)
	}
	c.Buf = nbuf
	return cap(c.Buf)
}

// overlapping copy inside one buffer (memmove)
func (c *CBuf) CCompact() int {
	n := copy(c.Buf, c.Buf[c.Pos:])
	c.Buf = c.Buf[:n]
	c.Pos = 0
	return n
}

// range over the parked buffers, Free, a method of the nested struct
func (c *CBuf) CDrop() int {
	k := 0
	if c.Parked != nil {
		for _, b := range c.Parked {
			ext.Free(b)
			k += len(b)
		}
	}
	c.Parked = nil
	c.St.SPut(cap(c.Buf))
	c.Buf = nil
	return k + c.St.SMax()
}

// range with a copy into the current buffer in every iteration
func (c *CBuf) CStitch() int {
	off := 0
	for _, old := range c.Parked {
		off += copy(c.Buf[off:], old[off:])
	}
	return off
}

// s[i] and s[i] = x on a slice with capacity: checked against the LENGTH
func (c *CBuf) CAt(i int) byte { return c.Buf[i] }
func (c *CBuf) CSet(i int, x byte) int {
	c.Buf[i] = x
	return len(c.Buf)
}

// a method of the same receiver, and the allocator handed on
func (c *CBuf) CGrowTwice(n int) int {
	a := c.CGrow(n)
	b := c.CGrow(2 * n)
	return a*10 + b
}

// uninitialised memory with an exact capacity (dirtmake.Bytes) is a method of the allocator here
func (c *CBuf) CDirty(n, k int) int {
	if c.RO {
		c.Buf = ext.Dirty(n, k)
	} else {
		c.Buf = ext.Alloc(n, k)
	}
	return cap(c.Buf) - len(c.Buf)
}
