package main

import (
	"fmt"

	"semtest/sem"
)

// phase 3: switch without a tag, sub-slices handed to storing callees, same-receiver calls
func phase3() {
	const F = "300%nat"
	bufs := [][]byte{nil, {7}, {1, 7}, {9, 7, 9}, {0, 1, 2, 3, 4, 5, 6, 7, 8, 9}}
	for _, b := range bufs {
		for _, a := range []int{-2, -1, 0, 1, 2, 3, 7, 11} {
			for _, c := range []int{-1, 0, 3, 5} {
				b, a, c := b, a, c
				ex(fmt.Sprintf("g_sem_SwitchNoTag %s %s %s", bs(b), z(int64(a)), z(int64(c))), func() string { return z(int64(sem.SwitchNoTag(b, a, c))) })
			}
		}
	}
	for _, a := range ints {
		a := a
		ex(fmt.Sprintf("g_sem_SwitchNoTagNoDefault %s", z(int64(a))), func() string { return z(int64(sem.SwitchNoTagNoDefault(a))) })
	}
	for _, n := range []int{0, 1, 3, 4, 5, 6, 9} {
		for _, off := range []int{-1, 0, 1, 2, 3, 5, 6, 9, 10} {
			n, off := n, off
			mk := func() []byte {
				b := make([]byte, n)
				for i := range b {
					b[i] = byte(100 + i)
				}
				return b
			}
			ex(fmt.Sprintf("g_sem_SubSliceStore %s %s 40", bs(mk()), z(int64(off))), func() string {
				b := mk()
				r := sem.SubSliceStore(b, off, 40)
				return "(" + bs(b) + ", " + z(int64(r)) + ")"
			})
			ex(fmt.Sprintf("g_sem_SubSliceLoop %s %s %s", F, bs(mk()), z(int64(off))), func() string {
				b := mk()
				r := sem.SubSliceLoop(b, off)
				return "(" + bs(b) + ", " + z(int64(r)) + ")"
			})
		}
	}
	for _, k := range []int{-3, 0, 1, 5, 100} {
		k := k
		ex(fmt.Sprintf("g_sem_Twice false 5 %s %s", bs([]byte("s")), z(int64(k))), func() string {
			p := &sem.Acc{A: 5, S: "s"}
			r := p.Twice(k)
			return "(" + z(int64(p.A)) + ", " + bs([]byte(p.S)) + ", " + z(int64(r)) + ")"
		})
		ex(fmt.Sprintf("g_sem_Twice true 0 (nil : bytes) %s", z(int64(k))), func() string {
			var p *sem.Acc
			r := p.Twice(k)
			return "(0, (nil : bytes), " + z(int64(r)) + ")"
		})
		ex(fmt.Sprintf("g_sem_BumpLoop %s false 5 %s %s", F, bs([]byte("s")), z(int64(k%7))), func() string {
			p := &sem.Acc{A: 5, S: "s"}
			r := p.BumpLoop(k % 7)
			return "(" + z(int64(p.A)) + ", " + bs([]byte(p.S)) + ", " + z(int64(r)) + ")"
		})
		ex(fmt.Sprintf("g_sem_BumpLoop %s true 0 (nil : bytes) %s", F, z(int64(k%7))), func() string {
			var p *sem.Acc
			r := p.BumpLoop(k % 7)
			return "(0, (nil : bytes), " + z(int64(r)) + ")"
		})
	}
}
