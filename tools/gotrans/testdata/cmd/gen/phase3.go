package main

import (
	"fmt"
	"sort"
	"strings"

	"semtest/ext"
	"semtest/sem"
)

// a Go implementation of sem.Sink that records its calls (the Gallina model is sink_put)
type recSink struct{ log []string }

func (s *recSink) Put(b []byte, n int) error {
	s.log = append(s.log, "("+bs(cp(b))+", "+z(int64(n))+")")
	if n == 0 {
		return errShort
	}
	return nil
}
func (s *recSink) st() string { return "[" + strings.Join(s.log, "; ") + "]" }

func keyList(ks []string) string {
	var p []string
	for _, k := range ks {
		p = append(p, bs([]byte(k)))
	}
	return "[" + strings.Join(p, "; ") + "]"
}

// the keys of m: those in `seen` first (in that order), then the others
func orderFrom(m map[string]string, seen []string) []string {
	in := map[string]bool{}
	var out []string
	for _, k := range seen {
		if _, ok := m[k]; ok && !in[k] {
			in[k] = true
			out = append(out, k)
		}
	}
	var rest []string
	for k := range m {
		if !in[k] {
			rest = append(rest, k)
		}
	}
	sort.Strings(rest)
	return append(out, rest...)
}

func strMapLit(m map[string]string) string {
	var ks []string
	for k := range m {
		ks = append(ks, k)
	}
	sort.Strings(ks)
	return mapLit(m, ks)
}

// phase 3: switch without a tag, sub-slices handed to storing callees, same-receiver calls
func phase3() {
	const F = "300%nat"
	bufs := [][]byte{nil, {7}, {1, 7}, {9, 7, 9}, {0, 1, 2, 3, 4, 5, 6, 7, 8, 9}}
	for _, b := range bufs {
		for _, a := range []int{-2, -1, 0, 1, 2, 3, 7, 11} {
			for _, c := range []int{-1, 0, 3, 5} {
				b, a, c := b, a, c
				ex(fmt.Sprintf("g_sem_SwitchNoTag %s %s %s", bs(b), z(int64(a)), z(int64(c))), func() string { return z(int64(sem.SwitchNoTag(b, a, c))) })
			}
		}
	}
	for _, a := range ints {
		a := a
		ex(fmt.Sprintf("g_sem_SwitchNoTagNoDefault %s", z(int64(a))), func() string { return z(int64(sem.SwitchNoTagNoDefault(a))) })
	}
	for _, n := range []int{0, 1, 3, 4, 5, 6, 9} {
		for _, off := range []int{-1, 0, 1, 2, 3, 5, 6, 9, 10} {
			n, off := n, off
			mk := func() []byte {
				b := make([]byte, n)
				for i := range b {
					b[i] = byte(100 + i)
				}
				return b
			}
			ex(fmt.Sprintf("g_sem_SubSliceStore %s %s 40", bs(mk()), z(int64(off))), func() string {
				b := mk()
				r := sem.SubSliceStore(b, off, 40)
				return "(" + bs(b) + ", " + z(int64(r)) + ")"
			})
			ex(fmt.Sprintf("g_sem_SubSliceLoop %s %s %s", F, bs(mk()), z(int64(off))), func() string {
				b := mk()
				r := sem.SubSliceLoop(b, off)
				return "(" + bs(b) + ", " + z(int64(r)) + ")"
			})
		}
	}
	for _, k := range []int{-3, 0, 1, 5, 100} {
		k := k
		ex(fmt.Sprintf("g_sem_Twice false 5 %s %s", bs([]byte("s")), z(int64(k))), func() string {
			p := &sem.Acc{A: 5, S: "s"}
			r := p.Twice(k)
			return "(" + z(int64(p.A)) + ", " + bs([]byte(p.S)) + ", " + z(int64(r)) + ")"
		})
		ex(fmt.Sprintf("g_sem_Twice true 0 (nil : bytes) %s", z(int64(k))), func() string {
			var p *sem.Acc
			r := p.Twice(k)
			return "(0, (nil : bytes), " + z(int64(r)) + ")"
		})
		ex(fmt.Sprintf("g_sem_BumpLoop %s false 5 %s %s", F, bs([]byte("s")), z(int64(k%7))), func() string {
			p := &sem.Acc{A: 5, S: "s"}
			r := p.BumpLoop(k % 7)
			return "(" + z(int64(p.A)) + ", " + bs([]byte(p.S)) + ", " + z(int64(r)) + ")"
		})
		ex(fmt.Sprintf("g_sem_BumpLoop %s true 0 (nil : bytes) %s", F, z(int64(k%7))), func() string {
			var p *sem.Acc
			r := p.BumpLoop(k % 7)
			return "(0, (nil : bytes), " + z(int64(r)) + ")"
		})
	}
}

func phase3b() {
	strMaps := []map[string]string{nil, {}, {"a": "xx"}, {"a": "xx", "b": "yy"}, {"a": "11", "b": "22", "c": "33", "d": "44", "e": "55"}}
	for _, m := range strMaps {
		for _, skip := range []string{"", "a", "c", "q"} {
			m, skip := m, skip
			// run Go first: the order it used is read off the result (keys are 1 byte, values 2 bytes)
			out, n := sem.RangeConcat(m, skip)
			var seen []string
			for i := 0; i+3 <= len(out); i += 3 {
				seen = append(seen, out[i:i+1])
			}
			ord := orderFrom(m, seen)
			ex(fmt.Sprintf("g_sem_RangeConcat %s %s %s", strMapLit(m), bs([]byte(skip)), keyList(ord)), func() string {
				return "(" + bs([]byte(out)) + ", " + z(int64(n)) + ")"
			})
			s2, n2 := sem.RangeCaller(m)
			var seen2 []string
			for i := 0; i+3 <= len(s2)-1; i += 3 {
				seen2 = append(seen2, s2[i:i+1])
			}
			ex(fmt.Sprintf("g_sem_RangeCaller %s %s", strMapLit(m), keyList(orderFrom(m, seen2))), func() string {
				return "(" + bs([]byte(s2)) + ", " + z(int64(n2)) + ")"
			})
		}
		for _, m2 := range strMaps {
			m, m2 := m, m2
			out := sem.RangeTwo(m, m2)
			var seenA, seenB []string
			for i := 0; i < len(m) && i < len(out); i++ {
				seenA = append(seenA, out[i:i+1])
			}
			if len(m) != 2 {
				byVal := map[string]string{}
				for k, v := range m2 {
					byVal[v] = k
				}
				for i := len(m); i+2 <= len(out); i += 2 {
					seenB = append(seenB, byVal[out[i:i+2]])
				}
			}
			ex(fmt.Sprintf("g_sem_RangeTwo %s %s %s %s", strMapLit(m), strMapLit(m2), keyList(orderFrom(m, seenA)), keyList(orderFrom(m2, seenB))), func() string {
				return bs([]byte(out))
			})
		}
	}
	intMaps := []map[uint16]string{nil, {}, {7: "a"}, {7: "a", 9: "b", 300: "c", 1: "d"}}
	for _, m := range intMaps {
		for _, stop := range []uint16{0, 7, 300} {
			for _, ret := range []uint16{0, 9, 1} {
				m, stop, ret := m, stop, ret
				out, done := sem.RangeStop(m, stop, ret)
				// visited keys: out = k1 v1 k2 v2 ... k_last [255]; keys are identified by their low byte
				var ord []uint16
				in := map[uint16]bool{}
				body := out
				if !done && len(body) > 0 {
					body = body[:len(body)-1]
				}
				for i := 0; i < len(body); i += 2 {
					for k := range m {
						if byte(k) == body[i] && !in[k] {
							in[k] = true
							ord = append(ord, k)
						}
					}
				}
				var rest []int
				for k := range m {
					if !in[k] {
						rest = append(rest, int(k))
					}
				}
				sort.Ints(rest)
				for _, k := range rest {
					ord = append(ord, uint16(k))
				}
				var ks, es []string
				for _, k := range ord {
					ks = append(ks, z(int64(k)))
				}
				var all []int
				for k := range m {
					all = append(all, int(k))
				}
				sort.Ints(all)
				for _, k := range all {
					es = append(es, "("+z(int64(k))+", "+bs([]byte(m[uint16(k)]))+")")
				}
				lit := "(None : gmap Z bytes)"
				if m != nil {
					lit = "(Some [" + strings.Join(es, "; ") + "] : gmap Z bytes)"
				}
				ex(fmt.Sprintf("g_sem_RangeStop %s %d %d [%s]", lit, stop, ret, strings.Join(ks, "; ")), func() string {
					return "(" + bs(out) + ", " + bl(done) + ")"
				})
			}
		}
	}
	// nil interface values
	for _, n := range []int{0, 1, 2, 4, 7, 9} {
		for _, v := range [][]byte{nil, {1}, {1, 2}, {1, 2, 3}, {9, 8, 7, 6}} {
			n, v := n, v
			mk := func() []byte {
				b := make([]byte, n)
				for i := range b {
					b[i] = byte(50 + i)
				}
				return b
			}
			ex(fmt.Sprintf("g_sem_SinkWrite (list (bytes * Z)) sink_put %s false [] %s", bs(mk()), bs(v)), func() string {
				b, s := mk(), &recSink{}
				r := sem.SinkWrite(b, s, v)
				return "(" + bs(b) + ", " + s.st() + ", " + z(int64(r)) + ")"
			})
			ex(fmt.Sprintf("g_sem_SinkWrite (list (bytes * Z)) sink_put %s true [] %s", bs(mk()), bs(v)), func() string {
				b := mk()
				r := sem.SinkWrite(b, nil, v)
				return "(" + bs(b) + ", [], " + z(int64(r)) + ")"
			})
			ex(fmt.Sprintf("g_sem_SinkTwice (list (bytes * Z)) sink_put %s false [] %s", bs(mk()), bs(v)), func() string {
				b, s := mk(), &recSink{}
				r := sem.SinkTwice(b, s, v)
				return "(" + bs(b) + ", " + s.st() + ", " + z(int64(r)) + ")"
			})
			ex(fmt.Sprintf("g_sem_SinkNil %s %s", bs(mk()), bs(v)), func() string {
				b := mk()
				r := sem.SinkNil(b, v)
				return "(" + bs(b) + ", " + z(int64(r)) + ")"
			})
		}
	}
	for _, v := range [][]byte{nil, {1, 2, 3}, {9, 8, 7, 6}} {
		v := v
		ex(fmt.Sprintf("g_sem_SinkUse (list (bytes * Z)) sink_put false [] %s", bs(v)), func() string {
			s := &recSink{}
			r := sem.SinkUse(s, v)
			return "(" + s.st() + ", " + z(int64(r)) + ")"
		})
		ex(fmt.Sprintf("g_sem_SinkUse (list (bytes * Z)) sink_put true [] %s", bs(v)), func() string {
			r := sem.SinkUse(nil, v)
			return "([], " + z(int64(r)) + ")"
		})
	}
	for _, k := range []int{-3, 0, 5} {
		k := k
		ex(fmt.Sprintf("g_sem_NilSafe false 5 %s %s", bs([]byte("s")), z(int64(k))), func() string {
			p := &sem.Acc{A: 5, S: "s"}
			r := p.NilSafe(k)
			return "(" + z(int64(p.A)) + ", " + bs([]byte(p.S)) + ", " + z(int64(r)) + ")"
		})
		ex(fmt.Sprintf("g_sem_NilSafe true 0 (nil : bytes) %s", z(int64(k))), func() string {
			var p *sem.Acc
			r := p.NilSafe(k)
			return "(0, (nil : bytes), " + z(int64(r)) + ")"
		})
	}
}

// a Go implementation of sem.Arena over one preallocated buffer (the Gallina model is arena_alloc /
// arena_put / arena_poke)
type goArena struct {
	buf []byte
	off int
}

func (a *goArena) Alloc(n int) ([]byte, error) {
	if n < 0 {
		panic("negative")
	}
	if a.off+n > len(a.buf) {
		return nil, errShort
	}
	a.off += n
	return a.buf[a.off-n : a.off : a.off], nil
}
func (a *goArena) Put(b []byte) (int, error) {
	if a.off+len(b) > len(a.buf) {
		return 0, errShort
	}
	copy(a.buf[a.off:], b)
	a.off += len(b)
	return len(b), nil
}

// the window w as (start, length) in the arena
func (a *goArena) window(w []byte) string {
	if w == nil {
		return "gregion_nil"
	}
	for s := 0; s+len(w) <= len(a.buf); s++ {
		if len(w) > 0 && &a.buf[s] == &w[0] {
			return "(" + z(int64(s)) + ", " + z(int64(len(w))) + ")"
		}
	}
	return "(?, ?)"
}

func phase3c() {
	const F = "300%nat"
	for _, pre := range []int{0, 3, 20} {
		for _, n := range []int{-1, 0, 1, 2, 3, 4, 5, 6, 9, 19, 25} {
			pre, n := pre, n
			st0 := make([]byte, pre)
			for i := range st0 {
				st0[i] = byte(200 + i)
			}
			ex(fmt.Sprintf("g_sem_ArenaFill bytes arena_alloc arena_put arena_poke %s %s %s 40", F, bs(st0), z(int64(n))), func() string {
				a := &goArena{buf: make([]byte, 24)}
				copy(a.buf, st0)
				a.off = pre
				first, err := sem.ArenaFill(a, n, 40)
				return "(" + bs(a.buf[:a.off]) + ", " + a.window(first) + ", " + errCode(err) + ")"
			})
		}
	}
	ms := []map[string]string{nil, {}, {"a": "xx", "": "e"}}
	for _, m := range ms {
		for _, k := range []string{"a", "", "q"} {
			m, k := m, k
			ex(fmt.Sprintf("g_sem_CfgUse 5 %s %s %s", bs([]byte("s")), strMapLit(m), bs([]byte(k))), func() string {
				a, s, ok := sem.CfgUse(sem.Cfg{A: 5, S: "s", M: m}, k)
				return "(" + z(int64(a)) + ", " + bs([]byte(s)) + ", " + bl(ok) + ")"
			})
		}
	}
	for _, k := range []int8{-128, -4, -3, 0, 2, 3, 127} {
		k := k
		ex(fmt.Sprintf("g_sem_MapOkInt (Some [(3, 30); ((-3), 7); (3, 99); ((-128), 5)]) %s", z(int64(k))), func() string {
			return z(int64(sem.MapOkInt(map[int8]int{3: 30, -3: 7, -128: 5}, k)))
		})
		ex(fmt.Sprintf("g_sem_MapOkInt None %s", z(int64(k))), func() string { return z(int64(sem.MapOkInt(nil, k))) })
	}
	for _, b := range [][]byte{nil, {7}, {1, 7}, {0, 1, 2, 3, 0, 5}, {3, 255, 1}, {9, 9, 9, 9}} {
		for _, stop := range []byte{7, 3, 100} {
			b, stop := b, stop
			ex(fmt.Sprintf("g_sem_RangeBytes %s %d", bs(b), stop), func() string {
				s, i, n := sem.RangeBytes(b, stop)
				return "(" + z(int64(s)) + ", " + z(int64(i)) + ", " + z(int64(n)) + ")"
			})
		}
		for _, k := range []int{0, 1, 3} {
			b, k := b, k
			ex(fmt.Sprintf("g_sem_RangeBytesNested %s %s %s", F, bs(b), z(int64(k))), func() string { return z(int64(sem.RangeBytesNested(b, k))) })
		}
	}
}

type fixedCodec struct{ data []byte }

func (c fixedCodec) Size() int { return len(c.data) }
func (c fixedCodec) WriteTo(b []byte, w sem.Sink) int {
	for i, x := range c.data {
		b[i] = x
	}
	return len(c.data)
}

func phase3d() {
	for _, d := range [][]byte{nil, {7}, {1, 2, 3}, {9, 8, 7, 6, 5}} {
		d := d
		ex(fmt.Sprintf("g_sem_Pack bytes codec_size codec_write ext_dirty %s 42", bs(d)), func() string {
			r := sem.Pack(fixedCodec{d}, 42)
			return "(" + bs(d) + ", " + bs(r) + ")"
		})
		ex(fmt.Sprintf("g_sem_PackTwice bytes codec_size codec_write ext_dirty %s 42", bs(d)), func() string {
			r, k := sem.PackTwice(fixedCodec{d}, 42)
			return "(" + bs(d) + ", " + bs(r) + ", " + z(int64(k)) + ")"
		})
	}
}

func phase3e() {
	const F = "50%nat"
	type tb = sem.Table[int16]
	mk := func(keys []string, vals []int16, nidx int) *tb {
		t := &tb{Seed: ext.Seed{K: 3}}
		for i, k := range keys {
			t.Items = append(t.Items, sem.Ent[int16]{Off: len(t.Data), Sz: uint32(len(k)), V: vals[i]})
			t.Data = append(t.Data, k...)
		}
		t.Data = t.Data[:len(t.Data):len(t.Data)] // cap = len: the translator's model of slices
		t.Idx = make([]int32, nidx)
		for i := range t.Idx {
			t.Idx[i] = -1
		}
		// every slot points at the first item (Find scans forward from there), slot 1 stays empty
		for i := range t.Idx {
			if i != 1 && len(t.Items) > 0 {
				t.Idx[i] = 0
			}
		}
		return t
	}
	lit := func(t *tb) string {
		var its, idx []string
		for _, e := range t.Items {
			its = append(its, "("+z(int64(e.Off))+", "+zu(uint64(e.Sz))+", "+z(int64(e.V))+")")
		}
		for _, i := range t.Idx {
			idx = append(idx, z(int64(i)))
		}
		return bs(t.Data) + " [" + strings.Join(its, "; ") + "] [" + strings.Join(idx, "; ") + "]"
	}
	tables := []*tb{mk(nil, nil, 0), mk(nil, nil, 3), mk([]string{"ab", "c", ""}, []int16{5, -6, 7}, 4), mk([]string{"x"}, []int16{9}, 1)}
	// a table whose last item points outside data: Find panics when it gets there
	bad := mk([]string{"ab", "c"}, []int16{1, 2}, 2)
	bad.Items[1].Off = 7
	tables = append(tables, bad)
	for _, t := range tables {
		for _, s := range []string{"ab", "c", "", "zz", "x"} {
			t, s := t, s
			ex(fmt.Sprintf("g_sem_Find Z 0 ext_keyed %s false %s %s", F, lit(t), bs([]byte(s))), func() string {
				v, ok := t.Find(s)
				return "(" + lit2(t, lit) + ", " + z(int64(v)) + ", " + bl(ok) + ")"
			})
		}
		t := t
		ex(fmt.Sprintf("g_sem_Sizes Z 0 false %s", lit(t)), func() string { return "(" + lit2(t, lit) + ", " + z(int64(t.Sizes())) + ")" })
	}
	ex("g_sem_Find Z 0 ext_keyed "+F+" true (nil : bytes) [] [] (nil : bytes)", func() string {
		var t *tb
		v, ok := t.Find("")
		return "(" + z(int64(v)) + ", " + bl(ok) + ")"
	})
}

// the three fields as the components of a result tuple
func lit2[T any](t T, f func(T) string) string {
	parts := strings.SplitN(f(t), " [", 3)
	return parts[0] + ", [" + parts[1] + ", [" + parts[2]
}
