package main

import (
	"fmt"
	"io"
	"strings"

	"semtest/ext"
	"semtest/sem"
)

// phase 4: slices with capacity, struct state with nested leaves, an interface-typed field whose
// Read stores into a window, the allocator as an object (the Gallina models are feed_read,
// mem_alloc, mem_free of preamble4)

const preamble4 = `
(* the io.Reader of the phase-4 tests: (data left, most bytes per Read); an exhausted source reports io.EOF *)
Definition feed_read (st : bytes * Z) (p : bytes) : res ((bytes * Z) * bytes * Z * gerror) :=
  let '(d, ch) := st in
  if (len d =? 0)%N then Ok (st, p, 0, Some (ecode "io.EOF"))
  else let n := N.min (N.min (len p) (Z.to_N ch)) (len d) in
       Ok ((drop n d, ch), (take n d ++ drop n p)%list, Z.of_N n, gnil).
(* the allocator of the phase-4 tests (ext.Alloc / ext.Free): (number of allocations so far, capacities freed);
   fresh memory is filled with 160 + (number of earlier allocations mod 16) *)
Definition mem_alloc (st : Z * list Z) (n c : Z) : res ((Z * list Z) * gcslice) :=
  if (n <? 0)%Z then Panic 7
  else Ok ((fst st + 1, snd st), Some (repeat (Z.to_N (160 + fst st mod 16)) (Z.to_nat (Z.max n c)), n)).
Definition mem_free (st : Z * list Z) (s : gcslice) : res (Z * list Z) := Ok (fst st, (snd st ++ [gcs_cap s])%list).
(* ext.Dirty(n, c): n bytes 238, capacity exactly c (the rest of the backing array is zero); panics unless 0 <= n <= c *)
Definition mem_dirty (st : Z * list Z) (n c : Z) : res ((Z * list Z) * gcslice) :=
  if ((n <? 0) || (c <? n))%bool then Panic 7
  else Ok (st, Some ((repeat 238%N (Z.to_nat n) ++ repeat 0%N (Z.to_nat (c - n)))%list, n)).
`

type feed struct {
	data  []byte
	chunk int
}

func (f *feed) Read(p []byte) (int, error) {
	if len(f.data) == 0 {
		return 0, io.EOF
	}
	n := len(p)
	if f.chunk < n {
		n = f.chunk
	}
	if len(f.data) < n {
		n = len(f.data)
	}
	copy(p, f.data[:n])
	f.data = f.data[n:]
	return n, nil
}

func csl(b []byte) string {
	if b == nil {
		return "None"
	}
	return fmt.Sprintf("(Some (%s, %s))", bs(b[:cap(b)]), z(int64(len(b))))
}

func csll(p [][]byte) string {
	if p == nil {
		return "None"
	}
	var parts []string
	for _, b := range p {
		parts = append(parts, csl(b))
	}
	return "(Some [" + strings.Join(parts, "; ") + "])"
}

func zlist(a []int) string {
	var parts []string
	for _, x := range a {
		parts = append(parts, z(int64(x)))
	}
	return "[" + strings.Join(parts, "; ") + "]"
}

func gerr(e error) string {
	switch e {
	case nil:
		return "None"
	case io.EOF:
		return `(Some (ecode "io.EOF"))`
	}
	panic("unexpected error value")
}

func feedSt(c *sem.CBuf) string {
	f := c.Rd.(*feed)
	return "(" + bs(f.data) + ", " + z(int64(f.chunk)) + ")"
}

// the eight leaves of a CBuf, in field order
func cstate(c *sem.CBuf) []string {
	return []string{csl(c.Buf), csll(c.Parked), feedSt(c), z(int64(c.Pos)), gerr(c.Err), zlist(c.St.B[:]), z(int64(c.St.I)), bl(c.RO)}
}

func memSt() string { return "(" + z(int64(ext.Allocs)) + ", " + zlist(ext.Freed) + ")" }

type cbufCfg struct {
	back   []byte // backing array up to the capacity (nil: a nil slice)
	l      int
	parked [][]byte
	pos    int
	data   []byte
	chunk  int
	ro     bool
	st     sem.CStats
}

func (k cbufCfg) mk() *sem.CBuf {
	c := &sem.CBuf{Pos: k.pos, RO: k.ro, St: k.st, Rd: &feed{cp(k.data), k.chunk}}
	if k.back != nil {
		c.Buf = append(make([]byte, 0, len(k.back)), k.back...)[:k.l]
	}
	if k.parked != nil {
		c.Parked = [][]byte{}
		for _, p := range k.parked {
			c.Parked = append(c.Parked, append(make([]byte, 0, cap(p)), p[:cap(p)]...)[:len(p)])
		}
	}
	return c
}

func tup(parts []string, more ...string) string {
	return "(" + strings.Join(append(parts, more...), ", ") + ")"
}

func phase4() {
	fmt.Print(preamble4)
	const RD = "(bytes * Z)%type"
	const MEM = "(Z * list Z)%type"
	// CStats
	for _, b := range [][4]int{{0, 0, 0, 0}, {5, 1, 9, 2}, {-3, -1, -7, -2}} {
		for _, i := range []int{-1, 0, 1, 3, 4} {
			b, i := b, i
			ex(fmt.Sprintf("g_sem_SPut false %s %s 42", zlist(b[:]), z(int64(i))), func() string {
				s := &sem.CStats{B: b, I: i}
				s.SPut(42)
				return "(" + zlist(s.B[:]) + ", " + z(int64(s.I)) + ")"
			})
			ex(fmt.Sprintf("g_sem_SMax false %s %s", zlist(b[:]), z(int64(i))), func() string {
				s := &sem.CStats{B: b, I: i}
				r := s.SMax()
				return "(" + zlist(s.B[:]) + ", " + z(int64(s.I)) + ", " + z(int64(r)) + ")"
			})
			ex(fmt.Sprintf("g_sem_SAt false %s 0 %s", zlist(b[:]), z(int64(i))), func() string {
				s := &sem.CStats{B: b}
				r := s.SAt(i)
				return "(" + zlist(s.B[:]) + ", 0, " + z(int64(r)) + ")"
			})
		}
	}
	ex("g_sem_SPut true [0; 0; 0; 0] 0 1", func() string { var s *sem.CStats; s.SPut(1); return "" })
	back8 := []byte{10, 11, 12, 13, 14, 15, 16, 17}
	cfgs := []cbufCfg{
		{back: nil, data: []byte{1, 2, 3}, chunk: 2},
		{back: []byte{}, l: 0, data: []byte{1, 2, 3}, chunk: 2},
		{back: back8, l: 0, data: []byte{1, 2, 3, 4, 5, 6, 7, 8, 9, 10, 11}, chunk: 3},
		{back: back8, l: 3, pos: 1, data: []byte{1, 2, 3, 4, 5, 6, 7, 8, 9, 10, 11}, chunk: 4, st: sem.CStats{B: [4]int{1, 64, 3, 4}, I: 2}},
		{back: back8, l: 5, pos: 5, data: nil, chunk: 4, ro: true, parked: [][]byte{}},
		{back: back8, l: 8, pos: 2, data: []byte{9}, chunk: 0, parked: [][]byte{{1, 2, 3}, append(make([]byte, 0, 6), 4, 5, 6, 7)}},
		{back: back8, l: 6, pos: 6, data: []byte{7, 7}, chunk: 1, st: sem.CStats{B: [4]int{0, 0, 0, 9}, I: 3}, parked: [][]byte{append(make([]byte, 0, 4), 9, 8)}},
	}
	for _, k := range cfgs {
		k := k
		in := strings.Join(cstate(k.mk()), " ")
		ex(fmt.Sprintf("g_sem_CLenCap %s false %s", RD, in), func() string {
			c := k.mk()
			a, b := c.CLenCap()
			return tup(cstate(c), z(int64(a)), z(int64(b)))
		})
		ex(fmt.Sprintf("g_sem_CNils %s false %s", RD, in), func() string {
			c := k.mk()
			a, b, n := c.CNils()
			return tup(cstate(c), bl(a), bl(b), z(int64(n)))
		})
		ex(fmt.Sprintf("g_sem_CFill %s feed_read false %s", RD, in), func() string {
			c := k.mk()
			m, err := c.CFill()
			return tup(cstate(c), z(int64(m)), gerr(err))
		})
		ex(fmt.Sprintf("g_sem_CCompact %s false %s", RD, in), func() string {
			c := k.mk()
			r := c.CCompact()
			return tup(cstate(c), z(int64(r)))
		})
		ex(fmt.Sprintf("g_sem_CStitch %s false %s", RD, in), func() string {
			c := k.mk()
			r := c.CStitch()
			return tup(cstate(c), z(int64(r)))
		})
		ex(fmt.Sprintf("g_sem_CDrop %s %s mem_free false %s (0, [])", RD, MEM, in), func() string {
			ext.Allocs, ext.Freed = 0, nil
			c := k.mk()
			r := c.CDrop()
			return tup(cstate(c), memSt(), z(int64(r)))
		})
		for _, n := range []int{-1, 0, 2, 5} {
			for _, kk := range []int{-1, 0, 3, 5, 9} {
				n, kk := n, kk
				ex(fmt.Sprintf("g_sem_CDirty %s %s mem_dirty mem_alloc false %s %s %s (4, [])", RD, MEM, in, z(int64(n)), z(int64(kk))), func() string {
					ext.Allocs, ext.Freed = 4, nil
					c := k.mk()
					r := c.CDirty(n, kk)
					return tup(cstate(c), memSt(), z(int64(r)))
				})
			}
		}
		for _, n := range []int{0, 1, 2, 5, 9} {
			n := n
			ex(fmt.Sprintf("g_sem_CFillN %s feed_read 50 false %s %s", RD, in, z(int64(n))), func() string {
				c := k.mk()
				r := c.CFillN(n)
				return tup(cstate(c), z(int64(r)))
			})
			ex(fmt.Sprintf("g_sem_CGrow %s %s mem_alloc false %s %s (3, [])", RD, MEM, in, z(int64(n))), func() string {
				ext.Allocs, ext.Freed = 3, nil
				c := k.mk()
				r := c.CGrow(n)
				return tup(cstate(c), memSt(), z(int64(r)))
			})
			ex(fmt.Sprintf("g_sem_CGrowTwice %s %s mem_alloc false %s %s (0, [])", RD, MEM, in, z(int64(n))), func() string {
				ext.Allocs, ext.Freed = 0, nil
				c := k.mk()
				r := c.CGrowTwice(n)
				return tup(cstate(c), memSt(), z(int64(r)))
			})
			for _, big := range []bool{false, true} {
				big := big
				ex(fmt.Sprintf("g_sem_CFresh %s %s mem_alloc false %s %s %s (15, [])", RD, MEM, in, z(int64(n-1)), bl(big)), func() string {
					ext.Allocs, ext.Freed = 15, nil
					c := k.mk()
					r := c.CFresh(n-1, big)
					return tup(cstate(c), memSt(), z(int64(r)))
				})
			}
			ex(fmt.Sprintf("g_sem_CFrom %s false %s %s", RD, in, z(int64(n-1))), func() string {
				c := k.mk()
				r := c.CFrom(n - 1)
				return tup(cstate(c), bs(r))
			})
			ex(fmt.Sprintf("g_sem_CTo %s false %s %s", RD, in, z(int64(n-1))), func() string {
				c := k.mk()
				r := c.CTo(n - 1)
				return tup(cstate(c), bs(r))
			})
			ex(fmt.Sprintf("g_sem_CAt %s false %s %s", RD, in, z(int64(n-1))), func() string {
				c := k.mk()
				r := c.CAt(n - 1)
				return tup(cstate(c), zu(uint64(r)))
			})
			ex(fmt.Sprintf("g_sem_CSet %s false %s %s 200", RD, in, z(int64(n-1))), func() string {
				c := k.mk()
				r := c.CSet(n-1, 200)
				return tup(cstate(c), z(int64(r)))
			})
			for _, m := range []int{-1, 0, 3, 8, 9} {
				m := m
				ex(fmt.Sprintf("g_sem_CWindow %s false %s %s %s", RD, in, z(int64(n-1)), z(int64(m))), func() string {
					c := k.mk()
					r := c.CWindow(n-1, m)
					return tup(cstate(c), bs(r))
				})
				ex(fmt.Sprintf("g_sem_CReslice %s false %s %s %s", RD, in, z(int64(n-1)), z(int64(m))), func() string {
					c := k.mk()
					r := c.CReslice(n-1, m)
					return tup(cstate(c), z(int64(r)))
				})
				ex(fmt.Sprintf("g_sem_CPutAt %s false %s %s %s %s", RD, in, z(int64(n-1)), z(int64(m)), bs([]byte{91, 92, 93})), func() string {
					c := k.mk()
					r := c.CPutAt(n-1, m, []byte{91, 92, 93})
					return tup(cstate(c), z(int64(r)))
				})
			}
		}
		for _, v := range [][]byte{nil, {91}, {91, 92, 93, 94}, {1, 2, 3, 4, 5, 6, 7, 8, 9, 10}} {
			v := v
			ex(fmt.Sprintf("g_sem_CPut %s false %s %s", RD, in, bs(v)), func() string {
				c := k.mk()
				r := c.CPut(cp(v))
				return tup(cstate(c), z(int64(r)))
			})
			ex(fmt.Sprintf("g_sem_CGet %s false %s %s", RD, in, bs(v)), func() string {
				c := k.mk()
				b := cp(v)
				r := c.CGet(b)
				return tup(cstate(c), bs(b), z(int64(r)))
			})
		}
		// Reset: the old leaves are overwritten; the parameter brings its capacity
		for _, nb := range [][]byte{nil, {}, append(make([]byte, 0, 5), 7, 8)} {
			nb := nb
			ex(fmt.Sprintf("g_sem_CReset %s false %s %s %s", RD, in, "("+bs([]byte{4, 4})+", 9)", csl(nb)), func() string {
				c := k.mk()
				var b []byte
				if nb != nil {
					b = append(make([]byte, 0, cap(nb)), nb[:cap(nb)]...)[:len(nb)]
				}
				c.CReset(&feed{[]byte{4, 4}, 9}, b)
				return tup(cstate(c))
			})
		}
	}
	// a nil receiver: every field access panics
	ex(fmt.Sprintf("g_sem_CLenCap %s true None None (nil : bytes, 0) 0 None [0; 0; 0; 0] 0 false", RD), func() string {
		var c *sem.CBuf
		c.CLenCap()
		return ""
	})
}
