// Package bad: every function Bad* uses a construct OUTSIDE the subset tools/gotrans translates;
// semtest.sh checks that each of them is refused (never translated by guessing).
package bad

import (
	"errors"
	"io"
)

var counter int

type pair struct{ a, b int }

func okStore(b []byte, i int, v byte) int {
	b[i] = v
	return i + 1
}

func BadOrder(b []byte) int { return int(b[0]) + okStore(b, 0, 1) }
func BadLoop(b []byte) int {
	n := 0
	for _, x := range b {
		n += int(x)
	}
	return n
}
func BadFor(n int) int {
	s := 0
	for i := 0; i < n; i++ {
		s += i
	}
	return s
}
func BadAlias(b []byte) byte        { s := b[1:]; s[0] = 1; return b[1] }
func BadSliceOfMut(b []byte) []byte { b[0] = 1; return b[1:] }
func BadMap(m map[int]int) int      { return m[1] }
func BadFloat(n int) uint64         { return uint64(float64(n) / 0.75) }
func BadShift(a int, k int) int     { return a << k }
func BadDefer(a int) (r int)        { defer func() { r++ }(); return a }
func BadErrCompare(err error) bool  { return err == io.EOF }
func BadClosure(a int) int          { f := func() int { return a }; return f() }
func BadPointer(p *int) int         { return *p }
func BadUnknownErr() error          { return errors.New("x") }
func BadGlobalWrite(a int) int      { counter = a; return a }
func BadAppendMut(b []byte) []byte  { b[0] = 1; return append(b, 2) }
func BadStruct(p pair) int          { return p.a }
func BadSlice3(b []byte) []byte     { return b[0:1:2] }
func BadAssignMut(b []byte) int     { b[0] = 1; b = b[1:]; return len(b) }
func BadGoto(a int) int {
	if a > 0 {
		goto end
	}
	a = 1
end:
	return a
}
func BadFallthrough(a int) int {
	switch a {
	case 1:
		a = 2
		fallthrough
	case 2:
		a = 3
	}
	return a
}
func BadBreak(a int) int {
	switch a {
	case 1:
		if a > 0 {
			break
		}
		a = 2
	}
	return a
}
func BadRecursion(a int) int {
	if a <= 0 {
		return 0
	}
	return BadRecursion(a-1) + 1
}
