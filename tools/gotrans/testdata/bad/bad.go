// Package bad: every function Bad* uses a construct OUTSIDE the subset tools/gotrans translates;
// semtest.sh checks that each of them is refused (never translated by guessing).
package bad

import (
	"errors"
	"fmt"
	"io"

	"semtest/ext"
)

var counter int

type pair struct{ a, b int }
type pairP struct {
	a int
	p *int
}

func okStore(b []byte, i int, v byte) int {
	b[i] = v
	return i + 1
}

func BadOrder(b []byte) int { return int(b[0]) + okStore(b, 0, 1) }
func BadLoop(k int) int {
	n := 0
	for i := range k {
		n += i
	}
	return n
}
func BadAlias(b []byte) byte         { s := b[1:]; s[0] = 1; return b[1] }
func BadSliceOfMut(b []byte) []byte  { b[0] = 1; return b[1:] }
func BadMapDelete(m map[int]int) int { delete(m, 1); return len(m) }
func BadFloat(n int) uint64          { return uint64(float64(n) / 0.75) }
func BadShift(a int, k int) int      { return a << k }
func BadDefer(a int) (r int)         { defer func() { r++ }(); return a }
func BadErrCompare(err error) bool   { return err == io.EOF }
func BadClosure(a int) int           { f := func() int { return a }; return f() }
func BadPointer(p *pair) int         { return p.a }
func BadPtrValue(p *int) *int        { return p }
func BadUnknownErr() error           { return errors.New("x") }
func BadGlobalWrite(a int) int       { counter = a; return a }
func BadAppendMut(b []byte) []byte   { b[0] = 1; return append(b, 2) }
func BadStruct(p pairP) int          { return p.a }
func BadSlice3(b []byte) []byte      { return b[0:1:2] }
func BadAssignMut(b []byte) int      { b[0] = 1; b = b[1:]; return len(b) }
func BadGoto(a int) int {
	i := 0
loop:
	i++
	if i < a {
		goto loop
	}
	return i
}
func BadFallthrough(a int) int {
	switch a {
	case 1:
		a = 2
		fallthrough
	case 2:
		a = 3
	}
	return a
}

// phase 2
func BadLabel(n int) int {
	s := 0
outer:
	for i := 0; i < n; i++ {
		for j := 0; j < n; j++ {
			if j == 2 {
				continue outer
			}
			s++
		}
	}
	return s
}
func BadMapAlias(m map[int]int) int {
	m2 := m
	m2[1] = 2
	return m[1]
}
func BadMapReturn(m map[int]int) map[int]int { return m }
func BadTypeAssert(g getter) bool {
	_, ok := g.(io.Reader)
	return ok
}
func okBump(p *int) int { *p++; return *p }

var global int

// a callee whose pointer parameter is (somewhere in the package) not the address of a local
func BadPtrCallee(p *int) int { *p += 2; return *p }
func BadPtrCaller() int       { return BadPtrCallee(&global) }
func BadAddrRead(a int) int {
	x := a
	return okBump(&x) + x
}
func BadPtrOrder(p *int) int { return okBump(p) + *p }
func BadPtrTwice(a int) int {
	x := a
	return both(&x, &x)
}
func both(p, q *int) int { *p++; *q++; return *p }
func BadStructWhole(a int) int {
	var p pair
	p.a = a
	q := p
	return q.a
}
func BadOwnedEscape(n int) []byte {
	b := make([]byte, n)
	b[0] = 1
	return b
}
func BadMakeAlias(n int) byte {
	b := make([]byte, n)
	c := b[1:]
	c[0] = 1
	return b[1]
}

type getter interface{ Get() ([]byte, error) }

func BadIfaceErrCmp(g getter) bool {
	_, err := g.Get()
	return err == io.EOF
}
func BadIfaceValue(g getter) getter { return g }
func BadErrMethod(err error) int    { return len(err.Error()) }
func BadErrArg(b []byte) error      { return fmt.Errorf("x %d", b[0]) }
func BadTableWrite(i int) int       { wtbl[0] = 1; return int(wtbl[i]) }

var wtbl = [2]int8{1, 2}

func BadMutual(a int) int {
	if a <= 0 {
		return 0
	}
	return badMutual2(a - 1)
}
func badMutual2(a int) int { return BadMutual(a) + 1 }

type rec2 struct{ a int }

func (p *rec2) okSet(a int) { p.a = a }
func BadRecvCall(a int) int {
	var r rec2
	r.okSet(a)
	return r.a
}
func BadRecvValue(p *rec2) *rec2 { return p }

// phase 3
func okStore2(b []byte, c []byte) int { b[0] = c[0]; return 1 }
func BadSubSliceAlias(b []byte) int   { return okStore2(b[1:], b[0:2]) }
func BadSubSliceHigh(b []byte) int    { return okStore(b[1:3], 0, 1) }
func BadSwitchMulti(a int) int {
	switch {
	case a > 3, a < 0:
		return 1
	}
	return 0
}
func (p *rec2) okBumpR(a int) int { p.a += a; return p.a }
func (p *rec2) BadRecvOrder() int { return p.a + p.okBumpR(1) }
func BadOtherRecv(p *rec2, a int) int {
	return p.okBumpR(a)
}

// map range statements and nil interface values (phase 3)
func BadRangeInLoop(m map[int]int, n int) int {
	s := 0
	for i := 0; i < n; i++ {
		for k := range m {
			s += k
		}
	}
	return s
}
func BadRangeAssign(m map[int]int) int {
	for k := range m {
		m[k+1] = 0
	}
	return len(m)
}
func BadRangeNoDefine(m map[int]int) int {
	k := 0
	for k = range m {
	}
	return k
}
func okRange(m map[int]int) int {
	s := 0
	for k := range m {
		s += k
	}
	return s
}
func BadRangeCallInLoop(m map[int]int, n int) int {
	s := 0
	for i := 0; i < n; i++ {
		s += okRange(m)
	}
	return s
}
func okUse(g getter) int { b, _ := g.Get(); return len(b) }
func BadNilIface() int   { return okUse(nil) }
func BadRangeString(s string) int {
	n := 0
	for range s {
		n++
	}
	return n
}

// windows, struct parameters, range over []byte (phase 3)
type arena interface{ Alloc(n int) ([]byte, error) }

func BadRegionRead(a arena) byte {
	x, _ := a.Alloc(2)
	return x[0]
}
func BadRegionPass(a arena) int {
	x, _ := a.Alloc(2)
	return okStore(x, 0, 1)
}
func BadRegionAppend(a arena) int {
	x, _ := a.Alloc(2)
	y := append(x, 1)
	return len(y)
}
func BadRegionMix(a arena, b []byte) int {
	x, _ := a.Alloc(2)
	x = b
	return len(x)
}
func okPair(p pair) int      { return p.a + p.b }
func BadStructArg(a int) int { var p pair; p.a = a; return okPair(p) }
func BadRangeMutBytes(b []byte) int {
	for i := range b {
		b[i] = 0
	}
	return len(b)
}

type cfg struct{ m map[int]int }

func BadStructParamMapStore(c cfg) int { c.m[1] = 2; return 0 }

// uninitialised memory and mutating methods (phase 3)
type codec interface{ WriteTo(b []byte, w getter) int }

func BadTwoDirty(n int) int {
	a := ext.Dirty(n, n)
	b := ext.Dirty(n, n)
	return len(a) + len(b)
}
func BadDirtAlias(n int) byte {
	a := ext.Dirty(n, n)
	c := a
	c[0] = 1
	return a[0]
}
func BadDirtLoop(n int) int {
	s := 0
	for i := 0; i < n; i++ {
		a := ext.Dirty(i, i)
		s += len(a)
	}
	return s
}
func BadIfaceArg(c codec, g getter, b []byte) int { return c.WriteTo(b, g) }

// read-only views (phase 3)
type ent struct {
	off int
	v   int
}
type table struct {
	items []ent
	idx   []int32
	seed  ext.Seed
}

func (m *table) BadViewStore() int {
	e := &m.items[0]
	e.off = 1
	return e.off
}
func (m *table) BadSliceStore() int {
	m.idx[0] = 1
	return len(m.idx)
}
func (m *table) BadElemWhole() int {
	x := m.items[0]
	return x.v
}
func (m *table) BadOpaqueField() uint64 { return m.seed.K }
func BadKeyedArg(s ext.Seed) uint64     { return ext.Keyed(s, "x") }

// slices with capacity, struct state, the allocator (phase 4): the sharing discipline and the
// constructs outside the subset
type src interface{ Read(p []byte) (int, error) }
type cstats struct {
	b [4]int
	i int
}
type cbuf struct {
	buf    []byte
	other  []byte
	parked [][]byte
	rd     src
	st     cstats
}
type cemb struct {
	cstats
	buf []byte
}

// a local alias of the field is stored into while the field is live
func (c *cbuf) BadAliasStore() byte {
	x := c.buf[1:]
	x[0] = 1
	return c.buf[1]
}

// the field is stored into while a local alias is live
func (c *cbuf) BadStoreUnderAlias(v []byte) int {
	x := c.buf[1:]
	copy(c.buf, v)
	return len(x)
}

// two fields are left sharing one backing array
func (c *cbuf) BadTwoFieldsShare() { c.other = c.buf[:2] }

// the buffer is parked but stays the current buffer
func (c *cbuf) BadParkNoReplace() int {
	c.parked = append(c.parked, c.buf)
	return len(c.parked)
}

// a store through the range variable over the parked buffers
func (c *cbuf) BadRangeStore(v []byte) int {
	n := 0
	for _, b := range c.parked {
		n += copy(b, v)
	}
	return n
}

// the window handed to Read while an alias is live
func (c *cbuf) BadReadUnderAlias() int {
	x := c.buf[:1]
	m, _ := c.rd.Read(c.buf[len(c.buf):cap(c.buf)])
	return m + len(x)
}

func (c *cbuf) BadAppendCS() int {
	c.buf = append(c.buf, 1)
	return len(c.buf)
}
func (c *cbuf) BadThreeIndex() int { return len(c.buf[0:1:2]) }
func (c *cbuf) BadFieldWhole() int {
	p := c.parked
	return len(p)
}
func (c *cbuf) BadArrayWhole() int {
	a := c.st.b
	return a[0]
}

// the literal leaves the interface-typed field nil: no state to give it
func (c *cbuf) BadNilIfaceField(b []byte) { *c = cbuf{buf: b} }

// the interface-typed parameter is used besides being stored
func (c *cbuf) BadMovedParamUse(rd src, b []byte) int {
	*c = cbuf{rd: rd}
	m, _ := rd.Read(b)
	return m
}
func (c *cbuf) BadNestedDest(v []byte) int { return copy(c.buf[1:3][0:1], v) }
func (c *cbuf) BadCapOfCSL() int           { return cap(c.parked) }

// the allocator outside a method of a struct with slices with capacity
func BadAllocOutside(n int) int { return len(ext.Alloc(n)) }

// an embedded struct
func (c *cemb) BadEmbedded() int { return len(c.buf) }

// the literal reads the receiver
func (c *cbuf) BadLiteralReadsRecv() { *c = cbuf{buf: c.other, rd: c.rd} }
