// ext3c.go — phase 3, third part (container/strmap Get / Len / Item): READ-ONLY views of a struct
// with slice fields.
//   - a type parameter V with an empty constraint is a value type: binders (T_V : Type) (z_V : T_V)
//     (the type and its zero value);
//   - a field of type []T for an integer type T is a list Z, a field of type []S for a struct S of
//     such fields is a list of tuples; x[i] is GoSem.gelem (bounds-checked), len(x) its length;
//     no store into such a slice is translated (a function that contains one is refused), so
//   - e := &items[i] / e = &items[j] is a COPY of the element, one variable per field (e.f reads it);
//   - a receiver field of any other type (maphash.Seed) has no binder and may only be handed to an
//     external function that is listed with that argument dropped (extDropped).
package main

import (
	"fmt"
	"go/ast"
	"go/token"
	"go/types"
	"strings"
)

// a type parameter without methods in its constraint: a value type
func valueTypeParam(t types.Type) (*types.TypeParam, bool) {
	tp, ok := t.(*types.TypeParam)
	if !ok {
		return nil, false
	}
	it, ok := tp.Constraint().Underlying().(*types.Interface)
	if !ok || it.NumMethods() > 0 {
		return nil, false
	}
	return tp, true
}

// the Coq type of the elements of a read-only slice: Z for integers, a tuple for structs
func roElemType(t types.Type) (string, bool) {
	if _, _, ok := intTypeInfo(t); ok {
		return "Z", true
	}
	if tp, ok := valueTypeParam(t); ok {
		return "T_" + tp.Obj().Name(), true
	}
	if isBool(t) {
		return "bool", true
	}
	if isBytesLike(t) {
		return "bytes", true
	}
	if fs, ok := structFields(t); ok {
		var ps []string
		for _, fv := range fs {
			p, ok := roElemType(fv.Type())
			if !ok || strings.Contains(p, "*") {
				return "", false
			}
			ps = append(ps, p)
		}
		return "(" + strings.Join(ps, " * ") + ")", true
	}
	return "", false
}

// []T that is read only: list of roElemType
func roSliceType(t types.Type) (string, bool) {
	s, ok := t.Underlying().(*types.Slice)
	if !ok || isByteSlice(t) {
		return "", false
	}
	e, ok := roElemType(s.Elem())
	if !ok {
		return "", false
	}
	return "(list " + e + ")", true
}

// a field type a read-only receiver view can have a binder for
func roFieldOK(t types.Type) bool {
	if _, ok := roSliceType(t); ok {
		return true
	}
	if _, ok := valueTypeParam(t); ok {
		return true
	}
	_, _, isMap := mapKV(t)
	_, _, isInt := intTypeInfo(t)
	return isMap || isInt || isBool(t) || isBytesLike(t) || isFloat64(t)
}

// the receiver *S of a method that never assigns through it: binders for the fields of translatable
// types, none for the others
func (t *tr) analyseROReceiver(f *fnInfo, recv *types.Var, fs []*types.Var) {
	info := f.pkg.TypesInfo
	writes := false
	rooted := func(e ast.Expr) bool {
		for {
			switch x := ast.Unparen(e).(type) {
			case *ast.SelectorExpr:
				e = x.X
			case *ast.IndexExpr:
				e = x.X
			case *ast.SliceExpr:
				e = x.X
			case *ast.StarExpr:
				e = x.X
			case *ast.Ident:
				return info.Uses[x] == recv
			default:
				return false
			}
		}
	}
	ast.Inspect(f.decl.Body, func(n ast.Node) bool {
		switch x := n.(type) {
		case *ast.AssignStmt:
			for _, l := range x.Lhs {
				if rooted(l) {
					writes = true
				}
			}
		case *ast.IncDecStmt:
			if rooted(x.X) {
				writes = true
			}
		case *ast.UnaryExpr:
			// &m.f (other than &m.items[i], an element copy) would let a callee write
			if x.Op == token.AND {
				if _, isIx := ast.Unparen(x.X).(*ast.IndexExpr); !isIx && rooted(x.X) {
					writes = true
				}
			}
		}
		return true
	})
	if writes {
		return
	}
	var keep []*types.Var
	for _, fv := range fs {
		if roFieldOK(fv.Type()) {
			keep = append(keep, fv)
		}
	}
	f.recvStruct, f.recvFields, f.recvRO = recv, keep, true
	if sig, ok := f.obj.Type().(*types.Signature); ok && sig.RecvTypeParams() != nil {
		for i := 0; i < sig.RecvTypeParams().Len(); i++ {
			f.typeParams = append(f.typeParams, sig.RecvTypeParams().At(i))
		}
	}
}

func (f *fnInfo) typeParamBinders() []string {
	var bs []string
	for _, tp := range f.typeParams {
		n := tp.Obj().Name()
		bs = append(bs, fmt.Sprintf("(T_%s : Type) (z_%s : T_%s)", n, n, n))
	}
	return bs
}

func (f *fnInfo) typeParamArgs() []string {
	var as []string
	for _, tp := range f.typeParams {
		n := tp.Obj().Name()
		as = append(as, "T_"+n, "z_"+n)
	}
	return as
}

// ---------- e := &items[i] : a copy of the element ----------

// the struct whose fields an element view has: e has type *S
func elemViewStruct(v *types.Var) ([]*types.Var, bool) {
	e, ok := ptrElem(v.Type())
	if !ok {
		return nil, false
	}
	return structFields(e)
}

// &x[i] for a read-only slice of structs x
func (c *fctx) elemAddr(e ast.Expr) (*ast.IndexExpr, bool) {
	u, ok := ast.Unparen(e).(*ast.UnaryExpr)
	if !ok || u.Op != token.AND {
		return nil, false
	}
	ix, ok := ast.Unparen(u.X).(*ast.IndexExpr)
	if !ok {
		return nil, false
	}
	if _, ok := roSliceType(c.info.TypeOf(ix.X)); !ok {
		return nil, false
	}
	return ix, true
}

func (t *tr) analyseElemViews(f *fnInfo) {
	info := f.pkg.TypesInfo
	f.elemView = map[*types.Var]bool{}
	bad := map[*types.Var]bool{}
	ast.Inspect(f.decl.Body, func(n ast.Node) bool {
		as, ok := n.(*ast.AssignStmt)
		if !ok {
			return true
		}
		for i, l := range as.Lhs {
			id, ok := ast.Unparen(l).(*ast.Ident)
			if !ok {
				continue
			}
			o := info.Defs[id]
			if o == nil {
				o = info.Uses[id]
			}
			v, _ := o.(*types.Var)
			if v == nil {
				continue
			}
			if _, isView := elemViewStruct(v); !isView {
				continue
			}
			isAddr := false
			if len(as.Rhs) == len(as.Lhs) {
				if u, ok := ast.Unparen(as.Rhs[i]).(*ast.UnaryExpr); ok && u.Op == token.AND {
					if _, ok := ast.Unparen(u.X).(*ast.IndexExpr); ok {
						isAddr = true
					}
				}
			}
			if isAddr {
				f.elemView[v] = true
			} else {
				bad[v] = true
			}
		}
		return true
	})
	for v := range bad {
		delete(f.elemView, v)
	}
}

// e := &x[i] / e = &x[i]
func (c *fctx) elemViewAssign(s *ast.AssignStmt) ([]string, bool) {
	if len(s.Lhs) != 1 || len(s.Rhs) != 1 {
		return nil, false
	}
	id, ok := ast.Unparen(s.Lhs[0]).(*ast.Ident)
	if !ok {
		return nil, false
	}
	o := c.info.Defs[id]
	if o == nil {
		o = c.info.Uses[id]
	}
	v, _ := o.(*types.Var)
	if v == nil || !c.f.elemView[v] {
		return nil, false
	}
	ix, ok := c.elemAddr(s.Rhs[0])
	if !ok {
		c.failf(s, "%s is a view of a slice element: only %s = &x[i] for a read-only slice of structs x is translated", id.Name, id.Name)
	}
	fs, _ := elemViewStruct(v)
	p1, l := c.expr(ix.X)
	p2, i := c.expr(ix.Index)
	var names []string
	for _, fv := range fs {
		names = append(names, c.assignVar(c.fieldName(v, fv)))
	}
	pre := append(p1, p2...)
	return append(pre, fmt.Sprintf("do %s <- gelem %s %s;", tuple(names), l, i)), true
}

// ---------- external functions with dropped arguments ----------

// arguments that are not arguments of the model: an opaque field of the read-only receiver
// (maphash.String(m.seed, s) is "the hash function of this instance", a function of s)
var extDropped = map[string]map[int]bool{
	modPath + "internal/hash/maphash.String": {0: true},
	"semtest/ext.Keyed":                      {0: true},
}

func (c *fctx) droppedArgOK(a ast.Expr) bool {
	sel, ok := ast.Unparen(a).(*ast.SelectorExpr)
	if !ok || !c.isRecv(sel.X) || !c.f.recvRO {
		return false
	}
	fv, ok := c.info.Uses[sel.Sel].(*types.Var)
	return ok && fv.IsField() && !roFieldOK(fv.Type())
}
