// ext3b.go — phase 3, second part (the ttheader encoder over a bufiox.Writer):
//   - WINDOWS into memory owned by an abstract object: the []byte result of a method listed in
//     regionMethods (bufiox.Writer.Malloc) is a pair (start, length) in the object's own address
//     space (GoSem.gregion); x[i] = v, binary.BigEndian.PutUintK(x[a:b], v) store through the
//     object's poke operation, a parameter r_<obj>_poke : St -> Z -> bytes -> res St of the
//     generated definition; y := x[a:b] is a window again; len(x) its length;
//   - parameters of a struct type (one binder per field; the struct is a copy);
//   - v, ok := m[k];
//   - for i, x := range s over a []byte value that the body does not store into.
package main

import (
	"fmt"
	"go/ast"
	"go/token"
	"go/types"
	"strings"
)

// Methods whose []byte result is a window into memory owned by the receiver object.  Trusted: the
// window has exactly the requested length (as the model of the method says), stays valid for the
// rest of the call, and stores through it change nothing but the object's state (poke).
var regionMethods = map[string]bool{
	"(" + modPath + "bufiox.Writer).Malloc": true,
	"(semtest/sem.Arena).Alloc":             true, // the translator's differential self-test
	"(semtest/bad.arena).Alloc":             true, // ... and its refused samples
}

func isRegionMethod(fn *types.Func) bool { return fn != nil && regionMethods[fn.Origin().FullName()] }

// ---------- analysis: which local []byte variables are windows, and of which object ----------

func (t *tr) analyseRegions(f *fnInfo) {
	info := f.pkg.TypesInfo
	f.regionOf = map[*types.Var]*absRoot{}
	varOf := func(e ast.Expr) *types.Var {
		id, ok := ast.Unparen(e).(*ast.Ident)
		if !ok {
			return nil
		}
		o := info.Defs[id]
		if o == nil {
			o = info.Uses[id]
		}
		v, _ := o.(*types.Var)
		if v == nil || !isByteSlice(v.Type()) || v.IsField() || (v.Pkg() != nil && v.Parent() == v.Pkg().Scope()) {
			return nil
		}
		return v
	}
	// the window a right-hand side denotes: a region method call, a region variable, a slice of one
	var rootOf func(e ast.Expr) *absRoot
	rootOf = func(e ast.Expr) *absRoot {
		switch y := ast.Unparen(e).(type) {
		case *ast.Ident:
			if v := varOf(y); v != nil {
				return f.regionOf[v]
			}
		case *ast.SliceExpr:
			return rootOf(y.X)
		case *ast.CallExpr:
			if sel, ok := ast.Unparen(y.Fun).(*ast.SelectorExpr); ok {
				if fn, ok := info.Uses[sel.Sel].(*types.Func); ok && isRegionMethod(fn) {
					if root, path := absPathOf(f, info, sel.X); root != nil && path == "" {
						return root
					}
				}
			}
		}
		return nil
	}
	for changed := true; changed; {
		changed = false
		mark := func(l ast.Expr, r *absRoot) {
			if v := varOf(l); v != nil && r != nil && f.regionOf[v] == nil {
				f.regionOf[v] = r
				changed = true
			}
		}
		ast.Inspect(f.decl.Body, func(n ast.Node) bool {
			switch x := n.(type) {
			case *ast.AssignStmt:
				if len(x.Rhs) == 1 && len(x.Lhs) >= 1 {
					if _, isCall := ast.Unparen(x.Rhs[0]).(*ast.CallExpr); isCall || len(x.Lhs) == 1 {
						mark(x.Lhs[0], rootOf(x.Rhs[0]))
					}
				} else if len(x.Rhs) == len(x.Lhs) {
					for i := range x.Lhs {
						mark(x.Lhs[i], rootOf(x.Rhs[i]))
					}
				}
			case *ast.ValueSpec:
				if len(x.Values) == len(x.Names) {
					for i, nm := range x.Names {
						mark(nm, rootOf(x.Values[i]))
					}
				}
			}
			return true
		})
	}
	for _, r := range f.regionOf {
		r.poke = true
	}
}

func (c *fctx) regionVar(e ast.Expr) (*types.Var, *absRoot) {
	id, ok := ast.Unparen(e).(*ast.Ident)
	if !ok {
		return nil, nil
	}
	o := c.info.Uses[id]
	if o == nil {
		o = c.info.Defs[id]
	}
	v, _ := o.(*types.Var)
	if v == nil {
		return nil, nil
	}
	return v, c.f.regionOf[v]
}

// e is a window: a region variable or a slice of a window
func (c *fctx) isRegionExpr(e ast.Expr) bool {
	switch y := ast.Unparen(e).(type) {
	case *ast.Ident:
		_, r := c.regionVar(y)
		return r != nil
	case *ast.SliceExpr:
		return c.isRegionExpr(y.X)
	}
	return false
}

// regionExpr translates a window expression: nil, a region variable, w[a:b]; returns its owner too
func (c *fctx) regionExpr(e ast.Expr) (pre []string, term string, root *absRoot) {
	switch y := ast.Unparen(e).(type) {
	case *ast.Ident:
		if isNilIdent(c.info, y) {
			return nil, "gregion_nil", nil
		}
		if v, r := c.regionVar(y); r != nil {
			return nil, c.readVar(c.nameOf(v)), r
		}
	case *ast.SliceExpr:
		if y.Slice3 {
			break
		}
		p, b, r := c.regionExpr(y.X)
		if r == nil {
			break
		}
		t := c.fresh()
		switch {
		case y.Low != nil && y.High != nil:
			p1, lo := c.expr(y.Low)
			p2, hi := c.expr(y.High)
			p = append(append(p, p1...), p2...)
			p = append(p, fmt.Sprintf("do %s <- gregion_slice %s %s %s;", t, b, lo, hi))
		case y.Low != nil:
			p1, lo := c.expr(y.Low)
			p = append(p, p1...)
			p = append(p, fmt.Sprintf("do %s <- gregion_slice %s %s (gregion_len %s);", t, b, lo, b))
		case y.High != nil:
			p1, hi := c.expr(y.High)
			p = append(p, p1...)
			p = append(p, fmt.Sprintf("do %s <- gregion_slice %s 0 %s;", t, b, hi))
		default:
			return p, b, r
		}
		return p, t, r
	}
	c.failf(e, "%s is not a window into an abstract object's memory (nil, a variable assigned from W.Malloc(n), or a slice of one)", types.ExprString(e))
	return nil, "", nil
}

func (r *absRoot) pokeName() string { return "r_" + r.v.Name() + "_poke" }

// a store of bs at position pos of the window's owner
func (c *fctx) pokeLine(root *absRoot, pos, bs string) string {
	st := c.nameOf(root.v)
	cur := c.readVar(st)
	return fmt.Sprintf("do %s <- %s %s %s %s;", c.assignVar(st), root.pokeName(), cur, pos, bs)
}

// x[i] = v for a window x
func (c *fctx) regionIndexStore(s *ast.AssignStmt, ix *ast.IndexExpr) []string {
	p0, w, root := c.regionExpr(ix.X)
	p1, i := c.expr(ix.Index)
	p2, v := c.expr(s.Rhs[0])
	pos := c.fresh()
	pre := append(append(p0, p1...), p2...)
	pre = append(pre, fmt.Sprintf("do %s <- gregion_at %s %s;", pos, w, i))
	return append(pre, c.pokeLine(root, pos, "[gbyte "+v+"]"))
}

// binary.BigEndian.PutUintK(w, v) for a window expression w
func (c *fctx) regionPut(x *ast.CallExpr, k int) []string {
	p0, w, root := c.regionExpr(x.Args[0])
	p1, v := c.expr(x.Args[1])
	pos := c.fresh()
	pre := append(p0, p1...)
	pre = append(pre, fmt.Sprintf("do %s <- gregion_need %s %d;", pos, w, k))
	return append(pre, c.pokeLine(root, pos, fmt.Sprintf("(gbe %d %s)", k, v)))
}

// ---------- v, ok := m[k] ----------

func (c *fctx) commaOk(s *ast.AssignStmt) ([]string, bool) {
	if len(s.Lhs) != 2 || len(s.Rhs) != 1 {
		return nil, false
	}
	ix, ok := ast.Unparen(s.Rhs[0]).(*ast.IndexExpr)
	if !ok {
		return nil, false
	}
	k, v, isMap := mapKV(c.info.TypeOf(ix.X))
	if !isMap {
		return nil, false
	}
	p1, m := c.expr(ix.X)
	p2, i := c.exprAs(ix.Index, k)
	t := c.fresh()
	pre := append(p1, p2...)
	pre = append(pre, fmt.Sprintf("let %s := gmap_find %s %s %s in", t, c.keyEqb(s, k), m, i))
	if n := c.lhsName(s.Lhs[0]); n != "_" {
		pre = append(pre, c.bindLine(s.Lhs[0], n, fmt.Sprintf("(match %s with Some x_ => x_ | None => %s end)", t, c.zero(s, v))))
	}
	if n := c.lhsName(s.Lhs[1]); n != "_" {
		pre = append(pre, c.bindLine(s.Lhs[1], n, fmt.Sprintf("(match %s with Some _ => true | None => false end)", t)))
	}
	return pre, true
}

// ---------- for i, x := range s over a []byte value ----------

func (c *fctx) rangeBytes(depth int, s *ast.RangeStmt, rest func(int) string) string {
	if s.Tok != token.DEFINE && (s.Key != nil || s.Value != nil) {
		c.failf(s, "range statement that assigns existing variables")
	}
	fr := c.loopCache[s.Body]
	// the slice is evaluated once, before the loop
	c.readMut, c.nestedMut, c.topCall = false, false, nil
	if c.isMutatedParam(s.X) {
		c.failf(s, "range over a []byte that is stored into (the loop would see the stores)")
	}
	pre, xs := c.expr(s.X)
	c.checkOrder(s.X)
	if fr == nil {
		fr = c.translateRangeBytes(s)
		c.loopCache[s.Body] = fr
	}
	for _, n := range fr.free {
		c.readVar(n)
	}
	for _, n := range fr.carried {
		c.readVar(n)
		c.assignVar(n)
	}
	if fr.usesRec && len(c.loops) > 0 {
		for _, o := range c.loops {
			o.usesRec = true
		}
	}
	call := c.loopCall(fr, xs+" 0")
	if fr.usesRec {
		call = strings.Replace(call, "@@REC@@", c.recHead(), 1)
	}
	t, r := c.fresh(), c.fresh()
	out := c.lines(depth, pre)
	out += ind(depth) + fmt.Sprintf("do %s <- %s;\n", t, call)
	out += ind(depth) + fmt.Sprintf("match %s with\n", t)
	if len(c.loops) == 0 {
		out += ind(depth) + fmt.Sprintf("| inr %s => Ok %s\n", r, r)
	} else {
		out += ind(depth) + fmt.Sprintf("| inr %s => Ok (@@INR:%s@@%s)\n", r, c.loops[len(c.loops)-1].name, r)
	}
	pat := "_"
	if len(fr.carried) > 0 {
		pat = tuple(fr.carried)
	}
	out += ind(depth) + fmt.Sprintf("| inl %s =>\n", pat)
	out += rest(depth + 1)
	out += ind(depth) + "end\n"
	return out
}

func (c *fctx) translateRangeBytes(s *ast.RangeStmt) *loopFrame {
	c.nloop++
	fr := &loopFrame{name: fmt.Sprintf("%s_loop%d", c.f.coqName, c.nloop), lo: s.Pos(), hi: s.End(), reads: map[string]bool{}, carriedSet: map[string]bool{}, canExit: true}
	fr.carried = c.carriedOfNodes(fr, []ast.Node{s.Body})
	for _, n := range fr.carried {
		fr.carriedSet[n] = true
	}
	carriedTuple := tuple(fr.carried)
	savedLoops, savedBrk := c.loops, c.brk
	c.loops = append(c.loops[:len(c.loops):len(c.loops)], fr)
	exit := func(d int) string { return ind(d) + "Ok (inl " + carriedTuple + ")\n" }
	c.brk = append(c.brk[:len(c.brk):len(c.brk)], exit)
	cont := func(d int) string { return ind(d) + "@@CALL:" + fr.name + "@@\n" }
	c.conts = append(c.conts, cont)
	var head []string
	if id, ok := s.Key.(*ast.Ident); ok && id.Name != "_" {
		head = append(head, fmt.Sprintf("let %s := i_ in", c.nameOf(c.info.Defs[id])))
	}
	if s.Value != nil {
		id, ok := s.Value.(*ast.Ident)
		if !ok {
			c.failf(s, "range value %s", types.ExprString(s.Value))
		}
		if id.Name != "_" {
			head = append(head, fmt.Sprintf("let %s := Z.of_N x_ in", c.nameOf(c.info.Defs[id])))
		}
	}
	body := c.lines(2, head) + c.block(2, s.Body.List, cont)
	c.conts = c.conts[:len(c.conts)-1]
	c.loops, c.brk = savedLoops, savedBrk
	for n := range fr.reads {
		if !fr.carriedSet[n] {
			fr.free = append(fr.free, n)
		}
	}
	c.sortVars(fr.free)
	binders := append(c.absBinders(c.f), c.extBinders(c.f)...)
	if fr.usesRec {
		binders = append(binders, "(rec_ : "+c.recType()+")")
	}
	if c.f.needsRFuel {
		binders = append(binders, "(rfuel : nat)")
	}
	if c.f.needsFuel {
		binders = append(binders, "(fuel : nat)")
	}
	for _, g := range c.f.globals {
		if isIntTable(g.Type()) {
			binders = append(binders, fmt.Sprintf("(%s : list Z)", globalName(g)))
		} else {
			binders = append(binders, fmt.Sprintf("(%s : %s)", globalName(g), c.coqType(s, g.Type())))
		}
	}
	for _, n := range fr.free {
		binders = append(binders, c.binder(s, n))
	}
	binders = append(binders, "(xs : bytes) (i_ : Z)")
	var cts []string
	for _, n := range fr.carried {
		binders = append(binders, c.binder(s, n))
		cts = append(cts, c.varCoqType(s, c.vars[n]))
	}
	ct := "unit"
	if len(cts) > 0 {
		ct = strings.Join(cts, " * ")
	}
	self := strings.Replace(c.loopCall(fr, "xs (i_ + 1)"), "@@REC@@", "rec_", 1)
	body = strings.ReplaceAll(body, "@@CALL:"+fr.name+"@@", self)
	body = strings.ReplaceAll(body, "@@INR:"+fr.name+"@@", "inr ")
	var sb strings.Builder
	fmt.Fprintf(&sb, "(* a range statement of %s over the []byte %s: xs is what is left of it, i_ the index", c.f.spec.name, types.ExprString(s.X))
	if len(fr.carried) > 0 {
		fmt.Fprintf(&sb, "; inl: the loop ended, with the final %s", strings.Join(fr.carried, ", "))
	}
	fmt.Fprintf(&sb, "; inr: the function returned *)\n")
	fmt.Fprintf(&sb, "Fixpoint %s %s {struct xs} : res ((%s) + (%s)) :=\n  match xs with\n  | [] => Ok (inl %s)\n  | x_ :: xs =>\n%s  end.\n",
		fr.name, strings.Join(binders, " "), ct, c.f.resType, carriedTuple, body)
	c.f.loopText = append(c.f.loopText, sb.String())
	fr.done = true
	return fr
}

// ---------- parameters of a struct type ----------

func structParamOK(t types.Type) bool {
	fs, ok := structFields(t)
	if !ok {
		return false
	}
	for _, fv := range fs {
		_, _, isMap := mapKV(fv.Type())
		_, _, isInt := intTypeInfo(fv.Type())
		if !isMap && !isInt && !isBool(fv.Type()) && !isBytesLike(fv.Type()) && !isFloat64(fv.Type()) {
			return false
		}
	}
	return true
}

func (f *fnInfo) isStructParam(o types.Object) bool {
	for _, p := range f.params {
		if p == o {
			_, ok := structFields(p.Type())
			return ok
		}
	}
	return false
}

// the owner of a window expression, without emitting anything (for the loop analysis)
func (c *fctx) regionExprQuiet(e ast.Expr) (pre []string, term string, root *absRoot) {
	switch y := ast.Unparen(e).(type) {
	case *ast.Ident:
		_, r := c.regionVar(y)
		return nil, "", r
	case *ast.SliceExpr:
		return c.regionExprQuiet(y.X)
	}
	return nil, "", nil
}

// ---------- methods of abstract objects that store into a []byte argument ----------

// Trusted: the method stores into the listed []byte parameter (its final contents are a result of the
// model) and keeps no reference to it; it does not store into any other argument.
var mutatingMethods = map[string][]int{
	"(" + modPath + "protocol/thrift.FastCodec).FastWriteNocopy": {0},
	"(semtest/sem.Codec).WriteTo":                                {0}, // the translator's differential self-test
	"(io.Reader).Read":                                           {0}, // phase 4: handed a window of a slice with capacity
	"(semtest/sem.Feed).Read":                                    {0},
	"(semtest/bad.src).Read":                                     {0},
}

func methodStoresInto(fn *types.Func, i int) bool {
	for _, j := range mutatingMethods[fn.Origin().FullName()] {
		if i == j {
			return true
		}
	}
	return false
}

func calleeOf(info *types.Info, call *ast.CallExpr) *types.Func {
	var id *ast.Ident
	switch f := ast.Unparen(call.Fun).(type) {
	case *ast.Ident:
		id = f
	case *ast.SelectorExpr:
		id = f.Sel
	default:
		return nil
	}
	fn, _ := info.Uses[id].(*types.Func)
	return fn
}
