// gotrans: source-to-Gallina translator for a small subset of Go (phase 1: loop-free functions;
// phase 2, ext.go: for loops and self-recursion on explicit fuel, *int parameters, maps, struct
// variables, package-level tables and calls of methods of abstract objects; phase 3, ext3*.go: the
// write / encode side; phase 4, ext4.go: bufiox — pointer receivers to structs whose []byte fields
// have spare capacity (GoSem.gcslice), [][]byte and array fields, interface-typed fields whose
// methods store into a window, nested structs, the allocator as an abstract object, under a
// syntactic sharing discipline that keeps the value semantics sound; its assumptions are listed in
// the header of ext4.go and written into the header of Funcs.v).
//
// Loads /repo with full type information and translates a WHITELIST of small pure functions
// into Gallina definitions (coq/Gen/Funcs.v, names g_<pkg>_<Func>), written in terms of
// coq/Lib/GoSem.v, coq/Lib/Res.v and coq/Lib/Bytes.v.  coq/Proofs/GenEquiv*.v then prove each
// generated function equal to the hand-written model the property theorems are about, so a
// change of such a Go function changes the generated definition and breaks a proof obligation.
//
// The tool only emits `Definition`s and `Fixpoint`s (never Axiom / Parameter).  It never guesses: any construct outside the supported
// subset makes the translation of that function fail; the function (and every function that
// calls it) is then OMITTED from Funcs.v, a comment records function, position and construct,
// the same text goes to stderr and the exit status is 3 (so that the equivalence lemma of
// exactly that function no longer compiles).  Exit status 2: /repo could not be loaded.
//
// Supported subset and the semantics given to it: see the header that is written into Funcs.v
// (func header()) and coq/Lib/GoSem.v.
package main

import (
	"flag"
	"fmt"
	"go/ast"
	"go/constant"
	"go/token"
	"go/types"
	"os"
	"path/filepath"
	"regexp"
	"sort"
	"strings"

	"golang.org/x/tools/go/packages"
)

const modPath = "github.com/cloudwego/gopkg/"

var pkgShort = map[string]string{
	modPath + "protocol/thrift":      "thrift",
	modPath + "protocol/ttheader":    "ttheader",
	modPath + "container/strmap":     "strmap",
	modPath + "protocol/thrift/base": "base",
	modPath + "bufiox":               "bufiox",
}

type fnSpec struct{ pkg, recv, name string }

// The whitelist, in the order of the brief.  Callees must be listed too.
var whitelist = []fnSpec{
	// protocol/thrift/binary.go — buffer readers
	{"thrift", "BinaryProtocol", "ReadBool"}, {"thrift", "BinaryProtocol", "ReadByte"},
	{"thrift", "BinaryProtocol", "ReadI16"}, {"thrift", "BinaryProtocol", "ReadI32"},
	{"thrift", "BinaryProtocol", "ReadI64"}, {"thrift", "BinaryProtocol", "ReadDouble"},
	{"thrift", "BinaryProtocol", "ReadFieldBegin"}, {"thrift", "BinaryProtocol", "ReadMapBegin"},
	{"thrift", "BinaryProtocol", "ReadListBegin"}, {"thrift", "BinaryProtocol", "ReadSetBegin"},
	{"thrift", "BinaryProtocol", "ReadBinary"}, {"thrift", "BinaryProtocol", "ReadString"},
	{"thrift", "BinaryProtocol", "ReadMessageBegin"},
	// length functions
	{"thrift", "BinaryProtocol", "MessageBeginLength"}, {"thrift", "BinaryProtocol", "FieldBeginLength"},
	{"thrift", "BinaryProtocol", "FieldStopLength"}, {"thrift", "BinaryProtocol", "MapBeginLength"},
	{"thrift", "BinaryProtocol", "ListBeginLength"}, {"thrift", "BinaryProtocol", "SetBeginLength"},
	{"thrift", "BinaryProtocol", "BoolLength"}, {"thrift", "BinaryProtocol", "ByteLength"},
	{"thrift", "BinaryProtocol", "I16Length"}, {"thrift", "BinaryProtocol", "I32Length"},
	{"thrift", "BinaryProtocol", "I64Length"}, {"thrift", "BinaryProtocol", "DoubleLength"},
	{"thrift", "BinaryProtocol", "StringLength"}, {"thrift", "BinaryProtocol", "BinaryLength"},
	{"thrift", "BinaryProtocol", "StringLengthNocopy"}, {"thrift", "BinaryProtocol", "BinaryLengthNocopy"},
	// appending writers
	{"thrift", "", "appendUint32"}, {"thrift", "", "appendUint64"},
	{"thrift", "BinaryProtocol", "AppendBool"}, {"thrift", "BinaryProtocol", "AppendByte"},
	{"thrift", "BinaryProtocol", "AppendI16"}, {"thrift", "BinaryProtocol", "AppendI32"},
	{"thrift", "BinaryProtocol", "AppendI64"}, {"thrift", "BinaryProtocol", "AppendDouble"},
	{"thrift", "BinaryProtocol", "AppendBinary"}, {"thrift", "BinaryProtocol", "AppendString"},
	{"thrift", "BinaryProtocol", "AppendFieldBegin"}, {"thrift", "BinaryProtocol", "AppendFieldStop"},
	{"thrift", "BinaryProtocol", "AppendMapBegin"}, {"thrift", "BinaryProtocol", "AppendListBegin"},
	{"thrift", "BinaryProtocol", "AppendSetBegin"}, {"thrift", "BinaryProtocol", "AppendMessageBegin"},
	// in-place writers
	{"thrift", "BinaryProtocol", "WriteBool"}, {"thrift", "BinaryProtocol", "WriteByte"},
	{"thrift", "BinaryProtocol", "WriteI16"}, {"thrift", "BinaryProtocol", "WriteI32"},
	{"thrift", "BinaryProtocol", "WriteI64"}, {"thrift", "BinaryProtocol", "WriteDouble"},
	{"thrift", "BinaryProtocol", "WriteBinary"}, {"thrift", "BinaryProtocol", "WriteString"},
	{"thrift", "BinaryProtocol", "WriteFieldBegin"}, {"thrift", "BinaryProtocol", "WriteFieldStop"},
	{"thrift", "BinaryProtocol", "WriteMapBegin"}, {"thrift", "BinaryProtocol", "WriteListBegin"},
	{"thrift", "BinaryProtocol", "WriteSetBegin"}, {"thrift", "BinaryProtocol", "WriteMessageBegin"},
	// protocol/ttheader/utils.go, decode.go
	{"ttheader", "", "Bytes2Uint32NoCheck"}, {"ttheader", "", "Bytes2Uint16NoCheck"},
	{"ttheader", "", "Bytes2Uint8"}, {"ttheader", "", "Bytes2Uint16"},
	{"ttheader", "", "ReadString2BLen"}, {"ttheader", "", "IsStreaming"},
	{"ttheader", "", "IsTTHeader"}, {"ttheader", "", "checkProtocolID"},
	// phase 2: loops, *int parameters, maps, an abstract reader (decode.go)
	{"ttheader", "", "readIntKVInfo"}, {"ttheader", "", "readStrKVInfo"}, {"ttheader", "", "readACLToken"},
	{"ttheader", "", "readKVInfo"}, {"ttheader", "", "Decode"},
	// the generic skip template over an abstract SkipN (skipdecoder_tpl.go): recursion, loops
	{"thrift", "SkipDecoderTpl", "Skip"},
	// BufferReader over an abstract bufiox.Reader (bufferreader.go): the skipper and what it calls
	{"thrift", "BufferReader", "next"}, {"thrift", "BufferReader", "skipn"}, {"thrift", "BufferReader", "ReadI32"},
	{"thrift", "BufferReader", "skipstr"}, {"thrift", "BufferReader", "ReadFieldBegin"},
	{"thrift", "BufferReader", "ReadMapBegin"}, {"thrift", "BufferReader", "ReadListBegin"},
	{"thrift", "BufferReader", "skipType"}, {"thrift", "BufferReader", "Skip"},
	// the shipped FastCodec structs (base/k-base.go): goto to trailing error labels, fields stored
	// through the pointer receiver, thrift.Binary.Skip as an external function
	{"base", "Base", "FastRead"}, {"base", "BaseResp", "FastRead"},
	// phase 3 (ext3.go): thrift.ApplicationException (exception.go): switch without a tag, b[off:]
	// handed to the in-place writers, a call of another method of the same receiver
	{"thrift", "ApplicationException", "BLength"}, {"thrift", "ApplicationException", "FastRead"},
	{"thrift", "ApplicationException", "FastWrite"}, {"thrift", "ApplicationException", "FastWriteNocopy"},
	// the no-copy writers (binary.go) over an abstract NocopyWriter with a nil flag, and the generated
	// writers of base/k-base.go: `for k, v := range p.Extra` with the enumeration order as a parameter
	{"thrift", "BinaryProtocol", "WriteBinaryNocopy"}, {"thrift", "BinaryProtocol", "WriteStringNocopy"},
	{"base", "Base", "BLength"}, {"base", "Base", "FastWriteNocopy"}, {"base", "Base", "FastWrite"},
	{"base", "BaseResp", "BLength"}, {"base", "BaseResp", "FastWriteNocopy"}, {"base", "BaseResp", "FastWrite"},
	// the ttheader encoder over an abstract bufiox.Writer (ext3b.go): Malloc'ed windows, a struct
	// parameter, two map range statements, v, ok := m[k], range over a []byte
	{"ttheader", "", "WriteByte"}, {"ttheader", "", "WriteUint16"}, {"ttheader", "", "WriteUint32"},
	{"ttheader", "", "WriteString"}, {"ttheader", "", "WriteString2BLen"},
	{"ttheader", "", "writeKVInfo"}, {"ttheader", "", "Encode"},
	// fastcodec.go over an abstract FastCodec (BLength / FastWriteNocopy / FastRead as parameters;
	// FastWriteNocopy stores into its buffer: mutatingMethods) and dirtmake.Bytes as a content oracle
	{"thrift", "", "FastMarshal"}, {"thrift", "", "FastUnmarshal"}, {"thrift", "", "MarshalFastMsg"},
	// container/strmap: read-only views of the generic StrMap[V] (ext3c.go)
	{"strmap", "StrMap", "Len"}, {"strmap", "StrMap", "Item"}, {"strmap", "StrMap", "Get"},
	// phase 4 (ext4.go): bufiox/defaultbuf.go — pointer receivers to structs whose []byte fields have
	// spare capacity, a [][]byte field, an interface-typed field (io.Reader / io.Writer, with Read
	// storing into its argument), a nested struct with an array field, the allocator as an object
	{"bufiox", "maxSizeStats", "update"}, {"bufiox", "maxSizeStats", "maxSize"},
	{"bufiox", "DefaultReader", "reset"}, {"bufiox", "DefaultReader", "acquireSlow"}, {"bufiox", "DefaultReader", "acquire"},
	{"bufiox", "DefaultReader", "Next"}, {"bufiox", "DefaultReader", "Peek"}, {"bufiox", "DefaultReader", "Skip"},
	{"bufiox", "DefaultReader", "ReadLen"}, {"bufiox", "DefaultReader", "ReadBinary"}, {"bufiox", "DefaultReader", "Release"},
	{"bufiox", "DefaultWriter", "reset"}, {"bufiox", "DefaultWriter", "acquireSlow"}, {"bufiox", "DefaultWriter", "acquire"},
	{"bufiox", "DefaultWriter", "Malloc"}, {"bufiox", "DefaultWriter", "WriteBinary"}, {"bufiox", "DefaultWriter", "WrittenLen"},
	{"bufiox", "DefaultWriter", "Flush"},
}

// Coq names that differ from g_<pkg>_<Func> (methods of several types with the same name)
var coqNameOf = map[fnSpec]string{
	{"thrift", "SkipDecoderTpl", "Skip"}: "g_thrift_SkipDecoderTpl_Skip",
	{"thrift", "BufferReader", "next"}:   "g_thrift_BufferReader_next", {"thrift", "BufferReader", "skipn"}: "g_thrift_BufferReader_skipn",
	{"thrift", "BufferReader", "ReadI32"}: "g_thrift_BufferReader_ReadI32", {"thrift", "BufferReader", "skipstr"}: "g_thrift_BufferReader_skipstr",
	{"thrift", "BufferReader", "ReadFieldBegin"}:          "g_thrift_BufferReader_ReadFieldBegin",
	{"thrift", "BufferReader", "ReadMapBegin"}:            "g_thrift_BufferReader_ReadMapBegin",
	{"thrift", "BufferReader", "ReadListBegin"}:           "g_thrift_BufferReader_ReadListBegin",
	{"thrift", "BufferReader", "skipType"}:                "g_thrift_BufferReader_skipType",
	{"thrift", "BufferReader", "Skip"}:                    "g_thrift_BufferReader_Skip",
	{"base", "Base", "FastRead"}:                          "g_base_Base_FastRead",
	{"base", "BaseResp", "FastRead"}:                      "g_base_BaseResp_FastRead",
	{"thrift", "ApplicationException", "BLength"}:         "g_thrift_ApplicationException_BLength",
	{"thrift", "ApplicationException", "FastRead"}:        "g_thrift_ApplicationException_FastRead",
	{"thrift", "ApplicationException", "FastWrite"}:       "g_thrift_ApplicationException_FastWrite",
	{"thrift", "ApplicationException", "FastWriteNocopy"}: "g_thrift_ApplicationException_FastWriteNocopy",
	{"base", "Base", "BLength"}:                           "g_base_Base_BLength",
	{"base", "Base", "FastWriteNocopy"}:                   "g_base_Base_FastWriteNocopy",
	{"base", "Base", "FastWrite"}:                         "g_base_Base_FastWrite",
	{"base", "BaseResp", "BLength"}:                       "g_base_BaseResp_BLength",
	{"base", "BaseResp", "FastWriteNocopy"}:               "g_base_BaseResp_FastWriteNocopy",
	{"base", "BaseResp", "FastWrite"}:                     "g_base_BaseResp_FastWrite",
	{"bufiox", "maxSizeStats", "update"}:                  "g_bufiox_maxSizeStats_update",
	{"bufiox", "maxSizeStats", "maxSize"}:                 "g_bufiox_maxSizeStats_maxSize",
	{"bufiox", "DefaultReader", "reset"}:                  "g_bufiox_DefaultReader_reset",
	{"bufiox", "DefaultReader", "acquireSlow"}:            "g_bufiox_DefaultReader_acquireSlow",
	{"bufiox", "DefaultReader", "acquire"}:                "g_bufiox_DefaultReader_acquire",
	{"bufiox", "DefaultReader", "Next"}:                   "g_bufiox_DefaultReader_Next",
	{"bufiox", "DefaultReader", "Peek"}:                   "g_bufiox_DefaultReader_Peek",
	{"bufiox", "DefaultReader", "Skip"}:                   "g_bufiox_DefaultReader_Skip",
	{"bufiox", "DefaultReader", "ReadLen"}:                "g_bufiox_DefaultReader_ReadLen",
	{"bufiox", "DefaultReader", "ReadBinary"}:             "g_bufiox_DefaultReader_ReadBinary",
	{"bufiox", "DefaultReader", "Release"}:                "g_bufiox_DefaultReader_Release",
	{"bufiox", "DefaultWriter", "reset"}:                  "g_bufiox_DefaultWriter_reset",
	{"bufiox", "DefaultWriter", "acquireSlow"}:            "g_bufiox_DefaultWriter_acquireSlow",
	{"bufiox", "DefaultWriter", "acquire"}:                "g_bufiox_DefaultWriter_acquire",
	{"bufiox", "DefaultWriter", "Malloc"}:                 "g_bufiox_DefaultWriter_Malloc",
	{"bufiox", "DefaultWriter", "WriteBinary"}:            "g_bufiox_DefaultWriter_WriteBinary",
	{"bufiox", "DefaultWriter", "WrittenLen"}:             "g_bufiox_DefaultWriter_WrittenLen",
	{"bufiox", "DefaultWriter", "Flush"}:                  "g_bufiox_DefaultWriter_Flush",
}

// library calls that are given a meaning (everything else fails)
const (
	libUint16       = "(encoding/binary.bigEndian).Uint16"
	libUint32       = "(encoding/binary.bigEndian).Uint32"
	libUint64       = "(encoding/binary.bigEndian).Uint64"
	libPutUint16    = "(encoding/binary.bigEndian).PutUint16"
	libPutUint32    = "(encoding/binary.bigEndian).PutUint32"
	libPutUint64    = "(encoding/binary.bigEndian).PutUint64"
	libF64bits      = "math.Float64bits"
	libF64frombits  = "math.Float64frombits"
	libBin2Str      = modPath + "unsafex.BinaryToString"
	libStr2Bin      = modPath + "unsafex.StringToBinary"
	libSpanCopy     = "(*github.com/bytedance/gopkg/lang/span.spanCache).Copy"
	libErrorf       = "fmt.Errorf"
	libErrorsNew    = "errors.New"
	libPEWrap       = modPath + "protocol/thrift.NewProtocolExceptionWithErr"
	libPrepend      = modPath + "protocol/thrift.PrependError"
	identityComment = "identity on the contents"
)

var identityLib = map[string]bool{libF64bits: true, libF64frombits: true, libBin2Str: true, libStr2Bin: true, libSpanCopy: true}
var loadLib = map[string]int{libUint16: 2, libUint32: 4, libUint64: 8}
var putLib = map[string]int{libPutUint16: 2, libPutUint32: 4, libPutUint64: 8}

// ---------------------------------------------------------------------------------------------

type trErr struct {
	pos token.Position
	msg string
}

type fnInfo struct {
	spec                  fnSpec
	pkg                   *packages.Package
	decl                  *ast.FuncDecl
	obj                   *types.Func
	coqName               string
	state                 int // 0 untouched, 1 in progress, 2 done, 3 failed
	fail                  string
	text                  string
	params                []*types.Var
	results               []*types.Var
	mutated               []bool     // per parameter: threaded (stored into / pointer / mutated map): returned first
	dropped               []bool     // per parameter: of an untranslatable type and never used in the body: no binder
	recv                  *types.Var // receiver that is an abstract object (nil otherwise)
	abs                   []*absRoot // abstract objects (receiver first, then parameters), see abstract.go
	recvStruct            *types.Var // receiver *T for a struct T of translatable fields: one variable per field
	recvFields            []*types.Var
	externs               []*types.Func       // external functions with a given model (transitively), sorted
	owned                 map[*types.Var]bool // local []byte variables made by make(...) and used only as x[i] / len(x)
	addrOf                map[*types.Var]bool // local variables whose address is passed to a callee
	hasLoop, selfRec      bool                // contains a for statement / calls itself
	needsFuel, needsRFuel bool                // takes the loop fuel / the recursion fuel (transitively through callees)
	loopText              []string            // the Fixpoints of its loops, in the order they must be defined
	nErrCtor              map[string]int      // number of calls of each error constructor (fmt.Errorf ...) in the body
	errCtorIx             map[ast.Node]int
	binderTypes           []string        // Coq types of the binders that follow (rfuel) in the definition
	resType               string          // res (...)
	globals               []*types.Var    // package-level scalar variables read (transitively), leading parameters
	errKeys               map[string]bool // error values (ecode keys) the function or its callees can produce
	errCmps               []errCmp        // comparisons err == <error variable> to be validated at the end
	// phase 3 (ext3.go)
	hasRange   bool                    // contains a range statement over a map
	nilable    map[*types.Var]bool     // abstract objects (interface-typed parameters) that are compared with nil: they get a nil flag
	recvRO     bool                    // the receiver is a read-only view (ext3c.go): some fields have no binder
	typeParams []*types.TypeParam      // value type parameters of the receiver's type: (T_V : Type) (z_V : T_V)
	elemView   map[*types.Var]bool     // local variables e := &x[i] that are copies of an element of a read-only slice
	dirtOwned  map[*types.Var]bool     // local buffers x := dirtmake.Bytes(n, n)
	regionOf   map[*types.Var]*absRoot // local []byte variables that are windows into an abstract object's memory
	oracles    []oracle                // the enumeration orders of its map range statements (and of its callees'): trailing parameters
	// phase 4 (ext4.go)
	cs         bool                      // the receiver is a pointer to a struct listed in csStructs: leaves of its fields are the binders
	csVars     map[*types.Var]bool       // local variables / parameters of type []byte that are slices with capacity (gcslice)
	fieldRoots map[*types.Var]*absRoot   // interface-typed leaves of the receiver: abstract objects whose state is a field
	allocRoot  *absRoot                  // the allocator (mcache / dirtmake), an abstract object handed on as a trailing parameter
	movedTo    map[*types.Var]*types.Var // an interface-typed parameter whose only use is to be stored into that leaf
}

type errCmp struct {
	n   ast.Node
	key string
}

type tr struct {
	byObj      map[*types.Func]*fnInfo
	all        []*fnInfo
	order      []*fnInfo
	ecodes     map[string]string // qualified name -> code (decimal text)
	repo       string
	pkgs       []*packages.Package
	tableCache map[*types.Var]string
}

type fctx struct {
	t     *tr
	f     *fnInfo
	info  *types.Info
	names map[types.Object]string
	used  map[string]bool
	tmp   int
	// per statement: Go does not specify the order between a read of a variable and a call that
	// modifies it inside ONE expression; such statements are refused
	readMut   bool          // the statement reads a []byte parameter that is stored into
	nestedMut bool          // a call that stores into a parameter occurs below the statement's top-level call
	topCall   *ast.CallExpr // the call that IS the statement / its only right-hand side, if any

	vars       map[string]*cvar         // every Coq variable name that stands for (a part of) a Go variable
	loops      []*loopFrame             // enclosing for statements, innermost last
	brk        []func(depth int) string // what `break` means here, innermost last
	conts      []func(depth int) string // what `continue` means here, innermost last
	endK       func(depth int) string   // what follows the last statement of the function
	exiting    int                      // translating the target of a goto: control does not come back into the loops
	lenOfSlice bool                     // translating the operand of len(...): p[a:] of a stored-into parameter is allowed
	nloop      int
	loopCache  map[*ast.BlockStmt]*loopFrame // a for statement reached along several paths is one Fixpoint
	callOrds   map[*ast.CallExpr][]string    // the order oracles handed to a callee, per call site
	dirtCall   *ast.CallExpr                 // the one allocation of uninitialised memory of the function
}

func (c *fctx) failf(n ast.Node, format string, a ...interface{}) {
	var pos token.Position
	if n != nil {
		pos = c.f.pkg.Fset.Position(n.Pos())
	}
	panic(trErr{pos, fmt.Sprintf(format, a...)})
}

func (c *fctx) fresh() string {
	c.tmp++
	return fmt.Sprintf("t_%d", c.tmp)
}

func (c *fctx) relpos(n ast.Node) string {
	p := c.f.pkg.Fset.Position(n.Pos())
	rel, err := filepath.Rel(c.t.repo, p.Filename)
	if err != nil {
		rel = p.Filename
	}
	_ = p.Line // line numbers are left out so that unrelated edits of the file do not change Funcs.v
	return rel
}

// ---------- types ----------

func intTypeInfo(t types.Type) (bits int, signed bool, ok bool) {
	b, isb := t.Underlying().(*types.Basic)
	if !isb {
		return 0, false, false
	}
	switch b.Kind() {
	case types.Int8:
		return 8, true, true
	case types.Int16:
		return 16, true, true
	case types.Int32:
		return 32, true, true
	case types.Int64, types.Int: // 64-bit int (GOARCH amd64/arm64) is assumed
		return 64, true, true
	case types.Uint8:
		return 8, false, true
	case types.Uint16:
		return 16, false, true
	case types.Uint32:
		return 32, false, true
	case types.Uint64, types.Uint:
		return 64, false, true
	}
	return 0, false, false
}

func isBool(t types.Type) bool {
	b, ok := t.Underlying().(*types.Basic)
	return ok && b.Info()&types.IsBoolean != 0
}
func isString(t types.Type) bool {
	b, ok := t.Underlying().(*types.Basic)
	return ok && b.Info()&types.IsString != 0
}
func isFloat64(t types.Type) bool {
	b, ok := t.Underlying().(*types.Basic)
	return ok && (b.Kind() == types.Float64)
}
func isByteSlice(t types.Type) bool {
	s, ok := t.Underlying().(*types.Slice)
	if !ok {
		return false
	}
	b, ok := s.Elem().Underlying().(*types.Basic)
	return ok && b.Kind() == types.Uint8
}
func isBytesLike(t types.Type) bool { return isByteSlice(t) || isString(t) }

var errorType = types.Universe.Lookup("error").Type()

func isErrorIface(t types.Type) bool { return types.Identical(t, errorType) }

// a value that can be assigned to `error`: the interface itself or a pointer to a named type
// implementing it (the predeclared *ProtocolException variables)
func implementsError(t types.Type) bool {
	if isErrorIface(t) {
		return true
	}
	if _, ok := t.Underlying().(*types.Pointer); ok {
		return types.Implements(t, errorType.Underlying().(*types.Interface))
	}
	return false
}

func (c *fctx) coqType(n ast.Node, t types.Type) string {
	switch {
	case isErrorIface(t):
		return "gerror"
	case isBool(t):
		return "bool"
	case isBytesLike(t):
		return "bytes"
	case isFloat64(t):
		return "Z"
	}
	if _, _, ok := intTypeInfo(t); ok {
		return "Z"
	}
	if tp, ok := valueTypeParam(t); ok {
		return "T_" + tp.Obj().Name()
	}
	if ct, ok := roSliceType(t); ok {
		return ct
	}
	if k, v, ok := mapKV(t); ok {
		_, _, ki := intTypeInfo(k)
		if !ki && !isString(k) {
			c.failf(n, "map with key type %s", k)
		}
		if _, _, isMap := mapKV(v); isMap || isErrorIface(v) {
			c.failf(n, "map with value type %s", v)
		}
		return "(gmap " + c.coqType(n, k) + " " + c.coqType(n, v) + ")"
	}
	c.failf(n, "unsupported type %s", t)
	return ""
}

func (c *fctx) zero(n ast.Node, t types.Type) string {
	if tp, ok := valueTypeParam(t); ok {
		return "z_" + tp.Obj().Name()
	}
	if ct, ok := roSliceType(t); ok {
		return "(nil : " + strings.Trim(ct, "()") + ")"
	}
	switch ct := c.coqType(n, t); ct {
	case "gerror":
		return "gnil"
	case "bool":
		return "false"
	case "bytes":
		return "(nil : bytes)"
	case "Z":
		return "0"
	default:
		return "(None : " + strings.Trim(ct, "()") + ")" // the nil map
	}
}

func zlit(v constant.Value) string {
	s := v.ExactString()
	if strings.HasPrefix(s, "-") {
		return "(" + s + ")"
	}
	return s
}

func wrapTo(t types.Type, term string) string {
	bits, signed, _ := intTypeInfo(t)
	if signed {
		return fmt.Sprintf("(wraps %d %s)", bits, term)
	}
	return fmt.Sprintf("(wrapu %d %s)", bits, term)
}

// value-preserving conversions (the range of `from` is included in the range of `to`) are the
// identity on the mathematical value; every other conversion wraps to the target type
func rangeIncluded(from, to types.Type) bool {
	fb, fs, _ := intTypeInfo(from)
	tb, ts, _ := intTypeInfo(to)
	switch {
	case !fs && !ts:
		return fb <= tb
	case !fs && ts:
		return fb < tb
	case fs && ts:
		return fb <= tb
	}
	return false
}

// ---------- names ----------

var coqReserved = map[string]bool{}

func (c *fctx) nameOf(obj types.Object) string {
	if n, ok := c.names[obj]; ok {
		return n
	}
	base := "v_" + obj.Name()
	n := base
	for i := 2; c.used[n]; i++ {
		n = fmt.Sprintf("%s_%d", base, i)
	}
	c.used[n] = true
	c.names[obj] = n
	c.vars[n] = &cvar{name: n, root: obj}
	return n
}

func globalName(v *types.Var) string { return "gv_" + v.Name() }

// ---------- expressions ----------
//
// expr returns the bindings that must precede (complete lines "do x <- e;" / "let x := e in")
// and a pure, parenthesised Gallina term.  Operands are evaluated left to right.

func (c *fctx) constTerm(n ast.Node, tv types.TypeAndValue) (string, bool) {
	if tv.Value == nil {
		return "", false
	}
	switch tv.Value.Kind() {
	case constant.Bool:
		if constant.BoolVal(tv.Value) {
			return "true", true
		}
		return "false", true
	case constant.Int:
		if isFloat64(tv.Type) {
			if constant.Sign(tv.Value) == 0 {
				return "0", true // the bit pattern of +0.0
			}
			c.failf(n, "non-zero float64 constant %s", tv.Value)
		}
		return zlit(tv.Value), true
	case constant.Float:
		if constant.Sign(tv.Value) == 0 {
			return "0", true
		}
		if _, _, ok := intTypeInfo(tv.Type); ok {
			if iv := constant.ToInt(tv.Value); iv.Kind() == constant.Int {
				return zlit(iv), true
			}
		}
		c.failf(n, "non-zero floating-point constant %s", tv.Value)
	case constant.String:
		s := constant.StringVal(tv.Value)
		if s == "" {
			return "(nil : bytes)", true
		}
		var bs []string
		for i := 0; i < len(s); i++ {
			bs = append(bs, fmt.Sprintf("%d", s[i]))
		}
		return "([" + strings.Join(bs, "; ") + "]%N : bytes)", true
	}
	c.failf(n, "unsupported constant %s", tv.Value)
	return "", false
}

func (c *fctx) errConst(n ast.Node, key string) string {
	if _, ok := c.t.ecodes[key]; !ok {
		c.failf(n, "error value %q is not in the ecode table of coq/Lib/GoSem.v", key)
	}
	c.f.errKeys[key] = true
	return fmt.Sprintf("(Some (ecode %q))", key)
}

func (c *fctx) pkgLevelVar(obj types.Object) (*types.Var, bool) {
	v, ok := obj.(*types.Var)
	if !ok || v.IsField() || v.Pkg() == nil {
		return nil, false
	}
	return v, v.Parent() == v.Pkg().Scope()
}

// the ecode key of an expression that names a package-level error variable, or ""
func (c *fctx) errVarKey(e ast.Expr) string {
	var id *ast.Ident
	switch x := ast.Unparen(e).(type) {
	case *ast.Ident:
		id = x
	case *ast.SelectorExpr:
		id = x.Sel
	default:
		return ""
	}
	obj, ok := c.info.Uses[id].(*types.Var)
	if !ok {
		return ""
	}
	if gv, isG := c.pkgLevelVar(obj); isG && implementsError(gv.Type()) {
		return qualName(gv)
	}
	return ""
}

func qualName(v *types.Var) string {
	p := v.Pkg().Path()
	if s, ok := pkgShort[p]; ok {
		p = s
	}
	return p + "." + v.Name()
}

func (c *fctx) identTerm(id *ast.Ident) string {
	if id.Name == "_" {
		c.failf(id, "blank identifier used as a value")
	}
	obj := c.info.Uses[id]
	if obj == nil {
		obj = c.info.Defs[id]
	}
	switch o := obj.(type) {
	case *types.Nil:
		t := c.info.TypeOf(id)
		if isErrorIface(t) {
			return "gnil"
		}
		if isByteSlice(t) {
			return "(nil : bytes)"
		}
		if _, _, ok := mapKV(t); ok {
			return c.zero(id, t)
		}
		c.failf(id, "nil of type %s", t)
	case *types.Var:
		if gv, isG := c.pkgLevelVar(o); isG {
			if implementsError(gv.Type()) {
				return c.errConst(id, qualName(gv))
			}
			if isBool(gv.Type()) {
				return globalName(gv)
			}
			if _, _, ok := intTypeInfo(gv.Type()); ok {
				return globalName(gv)
			}
			c.failf(id, "package-level variable %s of type %s", gv.Name(), gv.Type())
		}
		if c.f.absOf(o) != nil {
			c.failf(id, "%s stands for an abstract object (only its method calls are translated)", id.Name)
		}
		if _, isPtr := ptrElem(o.Type()); isPtr {
			c.failf(id, "pointer %s used as a value (only *%s, and passing %s on to a translated function)", id.Name, id.Name, id.Name)
		}
		if _, isStruct := structFields(o.Type()); isStruct {
			c.failf(id, "struct variable %s used as a whole (only its fields are translated)", id.Name)
		}
		if c.f.elemView[o] {
			c.failf(id, "%s is a view of a slice element: used as a value (only %s.f is translated)", id.Name, id.Name)
		}
		if c.f.regionOf[o] != nil {
			c.failf(id, "%s is a window into an abstract object's memory: used as a value (only x[i] = v, PutUintK(x[a:b], v), y := x[a:b], len(x), return x are translated)", id.Name)
		}
		c.coqType(id, o.Type())
		if c.isThreadedVar(o) {
			c.readMut = true
		}
		return c.readVar(c.nameOf(o))
	}
	c.failf(id, "identifier %s (%T)", id.Name, obj)
	return ""
}

func (c *fctx) calleeFunc(call *ast.CallExpr) *types.Func {
	var id *ast.Ident
	switch f := ast.Unparen(call.Fun).(type) {
	case *ast.Ident:
		id = f
	case *ast.SelectorExpr:
		id = f.Sel
	default:
		return nil
	}
	fn, _ := c.info.Uses[id].(*types.Func)
	return fn
}

// the parameter a store destination is rooted in: `buf` or `buf[a:]`; returns the Coq name of
// the parameter and the offset (bindings in pre)
func (c *fctx) storeDest(e ast.Expr) (pre []string, name string, off string) {
	e = ast.Unparen(e)
	var id *ast.Ident
	off = "0"
	switch x := e.(type) {
	case *ast.Ident:
		id = x
	case *ast.SliceExpr:
		var ok bool
		id, ok = ast.Unparen(x.X).(*ast.Ident)
		if !ok || x.High != nil || x.Max != nil || x.Slice3 {
			c.failf(e, "store destination must be `p` or `p[a:]` for a []byte parameter p")
		}
		if x.Low != nil {
			pre, off = c.expr(x.Low)
		}
	default:
		c.failf(e, "store destination must be `p` or `p[a:]` for a []byte parameter p")
	}
	return pre, c.mutParamName(id), off
}

func (c *fctx) mutParamName(id *ast.Ident) string {
	obj, _ := c.info.Uses[id].(*types.Var)
	for i, p := range c.f.params {
		if p == obj {
			if !c.f.mutated[i] {
				c.failf(id, "internal: parameter %s not recorded as mutated", id.Name)
			}
			return c.assignVar(c.nameOf(obj))
		}
	}
	if obj != nil && c.f.owned[obj] {
		return c.assignVar(c.nameOf(obj))
	}
	c.failf(id, "store into %s, which is neither a []byte parameter nor a local made by make([]byte, n) and used only as x[i] / len(x) (aliasing of local slices is not modelled)", id.Name)
	return ""
}

func (c *fctx) isMutatedParam(e ast.Expr) bool {
	id, ok := ast.Unparen(e).(*ast.Ident)
	if !ok {
		return false
	}
	obj, _ := c.info.Uses[id].(*types.Var)
	for i, p := range c.f.params {
		if p == obj && c.f.mutated[i] {
			return true
		}
	}
	return obj != nil && c.f.owned[obj]
}

func (c *fctx) exprs(es []ast.Expr) (pre []string, terms []string) {
	for _, e := range es {
		p, t := c.expr(e)
		pre = append(pre, p...)
		terms = append(terms, t)
	}
	return
}

// exprAs translates e where a value of type want is expected (gives the untyped nil its type)
func (c *fctx) exprAs(e ast.Expr, want types.Type) (pre []string, term string) {
	if id, ok := ast.Unparen(e).(*ast.Ident); ok {
		if _, isNil := c.info.Uses[id].(*types.Nil); isNil {
			switch {
			case isErrorIface(want):
				return nil, "gnil"
			case isByteSlice(want):
				return nil, "(nil : bytes)"
			}
			if _, _, ok := mapKV(want); ok {
				return nil, c.zero(e, want)
			}
			c.failf(e, "nil of type %s", want)
		}
	}
	return c.expr(e)
}

func (c *fctx) exprsAs(es []ast.Expr, want func(i int) types.Type) (pre []string, terms []string) {
	for i, e := range es {
		p, t := c.exprAs(e, want(i))
		pre = append(pre, p...)
		terms = append(terms, t)
	}
	return
}

func (c *fctx) expr(e ast.Expr) (pre []string, term string) {
	tv, has := c.info.Types[e]
	if has && tv.Value != nil {
		if t, ok := c.constTerm(e, tv); ok {
			return nil, t
		}
	}
	if p, t, ok := c.csExpr(e); ok {
		return p, t // slices with capacity, array leaves (ext4.go)
	}
	switch x := e.(type) {
	case *ast.ParenExpr:
		return c.expr(x.X)
	case *ast.Ident:
		return nil, c.identTerm(x)
	case *ast.SelectorExpr:
		// qualified package-level variable of another package (io.EOF)
		if obj, ok := c.info.Uses[x.Sel].(*types.Var); ok {
			if gv, isG := c.pkgLevelVar(obj); isG && implementsError(gv.Type()) {
				return nil, c.errConst(x, qualName(gv))
			}
		}
		if name, ok := c.fieldVar(x); ok {
			if c.isRecv(x.X) {
				c.readMut = true // a method of the same receiver called in the same expression may assign the field
			}
			return c.recvCheck(x.X), c.readVar(name)
		}
		c.failf(e, "selector expression %s", types.ExprString(e))
	case *ast.StarExpr:
		return nil, c.readVar(c.derefName(x))
	case *ast.UnaryExpr:
		p, a := c.expr(x.X)
		t := c.info.TypeOf(e)
		switch x.Op {
		case token.NOT:
			return p, "(negb " + a + ")"
		case token.ADD:
			return p, a
		case token.SUB:
			return p, wrapTo(t, "(- "+a+")")
		case token.XOR:
			bits, signed, ok := intTypeInfo(t)
			if !ok {
				c.failf(e, "^ on %s", t)
			}
			if signed {
				return p, "(gnots " + a + ")"
			}
			return p, fmt.Sprintf("(gnotu %d %s)", bits, a)
		}
		c.failf(e, "unary operator %s", x.Op)
	case *ast.BinaryExpr:
		return c.binary(x)
	case *ast.IndexExpr:
		if tbl, ok := c.globalTable(x.X); ok {
			p2, i := c.expr(x.Index)
			t := c.fresh()
			return append(p2, fmt.Sprintf("do %s <- gtable %s %s;", t, tbl, i)), t
		}
		if k, v, ok := mapKV(c.info.TypeOf(x.X)); ok {
			p1, m := c.expr(x.X)
			p2, i := c.exprAs(x.Index, k)
			return append(p1, p2...), fmt.Sprintf("(gmap_get %s %s %s %s)", c.keyEqb(e, k), m, i, c.zero(e, v))
		}
		if _, ok := roSliceType(c.info.TypeOf(x.X)); ok {
			if _, isStruct := structFields(c.info.TypeOf(x)); isStruct {
				c.failf(e, "element of a slice of structs used as a whole (only e := &x[i] is translated)")
			}
			p1, a := c.expr(x.X)
			p2, i := c.expr(x.Index)
			t := c.fresh()
			return append(append(p1, p2...), fmt.Sprintf("do %s <- gelem %s %s;", t, a, i)), t
		}
		if !isBytesLike(c.info.TypeOf(x.X)) {
			c.failf(e, "index expression on %s", c.info.TypeOf(x.X))
		}
		p1, a := c.expr(x.X)
		p2, i := c.expr(x.Index)
		t := c.fresh()
		pre = append(append(p1, p2...), fmt.Sprintf("do %s <- gindex %s %s;", t, a, i))
		return pre, t
	case *ast.SliceExpr:
		if !isBytesLike(c.info.TypeOf(x.X)) || x.Slice3 {
			c.failf(e, "slice expression on %s", c.info.TypeOf(x.X))
		}
		if c.isRegionExpr(x.X) {
			c.failf(e, "a window into an abstract object's memory used as a value")
		}
		if c.isMutatedParam(x.X) && !c.lenOfSlice {
			c.failf(e, "slice of a []byte parameter that is also stored into, outside a store destination (aliasing is not modelled)")
		}
		c.lenOfSlice = false
		p, a := c.expr(x.X)
		pre = p
		t := c.fresh()
		switch {
		case x.Low != nil && x.High != nil:
			p1, lo := c.expr(x.Low)
			p2, hi := c.expr(x.High)
			pre = append(append(pre, p1...), p2...)
			pre = append(pre, fmt.Sprintf("do %s <- gslice_range %s %s %s;", t, a, lo, hi))
		case x.Low != nil:
			p1, lo := c.expr(x.Low)
			pre = append(pre, p1...)
			pre = append(pre, fmt.Sprintf("do %s <- gslice_from %s %s;", t, a, lo))
		case x.High != nil:
			p1, hi := c.expr(x.High)
			pre = append(pre, p1...)
			pre = append(pre, fmt.Sprintf("do %s <- gslice_to %s %s;", t, a, hi))
		default:
			return pre, a
		}
		return pre, t
	case *ast.CallExpr:
		if isRegionMethod(c.calleeFunc(x)) {
			c.failf(e, "the window returned by %s used as a value (assign it to a variable)", types.ExprString(x.Fun))
		}
		pre, terms := c.call(x)
		if len(terms) != 1 {
			c.failf(e, "call yielding %d values used as a single value", len(terms))
		}
		return pre, terms[0]
	}
	c.failf(e, "expression %T (%s)", e, types.ExprString(e))
	return nil, ""
}

func (c *fctx) binary(x *ast.BinaryExpr) (pre []string, term string) {
	lt, rt := c.info.TypeOf(x.X), c.info.TypeOf(x.Y)
	t := c.info.TypeOf(x)
	// short-circuit operators: the right operand is evaluated only when needed
	if x.Op == token.LAND || x.Op == token.LOR {
		p1, a := c.expr(x.X)
		p2, b := c.expr(x.Y)
		if len(p2) == 0 {
			if x.Op == token.LAND {
				return p1, "(" + a + " && " + b + ")%bool"
			}
			return p1, "(" + a + " || " + b + ")%bool"
		}
		tmp := c.fresh()
		inner := strings.Join(p2, " ") + " Ok " + b
		if x.Op == token.LAND {
			pre = append(p1, fmt.Sprintf("do %s <- (if %s then (%s) else Ok false);", tmp, a, inner))
		} else {
			pre = append(p1, fmt.Sprintf("do %s <- (if %s then Ok true else (%s));", tmp, a, inner))
		}
		return pre, tmp
	}
	// comparisons
	switch x.Op {
	case token.EQL, token.NEQ, token.LSS, token.LEQ, token.GTR, token.GEQ:
		neg := func(s string) string {
			if x.Op == token.NEQ {
				return "(negb " + s + ")"
			}
			return s
		}
		if p, t, ok := c.csNilTest(x); ok {
			return p, neg(t)
		}
		if t, ok := c.nilTest(x); ok {
			return nil, neg(t)
		}
		// err == nil / err != nil
		if isErrorIface(lt) || isErrorIface(rt) {
			if x.Op != token.EQL && x.Op != token.NEQ {
				c.failf(x, "comparison %s on errors", x.Op)
			}
			var other ast.Expr
			if id, ok := ast.Unparen(x.Y).(*ast.Ident); ok && id.Name == "nil" {
				other = x.X
			} else if id, ok := ast.Unparen(x.X).(*ast.Ident); ok && id.Name == "nil" {
				other = x.Y
			} else {
				// err == <package-level error variable>: identity of error values, decided on the codes;
				// validated at the end of the function (errCmps)
				key, side := c.errVarKey(x.Y), x.X
				if key == "" {
					key, side = c.errVarKey(x.X), x.Y
				}
				if key == "" {
					c.failf(x, "comparison of two error values (only == nil, != nil and == <package-level error variable> are translated)")
				}
				if _, ok := c.t.ecodes[key]; !ok {
					c.failf(x, "error value %q is not in the ecode table of coq/Lib/GoSem.v", key)
				}
				c.f.errCmps = append(c.f.errCmps, errCmp{x, key})
				p, a := c.expr(side)
				return p, neg(fmt.Sprintf("(gerr_is %s (ecode %q))", a, key))
			}
			p, a := c.expr(other)
			return p, neg("(is_nil " + a + ")")
		}
		if _, _, isMap := mapKV(lt); isMap {
			if id, ok := ast.Unparen(x.Y).(*ast.Ident); ok && id.Name == "nil" && (x.Op == token.EQL || x.Op == token.NEQ) {
				p, a := c.expr(x.X)
				return p, neg("(gmap_is_nil " + a + ")")
			}
			c.failf(x, "comparison %s on a map", x.Op)
		}
		if _, _, isMap := mapKV(rt); isMap {
			if id, ok := ast.Unparen(x.X).(*ast.Ident); ok && id.Name == "nil" && (x.Op == token.EQL || x.Op == token.NEQ) {
				p, a := c.expr(x.Y)
				return p, neg("(gmap_is_nil " + a + ")")
			}
			c.failf(x, "comparison %s on a map", x.Op)
		}
		p1, a := c.expr(x.X)
		p2, b := c.expr(x.Y)
		pre = append(p1, p2...)
		_, _, li := intTypeInfo(lt)
		_, _, ri := intTypeInfo(rt)
		switch {
		case li && ri:
			op := map[token.Token]string{token.EQL: "=?", token.NEQ: "=?", token.LSS: "<?", token.LEQ: "<=?", token.GTR: ">?", token.GEQ: ">=?"}[x.Op]
			return pre, neg("(" + a + " " + op + " " + b + ")")
		case isBool(lt) && isBool(rt) && (x.Op == token.EQL || x.Op == token.NEQ):
			return pre, neg("(Bool.eqb " + a + " " + b + ")")
		case isString(lt) && isString(rt) && (x.Op == token.EQL || x.Op == token.NEQ):
			return pre, neg("(beqb " + a + " " + b + ")")
		}
		c.failf(x, "comparison %s on %s", x.Op, lt)
	}
	// string concatenation
	if isString(t) && x.Op == token.ADD {
		p1, a := c.expr(x.X)
		p2, b := c.expr(x.Y)
		return append(p1, p2...), "(" + a + " ++ " + b + ")%list"
	}
	// arithmetic on integers
	bits, signed, ok := intTypeInfo(t)
	if !ok {
		c.failf(x, "operator %s on %s", x.Op, t)
	}
	_ = bits
	p1, a := c.expr(x.X)
	p2, b := c.expr(x.Y)
	pre = append(p1, p2...)
	switch x.Op {
	case token.ADD:
		return pre, wrapTo(t, "("+a+" + "+b+")")
	case token.SUB:
		return pre, wrapTo(t, "("+a+" - "+b+")")
	case token.MUL:
		return pre, wrapTo(t, "("+a+" * "+b+")")
	case token.AND:
		return pre, "(Z.land " + a + " " + b + ")"
	case token.OR:
		return pre, "(Z.lor " + a + " " + b + ")"
	case token.XOR:
		return pre, "(Z.lxor " + a + " " + b + ")"
	case token.AND_NOT:
		return pre, "(Z.ldiff " + a + " " + b + ")"
	case token.SHL, token.SHR:
		// the count must be known non-negative: a constant or a value of an unsigned type
		ctv := c.info.Types[x.Y]
		if ctv.Value == nil {
			if _, csigned, cok := intTypeInfo(rt); !cok || csigned {
				c.failf(x, "shift by a signed non-constant count (would need a run-time panic check)")
			}
		} else if constant.Sign(ctv.Value) < 0 {
			c.failf(x, "negative shift count")
		}
		if x.Op == token.SHR {
			return pre, "(gshr " + a + " " + b + ")"
		}
		return pre, wrapTo(t, "(gshl "+a+" "+b+")")
	case token.QUO, token.REM:
		tmp := c.fresh()
		if signed {
			f := map[token.Token]string{token.QUO: "gquot", token.REM: "grem"}[x.Op]
			pre = append(pre, fmt.Sprintf("do %s <- %s %s %s;", tmp, f, a, b))
			return pre, wrapTo(t, tmp) // minInt / -1 wraps
		}
		// unsigned operands are non-negative: truncated = floor division
		f := map[token.Token]string{token.QUO: "gquot", token.REM: "grem"}[x.Op]
		pre = append(pre, fmt.Sprintf("do %s <- %s %s %s;", tmp, f, a, b))
		return pre, tmp
	}
	c.failf(x, "binary operator %s", x.Op)
	return nil, ""
}

// call translates a call expression; it returns one term per Go result.  Stores into []byte
// parameters (copy, mutating callees) rebind the parameter's name in the emitted bindings.
func (c *fctx) call(x *ast.CallExpr) (pre []string, terms []string) {
	// conversions
	if ftv, ok := c.info.Types[x.Fun]; ok && ftv.IsType() {
		if len(x.Args) != 1 {
			c.failf(x, "conversion with %d arguments", len(x.Args))
		}
		to, from := ftv.Type, c.info.TypeOf(x.Args[0])
		p, a := c.expr(x.Args[0])
		_, _, ti := intTypeInfo(to)
		_, _, fi := intTypeInfo(from)
		switch {
		case ti && fi:
			if rangeIncluded(from, to) {
				return p, []string{a} // value-preserving
			}
			return p, []string{wrapTo(to, a)}
		case isBytesLike(to) && isBytesLike(from):
			return p, []string{a} // string(b), []byte(s): a copy with the same contents
		case isBool(to) && isBool(from):
			return p, []string{a}
		}
		c.failf(x, "conversion from %s to %s", from, to)
	}
	if p, ts, ok := c.csCall(x); ok {
		return p, ts // len / cap / copy on slices with capacity, the allocator (ext4.go)
	}
	// builtins
	if id, ok := ast.Unparen(x.Fun).(*ast.Ident); ok {
		if _, isB := c.info.Uses[id].(*types.Builtin); isB {
			switch id.Name {
			case "len":
				if k, _, isMap := mapKV(c.info.TypeOf(x.Args[0])); isMap {
					p, a := c.expr(x.Args[0])
					return p, []string{"(gmap_len " + c.keyEqb(x, k) + " " + a + ")"}
				}
				if _, ok := roSliceType(c.info.TypeOf(x.Args[0])); ok {
					p, a := c.expr(x.Args[0])
					return p, []string{"(glen " + a + ")"}
				}
				if !isBytesLike(c.info.TypeOf(x.Args[0])) {
					c.failf(x, "len of %s", c.info.TypeOf(x.Args[0]))
				}
				if c.isRegionExpr(x.Args[0]) {
					p, w, _ := c.regionExpr(x.Args[0])
					return p, []string{"(gregion_len " + w + ")"}
				}
				// len(p[a:]) keeps no reference to p: allowed for a parameter that is stored into
				saved := c.lenOfSlice
				c.lenOfSlice = true
				p, a := c.expr(x.Args[0])
				c.lenOfSlice = saved
				return p, []string{"(glen " + a + ")"}
			case "append":
				if !isByteSlice(c.info.TypeOf(x.Args[0])) {
					c.failf(x, "append to %s", c.info.TypeOf(x.Args[0]))
				}
				if c.isMutatedParam(x.Args[0]) {
					c.failf(x, "append to a []byte parameter that is also stored into (aliasing is not modelled)")
				}
				p, ts := c.exprs(x.Args)
				if x.Ellipsis.IsValid() {
					if len(ts) != 2 {
						c.failf(x, "append(x, y...) with %d arguments", len(ts))
					}
					return p, []string{"(" + ts[0] + " ++ " + ts[1] + ")%list"}
				}
				if len(ts) == 1 {
					return p, []string{ts[0]}
				}
				var bs []string
				for _, t := range ts[1:] {
					bs = append(bs, "gbyte "+t)
				}
				return p, []string{"(" + ts[0] + " ++ [" + strings.Join(bs, "; ") + "])%list"}
			case "copy":
				if !isBytesLike(c.info.TypeOf(x.Args[1])) {
					c.failf(x, "copy from %s", c.info.TypeOf(x.Args[1]))
				}
				c.noteMut(x)
				p1, name, off := c.storeDest(x.Args[0])
				p2, src := c.expr(x.Args[1])
				n := c.fresh()
				pre = append(append(p1, p2...), fmt.Sprintf("do (%s, %s) <- gcopy %s %s %s;", name, n, name, off, src))
				return pre, []string{n}
			case "make":
				return c.makeCall(x)
			case "panic":
				c.failf(x, "panic(...) in expression position")
			}
			c.failf(x, "builtin %s", id.Name)
		}
	}
	fn := c.calleeFunc(x)
	if fn == nil {
		c.failf(x, "call of %s (not a declared function)", types.ExprString(x.Fun))
	}
	fn = fn.Origin()
	full := fn.FullName()
	switch {
	case identityLib[full]:
		if len(x.Args) != 1 {
			c.failf(x, "%s with %d arguments", full, len(x.Args))
		}
		p, a := c.expr(x.Args[0])
		return p, []string{a}
	case loadLib[full] != 0:
		p, a := c.expr(x.Args[0])
		t := c.fresh()
		return append(p, fmt.Sprintf("do %s <- gbe_load %d %s;", t, loadLib[full], a)), []string{t}
	case putLib[full] != 0 && c.isRegionExpr(x.Args[0]):
		c.noteMut(x)
		return c.regionPut(x, putLib[full]), nil
	case putLib[full] != 0:
		c.noteMut(x)
		p1, name, off := c.storeDest(x.Args[0])
		p2, v := c.expr(x.Args[1])
		pre = append(append(p1, p2...), fmt.Sprintf("do %s <- gput %s %s (gbe %d %s);", name, name, off, putLib[full], v))
		return pre, nil
	case full == libPEWrap:
		// thrift.NewProtocolExceptionWithErr(err): panics on a nil err (err.Error()); otherwise the
		// exception that wraps err (assumed not to be a *ProtocolException already, which would be
		// returned as it is: the errors of a bufiox.Reader are not)
		if len(x.Args) != 1 {
			c.failf(x, "%s with %d arguments", full, len(x.Args))
		}
		p, a := c.expr(x.Args[0])
		t := c.fresh()
		return append(p, fmt.Sprintf("do %s <- gpe_wrap %s;", t, a)), []string{t}
	case full == libPrepend:
		// thrift.PrependError(text, err): panics on a nil err (err.Error()); otherwise a new error of
		// the same Thrift exception kind, identified by <code of this call site> + <code of err>
		if len(x.Args) != 2 {
			c.failf(x, "%s with %d arguments", full, len(x.Args))
		}
		pre = append(pre, c.pureArg(x.Args[0])...)
		p, a := c.expr(x.Args[1])
		key := c.errCtorKey(x, full)
		if _, ok := c.t.ecodes[key]; !ok {
			c.failf(x, "error value %q is not in the ecode table of coq/Lib/GoSem.v", key)
		}
		t := c.fresh()
		return append(append(pre, p...), fmt.Sprintf("do %s <- gerr_prepend (ecode %q) %s;", t, key, a)), []string{t}
	case errCtorLib[full]:
		// a freshly built, non-nil error; its arguments must be free of effects (err.Error() on a
		// nil err panics: checked)
		for _, a := range x.Args {
			pre = append(pre, c.pureArg(a)...)
		}
		return pre, []string{c.errConst(x, c.errCtorKey(x, full))}
	}
	if callee := c.t.byObj[fn]; callee != nil {
		return c.callTranslated(x, callee)
	}
	if name, ok := externalFns[full]; ok {
		return c.callExternal(x, fn, name)
	}
	if sel, ok := ast.Unparen(x.Fun).(*ast.SelectorExpr); ok {
		if root, path := c.absPath(sel.X); root != nil {
			return c.callAbstract(x, root, joinPath(path, sel.Sel.Name), fn)
		}
	}
	c.failf(x, "call of %s, which is neither whitelisted nor a library function with a given meaning", full)
	return nil, nil
}

// ---------- statements ----------

func ind(n int) string { return strings.Repeat("  ", n) }

func (c *fctx) lines(depth int, pre []string) string {
	var sb strings.Builder
	for _, l := range pre {
		sb.WriteString(ind(depth) + l + "\n")
	}
	return sb.String()
}

func tuple(ts []string) string {
	switch len(ts) {
	case 0:
		return "tt"
	case 1:
		return ts[0]
	}
	return "(" + strings.Join(ts, ", ") + ")"
}

func (c *fctx) retTerms(vals []string) string {
	var ts []string
	if c.f.recv != nil {
		ts = append(ts, c.readVar(c.nameOf(c.f.recv)))
	}
	for _, fv := range c.f.recvFields {
		ts = append(ts, c.readVar(c.fieldName(c.f.recvStruct, fv)))
	}
	for i, p := range c.f.params {
		if c.f.mutated[i] {
			ts = append(ts, c.readVar(c.nameOf(p)))
		}
	}
	tup := tuple(append(ts, vals...))
	if len(c.loops) > 0 {
		// inside a loop Fixpoint: the function's result leaves the loop as inr
		if !strings.HasPrefix(tup, "(") {
			tup = "(" + tup + ")"
		}
		return "Ok (@@INR:" + c.loops[len(c.loops)-1].name + "@@" + tup + ")"
	}
	return "Ok " + tup
}

// assignTo binds a Go variable (local, parameter or named result)
func (c *fctx) lhsName(e ast.Expr) string {
	switch x := ast.Unparen(e).(type) {
	case *ast.StarExpr: // *p = ... for a pointer parameter p
		return c.assignVar(c.derefName(x))
	case *ast.SelectorExpr: // s.f = ... for a local struct variable s
		if bid, ok := ast.Unparen(x.X).(*ast.Ident); ok {
			if bv, ok := c.info.Uses[bid].(*types.Var); ok && c.f.elemView[bv] {
				c.failf(e, "store through %s, a view of a slice element (the slice is read-only)", bid.Name)
			}
		}
		if name, ok := c.fieldVar(x); ok {
			return c.assignVar(name)
		}
	}
	id, ok := ast.Unparen(e).(*ast.Ident)
	if !ok {
		c.failf(e, "assignment to %s", types.ExprString(e))
	}
	if id.Name == "_" {
		return "_"
	}
	obj := c.info.Defs[id]
	if obj == nil {
		obj = c.info.Uses[id]
	}
	v, ok := obj.(*types.Var)
	if !ok {
		c.failf(e, "assignment to %s", id.Name)
	}
	if _, isG := c.pkgLevelVar(v); isG {
		c.failf(e, "assignment to the package-level variable %s", id.Name)
	}
	for i, p := range c.f.params {
		if p == v && c.f.mutated[i] {
			c.failf(e, "assignment to the parameter %s, which is also stored into / threaded", id.Name)
		}
	}
	if c.f.owned[v] && c.info.Defs[id] == nil {
		c.failf(e, "assignment to the local slice %s, which is stored into", id.Name)
	}
	if c.f.absOf(v) != nil {
		c.failf(e, "assignment to %s, which stands for an abstract object", id.Name)
	}
	if _, isPtr := ptrElem(v.Type()); isPtr {
		c.failf(e, "assignment to the pointer variable %s", id.Name)
	}
	if _, isStruct := structFields(v.Type()); isStruct {
		c.failf(e, "assignment to the struct variable %s as a whole", id.Name)
	}
	c.coqType(e, v.Type())
	return c.assignVar(c.nameOf(v))
}

func (c *fctx) noteMut(x *ast.CallExpr) {
	if x != c.topCall {
		c.nestedMut = true
	}
}

func (c *fctx) checkOrder(n ast.Node) {
	if c.readMut && c.nestedMut {
		c.failf(n, "one expression both reads a variable that callees modify ([]byte parameter, *p, &x, map) and contains a call that modifies it: Go does not specify the order")
	}
	c.readMut, c.nestedMut, c.topCall = false, false, nil
}

func soleCall(es []ast.Expr) *ast.CallExpr {
	if len(es) != 1 {
		return nil
	}
	call, _ := ast.Unparen(es[0]).(*ast.CallExpr)
	return call
}

// block translates a statement list; k yields the translation of what follows the block.
func (c *fctx) block(depth int, list []ast.Stmt, k func(depth int) string) string {
	if len(list) == 0 {
		return k(depth)
	}
	rest := func(d int) string { return c.block(d, list[1:], k) }
	c.readMut, c.nestedMut, c.topCall = false, false, nil
	switch s := list[0].(type) {
	case *ast.EmptyStmt:
		return rest(depth)
	case *ast.BlockStmt:
		return c.block(depth, s.List, rest)
	case *ast.ReturnStmt:
		if len(s.Results) == 0 {
			var vals []string
			for _, r := range c.f.results {
				if r.Name() == "" || r.Name() == "_" {
					c.failf(s, "bare return with unnamed results")
				}
				vals = append(vals, c.resultNames(r)...)
			}
			return ind(depth) + c.retTerms(vals) + "\n"
		}
		for _, r := range c.f.results {
			if _, isStruct := structFields(r.Type()); isStruct {
				c.failf(s, "return with operands in a function with a struct result (only the bare return is translated)")
			}
		}
		if len(s.Results) == 1 && len(c.f.results) > 1 {
			call, ok := s.Results[0].(*ast.CallExpr)
			if !ok {
				c.failf(s, "return of a single non-call expression for %d results", len(c.f.results))
			}
			c.topCall = call
			pre, terms := c.call(call)
			c.checkOrder(s)
			return c.lines(depth, pre) + ind(depth) + c.retTerms(terms) + "\n"
		}
		if len(s.Results) != len(c.f.results) {
			c.failf(s, "return of %d values for %d results", len(s.Results), len(c.f.results))
		}
		for _, r := range s.Results {
			// a returned map must not stay reachable through a parameter (the caller's argument)
			if _, _, isMap := mapKV(c.info.TypeOf(r)); isMap {
				if id, ok := ast.Unparen(r).(*ast.Ident); ok {
					for _, p := range c.f.params {
						if c.info.Uses[id] == p {
							c.failf(s, "return of the map parameter %s (aliasing of maps is not modelled)", id.Name)
						}
					}
				}
			}
		}
		c.topCall = soleCall(s.Results)
		var pre, terms []string
		for i, r := range s.Results {
			var p []string
			var t string
			if c.f.regionOf[c.f.results[i]] != nil {
				p, t, _ = c.regionExpr(r)
			} else {
				p, t = c.exprAs(r, c.f.results[i].Type())
			}
			pre = append(pre, p...)
			terms = append(terms, t)
		}
		c.checkOrder(s)
		return c.lines(depth, pre) + ind(depth) + c.retTerms(terms) + "\n"
	case *ast.IfStmt:
		if s.Init != nil {
			inner := *s
			inner.Init = nil
			return c.block(depth, []ast.Stmt{s.Init, &inner}, rest)
		}
		pre, cond := c.expr(s.Cond)
		c.checkOrder(s.Cond)
		out := c.lines(depth, pre)
		out += ind(depth) + "if " + cond + " then (\n"
		out += c.block(depth+1, s.Body.List, rest)
		out += ind(depth) + ") else (\n"
		switch e := s.Else.(type) {
		case nil:
			out += rest(depth + 1)
		case *ast.BlockStmt:
			out += c.block(depth+1, e.List, rest)
		case *ast.IfStmt:
			out += c.block(depth+1, []ast.Stmt{e}, rest)
		default:
			c.failf(s, "else branch %T", s.Else)
		}
		out += ind(depth) + ")\n"
		return out
	case *ast.SwitchStmt:
		return c.switchStmt(depth, s, rest)
	case *ast.LabeledStmt:
		// reached from above, or by a forward goto (branchStmt): the label itself means nothing
		return c.block(depth, []ast.Stmt{s.Stmt}, rest)
	case *ast.ForStmt:
		return c.forStmt(depth, s, rest)
	case *ast.RangeStmt:
		return c.rangeStmt(depth, s, rest)
	case *ast.BranchStmt:
		return c.branchStmt(depth, s)
	case *ast.DeclStmt:
		gd, ok := s.Decl.(*ast.GenDecl)
		if !ok || gd.Tok != token.VAR {
			c.failf(s, "declaration statement")
		}
		var pre []string
		for _, sp := range gd.Specs {
			vs := sp.(*ast.ValueSpec)
			if len(vs.Values) != 0 && len(vs.Values) != len(vs.Names) {
				c.failf(s, "var declaration with a multi-valued initialiser")
			}
			for i, n := range vs.Names {
				if n.Name == "_" {
					continue
				}
				obj := c.info.Defs[n].(*types.Var)
				if isEmptyStruct(obj.Type()) {
					continue // a value without state
				}
				val := c.zeroVar(n, obj)
				if c.f.regionOf[obj] != nil {
					val = "gregion_nil"
					if len(vs.Values) != 0 {
						p, t, _ := c.regionExpr(vs.Values[i])
						pre = append(pre, p...)
						val = t
					}
					pre = append(pre, fmt.Sprintf("let %s := %s in", c.nameOf(obj), val))
					continue
				}
				if len(vs.Values) != 0 {
					if _, _, isMap := mapKV(obj.Type()); isMap {
						if y, ok := ast.Unparen(vs.Values[i]).(*ast.Ident); ok {
							if _, isNil := c.info.Uses[y].(*types.Nil); !isNil {
								c.failf(s, "initialisation of a map variable from the variable %s (aliasing of maps is not modelled)", y.Name)
							}
						}
					}
					p, t := c.exprAs(vs.Values[i], obj.Type())
					pre = append(pre, p...)
					val = t
				}
				pre = append(pre, fmt.Sprintf("let %s := %s in", c.nameOf(obj), val))
			}
		}
		c.checkOrder(s)
		return c.lines(depth, pre) + rest(depth)
	case *ast.IncDecStmt:
		t := c.info.TypeOf(s.X)
		if _, _, ok := intTypeInfo(t); !ok {
			c.failf(s, "++/-- on %s", t)
		}
		_, cur := c.expr(s.X)
		name := c.lhsName(s.X)
		op := " + 1"
		if s.Tok == token.DEC {
			op = " - 1"
		}
		return ind(depth) + c.bindLine(s.X, name, wrapTo(t, "("+cur+op+")")) + "\n" + rest(depth)
	case *ast.AssignStmt:
		c.topCall = soleCall(s.Rhs)
		pre := c.assign(s)
		c.checkOrder(s)
		return c.lines(depth, pre) + rest(depth)
	case *ast.ExprStmt:
		call, ok := s.X.(*ast.CallExpr)
		if !ok {
			c.failf(s, "expression statement %T", s.X)
		}
		if id, ok := ast.Unparen(call.Fun).(*ast.Ident); ok && id.Name == "panic" {
			if _, isB := c.info.Uses[id].(*types.Builtin); isB {
				return ind(depth) + "Panic 9\n"
			}
		}
		c.topCall = call
		pre, _ := c.call(call) // results, if any, are discarded
		c.checkOrder(s)
		return c.lines(depth, pre) + rest(depth)
	}
	c.failf(list[0], "statement %T", list[0])
	return ""
}

func (c *fctx) assign(s *ast.AssignStmt) []string {
	// compound assignment x op= e
	if s.Tok != token.ASSIGN && s.Tok != token.DEFINE {
		opTok := map[token.Token]token.Token{token.ADD_ASSIGN: token.ADD, token.SUB_ASSIGN: token.SUB, token.MUL_ASSIGN: token.MUL,
			token.AND_ASSIGN: token.AND, token.OR_ASSIGN: token.OR, token.XOR_ASSIGN: token.XOR, token.SHL_ASSIGN: token.SHL,
			token.SHR_ASSIGN: token.SHR, token.AND_NOT_ASSIGN: token.AND_NOT, token.QUO_ASSIGN: token.QUO, token.REM_ASSIGN: token.REM}[s.Tok]
		if opTok == token.ILLEGAL || len(s.Lhs) != 1 {
			c.failf(s, "assignment operator %s", s.Tok)
		}
		switch ast.Unparen(s.Lhs[0]).(type) {
		case *ast.Ident, *ast.StarExpr, *ast.SelectorExpr:
		default:
			c.failf(s, "compound assignment to %s", types.ExprString(s.Lhs[0]))
		}
		// x op= e is x = x op e with x evaluated once (x is a plain variable here)
		be := &ast.BinaryExpr{X: s.Lhs[0], Op: opTok, Y: s.Rhs[0], OpPos: s.TokPos}
		t := c.info.TypeOf(s.Lhs[0])
		c.info.Types[be] = types.TypeAndValue{Type: t}
		pre, term := c.binary(be)
		delete(c.info.Types, be)
		name := c.lhsName(s.Lhs[0])
		return append(pre, c.bindLine(s.Lhs[0], name, term))
	}
	if pre, ok := c.csAssign(s); ok {
		return pre
	}
	if pre, ok := c.commaOk(s); ok {
		return pre
	}
	if pre, ok := c.elemViewAssign(s); ok {
		return pre
	}
	if len(s.Lhs) == 1 && len(s.Rhs) == 1 {
		// x[i] = e for a window x
		if ix, ok := ast.Unparen(s.Lhs[0]).(*ast.IndexExpr); ok && c.isRegionExpr(ix.X) && s.Tok == token.ASSIGN {
			return c.regionIndexStore(s, ix)
		}
		// y = x[a:b] / y := x for windows
		if v, r := c.regionVar(s.Lhs[0]); r != nil {
			pre, t, _ := c.regionExpr(s.Rhs[0])
			return append(pre, fmt.Sprintf("let %s := %s in", c.assignVar(c.nameOf(v)), t))
		}
	}
	// store: buf[i] = e
	if len(s.Lhs) == 1 && len(s.Rhs) == 1 {
		if ix, ok := ast.Unparen(s.Lhs[0]).(*ast.IndexExpr); ok {
			id, ok := ast.Unparen(ix.X).(*ast.Ident)
			if k, v, isMap := mapKV(c.info.TypeOf(ix.X)); isMap && s.Tok == token.ASSIGN {
				// m[k] = v : index and value are evaluated, then the entry is set (panics on a nil map)
				var mname string
				var chk []string
				if sel, isSel := ast.Unparen(ix.X).(*ast.SelectorExpr); isSel {
					n, isField := c.fieldVar(sel)
					if !isField {
						c.failf(s, "indexed assignment to %s", types.ExprString(ix.X))
					}
					if bid, ok := ast.Unparen(sel.X).(*ast.Ident); ok && c.f.isStructParam(c.info.Uses[bid]) {
						c.failf(s, "store into a map field of the struct parameter %s (the caller's map would change)", bid.Name)
					}
					mname, chk = n, c.recvCheck(sel.X)
				} else {
					var mv *types.Var
					if ok {
						mv, _ = c.info.Uses[id].(*types.Var)
					}
					if mv == nil {
						c.failf(s, "indexed assignment to %s", types.ExprString(ix.X))
					}
					if _, isG := c.pkgLevelVar(mv); isG {
						c.failf(s, "store into the package-level map %s", id.Name)
					}
					mname = c.nameOf(mv)
				}
				p1, i := c.exprAs(ix.Index, k)
				p2, val := c.exprAs(s.Rhs[0], v)
				cur := c.readVar(mname)
				name := c.assignVar(mname)
				return append(append(append(p1, p2...), chk...), fmt.Sprintf("do %s <- gmap_set %s %s %s;", name, cur, i, val))
			}
			if !ok || !isByteSlice(c.info.TypeOf(ix.X)) {
				c.failf(s, "indexed assignment to %s", types.ExprString(ix.X))
			}
			name := c.mutParamName(id)
			p1, i := c.expr(ix.Index)
			p2, v := c.expr(s.Rhs[0])
			return append(append(p1, p2...), fmt.Sprintf("do %s <- gstore %s %s %s;", name, name, i, v))
		}
	}
	// tuple assignment from one call
	if len(s.Rhs) == 1 && len(s.Lhs) > 1 {
		call, ok := s.Rhs[0].(*ast.CallExpr)
		if !ok {
			c.failf(s, "multi-value assignment from %T", s.Rhs[0])
		}
		if isRegionMethod(c.calleeFunc(call)) {
			if id, isId := ast.Unparen(s.Lhs[0]).(*ast.Ident); !isId || id.Name != "_" {
				if _, r := c.regionVar(s.Lhs[0]); r == nil {
					c.failf(s, "the window returned by %s must be assigned to a local []byte variable", types.ExprString(call.Fun))
				}
			}
		}
		pre, terms := c.call(call)
		if len(terms) != len(s.Lhs) {
			c.failf(s, "assignment of %d values to %d variables", len(terms), len(s.Lhs))
		}
		for i, l := range s.Lhs {
			n := c.lhsName(l)
			if n != "_" {
				pre = append(pre, c.bindLine(l, n, terms[i]))
			}
		}
		return pre
	}
	if len(s.Lhs) != len(s.Rhs) {
		c.failf(s, "assignment of %d values to %d variables", len(s.Rhs), len(s.Lhs))
	}
	for _, r := range s.Rhs {
		if _, _, isMap := mapKV(c.info.TypeOf(r)); isMap {
			switch y := ast.Unparen(r).(type) {
			case *ast.CallExpr: // make(...) or the result of a call: a map nothing else refers to
			case *ast.Ident:
				if _, isNil := c.info.Uses[y].(*types.Nil); !isNil {
					c.failf(s, "assignment of the map variable %s to another variable (aliasing of maps is not modelled)", y.Name)
				}
			default:
				c.failf(s, "assignment of a map from %s (aliasing of maps is not modelled)", types.ExprString(r))
			}
		}
	}
	if len(s.Lhs) == 1 && len(s.Rhs) == 1 && isEmptyStruct(c.info.TypeOf(s.Lhs[0])) {
		if cl, ok := ast.Unparen(s.Rhs[0]).(*ast.CompositeLit); ok && len(cl.Elts) == 0 {
			return nil // x := T{} for a struct without fields: a value without state
		}
	}
	// all right-hand sides are evaluated before any variable is assigned
	pre, terms := c.exprsAs(s.Rhs, func(i int) types.Type { return c.info.TypeOf(s.Lhs[i]) })
	if len(s.Lhs) == 1 {
		n := c.lhsName(s.Lhs[0])
		if n == "_" {
			return pre
		}
		return append(pre, c.bindLine(s.Lhs[0], n, terms[0]))
	}
	var names []string
	for _, l := range s.Lhs {
		if c.isRecvField(l) {
			c.failf(s, "parallel assignment to a field of the receiver")
		}
		names = append(names, c.lhsName(l))
	}
	return append(pre, fmt.Sprintf("let '(%s) := (%s) in", strings.Join(names, ", "), strings.Join(terms, ", ")))
}

// switch tag { case c1, c2: ... default: ... } with constant case labels, no fallthrough
func (c *fctx) switchStmt(depth int, s *ast.SwitchStmt, rest func(int) string) string {
	if s.Init != nil {
		inner := *s
		inner.Init = nil
		return c.block(depth, []ast.Stmt{s.Init, &inner}, rest)
	}
	if s.Tag == nil {
		return c.switchCond(depth, s, rest)
	}
	if _, _, ok := intTypeInfo(c.info.TypeOf(s.Tag)); !ok {
		c.failf(s, "switch on %s", c.info.TypeOf(s.Tag))
	}
	pre, tag := c.expr(s.Tag)
	c.checkOrder(s.Tag)
	tv := c.fresh()
	pre = append(pre, fmt.Sprintf("let %s := %s in", tv, tag))
	var def *ast.CaseClause
	var clauses []*ast.CaseClause
	for _, st := range s.Body.List {
		cc := st.(*ast.CaseClause)
		if cc.List == nil {
			def = cc
		} else {
			clauses = append(clauses, cc)
		}
	}
	out := c.lines(depth, pre)
	closeN := 0
	// an unlabelled break inside a case body leaves the switch: what follows the switch comes next
	// (and that continuation is translated outside the switch: with the break target popped)
	nbrk := len(c.brk)
	after := rest
	rest = func(d int) string {
		saved := c.brk
		c.brk = c.brk[:nbrk:nbrk]
		defer func() { c.brk = saved }()
		return after(d)
	}
	c.brk = append(c.brk[:nbrk:nbrk], rest)
	defer func() { c.brk = c.brk[:nbrk:nbrk] }()
	for _, cc := range clauses {
		var conds []string
		for _, e := range cc.List {
			ctv := c.info.Types[e]
			if ctv.Value == nil {
				c.failf(e, "non-constant case label")
			}
			lit, _ := c.constTerm(e, ctv)
			conds = append(conds, "("+tv+" =? "+lit+")")
		}
		out += ind(depth) + "if " + strings.Join(conds, " || ") + " then (\n"
		out += c.block(depth+1, cc.Body, rest)
		out += ind(depth) + ") else (\n"
		closeN++
	}
	if def != nil {
		out += c.block(depth+1, def.Body, rest)
	} else {
		out += rest(depth + 1)
	}
	out += ind(depth) + strings.Repeat(")", closeN) + "\n"
	return out
}

// ---------- functions ----------

// analyse records parameters, results, which []byte parameters are stored into, and which
// package-level scalar variables are read (both transitively through whitelisted callees).
func (t *tr) analyse(f *fnInfo, seen map[*fnInfo]bool) {
	if f.params != nil || seen[f] {
		return
	}
	seen[f] = true
	sig := f.obj.Type().(*types.Signature)
	for i := 0; i < sig.Params().Len(); i++ {
		f.params = append(f.params, sig.Params().At(i))
	}
	for i := 0; i < sig.Results().Len(); i++ {
		f.results = append(f.results, sig.Results().At(i))
	}
	f.mutated = make([]bool, len(f.params))
	f.dropped = make([]bool, len(f.params))
	if f.params == nil {
		f.params = []*types.Var{}
	}
	info := f.pkg.TypesInfo
	t.analyseExt(f, seen)
	paramIdx := func(e ast.Expr) int {
		e = ast.Unparen(e)
		if se, ok := e.(*ast.SliceExpr); ok {
			e = ast.Unparen(se.X)
		}
		id, ok := e.(*ast.Ident)
		if !ok {
			return -1
		}
		for i, p := range f.params {
			if info.Uses[id] == p {
				return i
			}
		}
		return -1
	}
	addGlobal := func(v *types.Var) {
		for _, g := range f.globals {
			if g == v {
				return
			}
		}
		f.globals = append(f.globals, v)
	}
	ast.Inspect(f.decl.Body, func(n ast.Node) bool {
		switch x := n.(type) {
		case *ast.AssignStmt:
			for _, l := range x.Lhs {
				if ix, ok := ast.Unparen(l).(*ast.IndexExpr); ok {
					if i := paramIdx(ix.X); i >= 0 {
						if _, isSlice := ast.Unparen(ix.X).(*ast.Ident); isSlice {
							f.mutated[i] = true
						}
					}
				}
			}
		case *ast.CallExpr:
			var id *ast.Ident
			switch fe := ast.Unparen(x.Fun).(type) {
			case *ast.Ident:
				id = fe
			case *ast.SelectorExpr:
				id = fe.Sel
			}
			if id == nil {
				return true
			}
			switch o := info.Uses[id].(type) {
			case *types.Builtin:
				if o.Name() == "copy" && len(x.Args) == 2 {
					if i := paramIdx(x.Args[0]); i >= 0 {
						f.mutated[i] = true
					}
				}
			case *types.Func:
				if putLib[o.FullName()] != 0 && len(x.Args) == 2 {
					if i := paramIdx(x.Args[0]); i >= 0 {
						f.mutated[i] = true
					}
				}
				if callee := t.byObj[o.Origin()]; callee != nil {
					t.analyse(callee, seen)
					if callee == f {
						f.selfRec, f.needsRFuel = true, true
					}
					f.needsFuel = f.needsFuel || callee.needsFuel
					f.needsRFuel = f.needsRFuel || callee.needsRFuel
					t.mapAbstract(f, callee, x)
					t.mapNilable(f, callee, x)
					t.mapCS(f, callee, x)
					for _, e := range callee.externs {
						f.addExtern(e)
					}
					for _, g := range callee.globals {
						addGlobal(g)
					}
					for j, m := range callee.mutated {
						if m && j < len(x.Args) {
							if i := paramIdx(x.Args[j]); i >= 0 {
								switch y := ast.Unparen(x.Args[j]).(type) {
								case *ast.Ident:
									f.mutated[i] = true
								case *ast.SliceExpr: // p[a:] handed to a callee that stores into it
									if y.High == nil && y.Max == nil && isByteSlice(f.params[i].Type()) {
										f.mutated[i] = true
									}
								}
							}
						}
					}
				}
			}
		case *ast.Ident:
			if v, ok := info.Uses[x].(*types.Var); ok && !v.IsField() && v.Pkg() != nil && v.Parent() == v.Pkg().Scope() {
				if _, _, isInt := intTypeInfo(v.Type()); isInt || isBool(v.Type()) || isIntTable(v.Type()) {
					addGlobal(v)
				}
			}
		}
		return true
	})
}

func (t *tr) translate(f *fnInfo) {
	if f.state != 0 {
		if f.state == 1 {
			f.state, f.fail = 3, "recursive call cycle"
		}
		return
	}
	f.state = 1
	c := &fctx{t: t, f: f, info: f.pkg.TypesInfo, names: map[types.Object]string{}, used: map[string]bool{},
		vars: map[string]*cvar{}, loopCache: map[*ast.BlockStmt]*loopFrame{}, callOrds: map[*ast.CallExpr][]string{}}
	defer func() {
		if r := recover(); r != nil {
			e, ok := r.(trErr)
			if !ok {
				panic(r)
			}
			f.state = 3
			f.fail = fmt.Sprintf("%s: %s", e.pos, e.msg)
		}
	}()
	t.analyse(f, map[*fnInfo]bool{})
	sig := f.obj.Type().(*types.Signature)
	if recv := sig.Recv(); recv != nil && f.recv == nil && f.recvStruct == nil {
		st, ok := recv.Type().Underlying().(*types.Struct)
		if !ok || st.NumFields() != 0 {
			c.failf(f.decl, "receiver of type %s (only methods of an empty struct value, or of a struct of abstract objects, are translated)", recv.Type())
		}
	}
	if sig.Variadic() || sig.TypeParams() != nil {
		c.failf(f.decl, "variadic or generic function")
	}
	if f.cs && f.recvStruct == nil {
		c.failf(f.decl, "receiver struct: %s", f.fail)
	}
	c.checkSharing()
	if why := t.checkPointerCallSites(f); why != "" {
		c.failf(f.decl, "pointer parameter: %s", why)
	}
	binders := append(c.absBinders(f), c.extBinders(f)...)
	if f.needsRFuel {
		binders = append(binders, "(rfuel : nat)")
	}
	var tail []string // the binders after the recursion fuel, and their types
	addBinder := func(name, typ string) {
		tail = append(tail, fmt.Sprintf("(%s : %s)", name, typ))
		f.binderTypes = append(f.binderTypes, typ)
	}
	if f.needsFuel {
		addBinder("fuel", "nat")
	}
	for _, g := range f.globals {
		if isIntTable(g.Type()) {
			addBinder(globalName(g), "list Z")
			continue
		}
		addBinder(globalName(g), c.coqType(f.decl, g.Type()))
	}
	if f.recv != nil {
		addBinder(c.nameOf(f.recv), f.absOf(f.recv).stName())
	}
	if f.recvStruct != nil {
		addBinder(c.isnilName(), "bool")
		for _, fv := range f.recvFields {
			addBinder(c.fieldName(f.recvStruct, fv), c.leafCoqType(f.decl, fv))
		}
	}
	for i, p := range f.params {
		if f.dropped[i] {
			continue
		}
		if p.Name() == "" || p.Name() == "_" {
			addBinder("_", c.coqType(f.decl, p.Type()))
			if f.mutated[i] {
				c.failf(f.decl, "internal: unnamed mutated parameter")
			}
			continue
		}
		if fs, isStruct := structFields(p.Type()); isStruct {
			if !structParamOK(p.Type()) {
				c.failf(f.decl, "parameter %s of the struct type %s with a field of an untranslatable type", p.Name(), p.Type())
			}
			for _, fv := range fs {
				addBinder(c.fieldName(p, fv), c.coqType(f.decl, fv.Type()))
			}
			continue
		}
		n := c.nameOf(p)
		if f.nilable[p] {
			addBinder(c.absNilName(p), "bool")
		}
		addBinder(n, c.varCoqType(f.decl, c.vars[n]))
	}
	binders = append(binders, tail...)
	var rts []string
	if f.recv != nil {
		rts = append(rts, f.absOf(f.recv).stName())
	}
	for _, fv := range f.recvFields {
		rts = append(rts, c.leafCoqType(f.decl, fv))
	}
	for i, p := range f.params {
		if f.mutated[i] {
			_, isPtr := ptrToInt(p.Type())
			_, _, isMap := mapKV(p.Type())
			if !isByteSlice(p.Type()) && !isPtr && !isMap && f.absOf(p) == nil {
				c.failf(f.decl, "store into parameter %s of type %s", p.Name(), p.Type())
			}
			rts = append(rts, c.varCoqType(f.decl, c.vars[c.nameOf(p)]))
		}
	}
	for _, r := range f.results {
		rts = append(rts, c.resultTypes(f.decl, r)...)
	}
	rt := "unit"
	if len(rts) > 0 {
		rt = strings.Join(rts, " * ")
	}
	f.resType = rt
	// named results start at their zero values (bound only when the body reads them: by name,
	// or through a bare return)
	var pre []string
	readsResults := map[types.Object]bool{}
	bare := false
	ast.Inspect(f.decl.Body, func(n ast.Node) bool {
		switch x := n.(type) {
		case *ast.Ident:
			if o := c.info.Uses[x]; o != nil {
				readsResults[o] = true
			}
		case *ast.ReturnStmt:
			if len(x.Results) == 0 {
				bare = true
			}
		case *ast.FuncLit:
			c.failf(x, "function literal")
		}
		return true
	})
	for _, r := range f.results {
		if r.Name() != "" && r.Name() != "_" && (bare || readsResults[r]) {
			if fs, ok := structFields(r.Type()); ok {
				for _, fv := range fs {
					pre = append(pre, fmt.Sprintf("let %s := %s in", c.fieldName(r, fv), c.zero(f.decl, fv.Type())))
				}
				continue
			}
			if f.regionOf[r] != nil {
				pre = append(pre, fmt.Sprintf("let %s := gregion_nil in", c.nameOf(r)))
				continue
			}
			pre = append(pre, fmt.Sprintf("let %s := %s in", c.nameOf(r), c.zero(f.decl, r.Type())))
		}
	}
	d0 := 1
	if f.selfRec {
		d0 = 2
	}
	c.endK = func(depth int) string {
		if len(f.results) != 0 {
			c.failf(f.decl, "control reaches the end of a function with results")
		}
		return ind(depth) + c.retTerms(nil) + "\n"
	}
	body := c.lines(d0, pre) + c.block(d0, f.decl.Body.List, c.endK)
	// err == K is decided on codes: sound when every error value that can reach the comparison
	// and is not K has another code.  Error values reach it only from this function's own
	// constants and from its callees (no error-typed parameters, no abstract objects).
	for _, cmp := range f.errCmps {
		for _, p := range f.params {
			if isErrorIface(p.Type()) {
				c.failf(cmp.n, "comparison of error values in a function with an error-typed parameter")
			}
		}
		if len(f.abs) > 0 {
			c.failf(cmp.n, "comparison of error values in a function that calls methods of abstract objects")
		}
		for k := range f.errKeys {
			if k != cmp.key && t.ecodes[k] == t.ecodes[cmp.key] {
				c.failf(cmp.n, "comparison with %s is ambiguous: %s has the same code in the ecode table", cmp.key, k)
			}
		}
	}
	var sb strings.Builder
	for _, l := range f.loopText {
		sb.WriteString(l)
		sb.WriteString("\n")
	}
	fmt.Fprintf(&sb, "(* %s  %s *)\n", c.relpos(f.decl), signatureText(f))
	var notes []string
	for _, r := range f.abs {
		var ms []string
		for _, m := range r.methods {
			ms = append(ms, fmt.Sprintf("%s.%s = %s", r.v.Name(), m.path, r.mName(m.path)))
		}
		notes = append(notes, fmt.Sprintf("%s is an abstract object with state %s, threaded (first components of the result); its methods are given: %s", r.v.Name(), r.stName(), strings.Join(ms, ", ")))
	}
	if f.recvStruct != nil {
		notes = append(notes, fmt.Sprintf("the receiver %s is a pointer to a struct: %s says whether it is nil (then every p.f panics), one binder per field; the final fields are the first components of the result", f.recvStruct.Name(), c.isnilName()))
	}
	for _, r := range f.abs {
		if r.poke {
			notes = append(notes, fmt.Sprintf("windows into the memory of %s (results of Malloc) are (start, length); stores through them are %s", r.v.Name(), r.pokeName()))
		}
	}
	for _, p := range f.params {
		if _, isStruct := structFields(p.Type()); isStruct {
			notes = append(notes, fmt.Sprintf("the parameter %s is a struct (a copy): one binder per field", p.Name()))
		}
	}
	for _, e := range f.externs {
		notes = append(notes, fmt.Sprintf("%s is given: parameter %s", shortFull(e.FullName()), externalFns[e.FullName()]))
	}
	if f.selfRec {
		notes = append(notes, "recursive: rfuel bounds the depth of the recursion (Err gfuel when exhausted)")
	} else if f.needsRFuel {
		notes = append(notes, "rfuel: handed to the recursive functions it calls")
	}
	if f.needsFuel {
		notes = append(notes, "fuel: handed to every for statement, one unit per iteration (Err gfuel when exhausted)")
	}
	for i, p := range f.params {
		if f.dropped[i] {
			notes = append(notes, fmt.Sprintf("the parameter %s is never used: no binder", p.Name()))
			continue
		}
		if f.mutated[i] && f.absOf(p) == nil {
			switch {
			case isByteSlice(p.Type()):
				notes = append(notes, fmt.Sprintf("stores into %s: its final contents are the first component of the result", p.Name()))
			default:
				if _, isPtr := ptrToInt(p.Type()); isPtr {
					notes = append(notes, fmt.Sprintf("%s is a non-nil pointer: the binder is the value of *%s, its final value is returned with the leading components of the result", p.Name(), p.Name()))
				} else {
					notes = append(notes, fmt.Sprintf("stores into the map %s: its final contents are returned with the leading components of the result", p.Name()))
				}
			}
		}
	}
	for _, g := range f.globals {
		notes = append(notes, fmt.Sprintf("reads the package-level variable %s: leading parameter %s", g.Name(), globalName(g)))
	}
	for _, n := range notes {
		fmt.Fprintf(&sb, "(* %s *)\n", n)
	}
	for _, o := range f.oracles {
		binders = append(binders, fmt.Sprintf("(%s : list %s)", o.name, o.typ))
		fmt.Fprintf(&sb, "(* %s *)\n", o.note)
	}
	for _, p := range f.params {
		if f.nilable[p] {
			fmt.Fprintf(&sb, "(* %s is compared with nil: %s says whether it is the nil interface value (a method call panics then) *)\n", p.Name(), c.absNilName(p))
		}
	}
	if f.selfRec {
		if len(f.oracles) > 0 {
			c.failf(f.decl, "a recursive function with map range statements")
		}
		fmt.Fprintf(&sb, "Fixpoint %s %s {struct rfuel} : res (%s) :=\n  match rfuel with\n  | O => Err gfuel\n  | S rfuel' =>\n%s\n  end.\n",
			f.coqName, strings.Join(binders, " "), rt, strings.TrimRight(body, "\n"))
	} else {
		fmt.Fprintf(&sb, "Definition %s %s : res (%s) :=\n%s.\n", f.coqName, strings.Join(binders, " "), rt, strings.TrimRight(body, "\n"))
	}
	f.text = sb.String()
	f.state = 2
	t.order = append(t.order, f)
}

func signatureText(f *fnInfo) string {
	s := types.ObjectString(f.obj, func(p *types.Package) string { return p.Name() })
	return strings.ReplaceAll(strings.ReplaceAll(s, "(*", "( *"), "*)", "* )")
}

func recvName(fd *ast.FuncDecl) string {
	if fd.Recv == nil || len(fd.Recv.List) == 0 {
		return ""
	}
	t := fd.Recv.List[0].Type
	for {
		switch x := t.(type) {
		case *ast.StarExpr:
			t = x.X
			continue
		case *ast.IndexExpr: // generic receiver T[P]
			t = x.X
			continue
		case *ast.IndexListExpr:
			t = x.X
			continue
		case *ast.Ident:
			return x.Name
		}
		return "?"
	}
}

func header() string {
	return `(* GENERATED by tools/gotrans from the Go source of /repo on every run.  Do not edit.

   One Definition g_<pkg>_<Func> per whitelisted Go function, over Lib/GoSem.v (which documents
   the representation).  What the translation assumes about Go:
     * int and uint are 64 bits wide; every arithmetic result is wrapped to the static type of the
       expression (wrapu / wraps); conversions between integer types wrap unless the source
       range is included in the target range (then they are the identity on the value);
       constant expressions are folded by go/constant and printed as literals;
     * operands, arguments and right-hand sides are evaluated left to right; && and || evaluate
       their right operand only when needed;
     * panics (index / slice bounds, encoding/binary on a short slice) are outcomes: Panic w;
       slices have cap = len (x[a:b] with b > len(x) panics);
     * []byte and string values are their contents: string(b), []byte(s), spanCache.Copy(b),
       unsafex.BinaryToString / StringToBinary are the identity on the contents, append returns
       the concatenation; distinct slice parameters do not alias each other;
     * stores into a []byte parameter (p[i] = x, binary.BigEndian.PutUintK(p[a:], v),
       copy(p[a:], s)) thread the updated contents, which the definition returns first;
     * math.Float64bits / Float64frombits are the identity on the 64-bit pattern;
     * a package-level error variable (errReadI32, io.EOF) is a non-nil error identified by its
       qualified name through GoSem.ecode; fmt.Errorf(...) builds a non-nil error identified by
       the function it occurs in; nil is None;
     * a package-level bool / integer variable read by a function is a leading parameter
       gv_<name> (its value at the time of the call); a package-level array of integers that
       the package only ever reads by indexing (checked over the whole package) is a leading
       parameter gv_<name> : list Z, indexed with a bounds check (GoSem.gtable).
   Phase 2 (loops, recursion, pointers, maps, abstract objects):
     * a for statement (for init; cond; post {body}, for cond {body}, for {body}; no labels;
       range: phase 3) is a standalone Fixpoint <func>_loop<k> on its own fuel lf, one unit per
       iteration; its arguments are the variables declared outside that an iteration reads, then
       those it assigns (loop-carried); it returns inl (final carried values) when the condition
       fails or on break, inr (the function's result) on return.  Out of fuel is Err gfuel, the
       only Err a generated function ever produces.  A function that contains loops (or calls one
       that does) takes one leading argument fuel : nat, which is the initial lf of every loop
       it starts; the equivalence lemmas show which fuel is enough;
     * a function that calls itself is a Fixpoint on a leading argument rfuel : nat (one unit per
       nested call, Err gfuel when exhausted); loops that contain the recursive call take the
       function (already applied to rfuel') as their argument rec_;
     * a parameter p of type *T (T an integer type) stands for a non-nil pointer to a variable
       that nothing else refers to during the call: the binder is the value of *p, its final
       value is returned with the leading components of the result; every call site in the
       package must pass &x for a local variable x (or hand a pointer parameter on), else the
       function is refused;
     * a Go map is GoSem.gmap: None is the nil map, Some l the entries in assignment order,
       newest first, a lookup returns the first match; m[k] = v panics on the nil map; a map
       parameter that is stored into is threaded like a []byte parameter; every assignment that
       would make two variables refer to one map is refused;
     * a local variable of a struct type is one variable per field (v_<var>_<Field>); a struct
       result is returned field by field;
     * x := make([]byte, n), with x used only as x[i] and len(x), is a local buffer that stores
       thread like a []byte parameter;
     * a parameter of an interface type (other than error) or of a type parameter type, and a
       receiver that is a struct of such values, is an ABSTRACT OBJECT: its state is a value of
       the type parameter St_<name> of the generated definition, each method M called on it is
       a parameter m_<name>_<path>_M : St -> args -> res (St * results), the state is threaded
       through every call and returned first.  This assumes that distinct abstract objects do
       not share state and that nothing else changes the state during the call.  A pointer
       receiver to a struct of abstract objects is assumed non-nil;
     * thrift.NewProtocolExceptionWithErr(err) is GoSem.gpe_wrap: panics on a nil err, otherwise
       the exception wrapping err, identified by gwrapped c (err is assumed not to be a
       *ProtocolException already; the errors of a bufiox.Reader are not);
     * a pointer receiver p to a struct with fields of translated types is a flag v_p_isnil and
       one variable per field; p.f panics when the flag is set (GoSem.gptr_check / gptr_set);
       the final fields are returned first.  Assumes that nothing else refers to the struct
       during the call;
     * goto L, for a label L of the function's outermost block that comes later, is followed by
       the statements from L to the end of the function (backward gotos are refused);
     * x := T{} / var x T for a struct T without fields binds nothing; methods of T are called
       without a receiver argument;
     * calls of the functions in the table externalFns (thrift.Binary.Skip) are calls of a
       function parameter x_<name> of the generated definition: sound when the Go function is a
       deterministic function of its arguments that keeps no state and does not store into them;
     * thrift.PrependError(text, err) is GoSem.gerr_prepend: panics on a nil err, otherwise an
       error identified by the code of the call site plus the code of err;
     * fmt.Errorf / errors.New / thrift.NewProtocolException build a non-nil error identified by
       <pkg>.<func>#<constructor>[#k] (k-th call of that constructor in the function when there
       are several); their arguments must be free of effects, except err.Error(), which panics
       when err is nil (GoSem.gerr_deref).
   Phase 3 (the write / encode side):
     * switch { case c1: ... default: ... } without a tag: the conditions are evaluated top to
       bottom until one holds (one condition per case, no fallthrough);
     * f(p[a:], ...) for a []byte parameter p that is stored into and a callee f that stores into
       its parameter: the slice expression is checked (gslice_from), the callee works on the tail
       and cannot change its length, its final contents replace the tail of p (GoSem.gsplice);
       no other argument of the call may mention p; len(p[a:]) is allowed (it keeps no reference);
     * p.M(...) inside a method of the same pointer receiver p (a struct with fields): the callee
       gets the nil flag and the current fields, its final fields are the caller's afterwards;
       p == nil / p != nil is the flag;
     * an interface-typed parameter w that is compared with nil (in the function or in a callee it
       is handed to) gets a flag v_w_isnil before its state: w == nil is the flag, a method call
       through the nil value panics (gptr_check); the literal nil handed to such a parameter is
       (unit, methods that panic, true, tt);
     * len(m) of a map is GoSem.gmap_len (the number of distinct keys);
     * for k, v := range m over a map variable or a map field of the receiver, not inside another
       loop, whose body does not assign the map: Go does not specify the enumeration order, so the
       generated definition takes it as a TRAILING PARAMETER ord_<k> : list K, one per range
       statement; the loop is a Fixpoint by structural recursion on that list (no fuel), v is
       looked up in the map.  The definition does not test the oracle: the theorems assume
       GoSem.gmap_order_ok m ord (each key of the map exactly once).  A caller of such a function
       takes the callee's oracles as its own trailing parameters (one set per call site; not
       inside loops);
     * the []byte result of a method listed in regionMethods (bufiox.Writer.Malloc) is a WINDOW
       into memory owned by the abstract object: GoSem.gregion = (start, length) in the object's
       own address space; x[i] = v and binary.BigEndian.PutUintK(x[a:b], v) are the object's poke
       operation, a parameter r_<obj>_poke : St -> Z -> bytes -> res St (position, bytes);
       y := x[a:b] is a window again, len(x) its length, a window can be returned; every other
       use (reading an element, copy, append, handing it to a callee) is refused, so a window
       never stands for its contents.  Trusted: the window has the length the model of the method
       says, stays valid for the rest of the call, and stores through it change nothing but the
       object's state;
     * a parameter of a struct type with fields of translated types is a copy: one binder per
       field (stores into its map fields are refused);
     * v, ok := m[k] is GoSem.gmap_find;
     * for i, x := range s over a []byte value that the body does not store into: a Fixpoint by
       structural recursion on the contents, i the index (strings — runes — are refused);
     * dirtmake.Bytes(n, c) (uninitialised memory) is the function parameter x_dirtmake_Bytes, a
       content oracle (externalFns; at most one allocation per function, none inside loops);
       x := dirtmake.Bytes(n, n) is a local buffer like make([]byte, n) that may also be handed,
       whole or as x[a:], to callees and methods that store into it, and be returned;
     * a method of an abstract object listed in mutatingMethods (FastCodec.FastWriteNocopy) stores
       into its []byte argument: its model returns the final contents of that argument after the
       state; an interface-typed parameter of a method of an abstract object must be handed the
       literal nil and is not a parameter of the model;
     * READ-ONLY VIEWS (container/strmap Get / Len / Item): a method of *S that never assigns
       through its receiver, for a struct S with slice fields: a field []T (T an integer type) is
       a list Z, a field []E (E a struct of such fields) a list of tuples, x[i] is GoSem.gelem,
       e := &x[i] / e = &x[j] is a COPY of the element (one variable per field; a store through e
       is refused), a field of any other type (maphash.Seed) has no binder and may only be handed to
       an external function listed with that argument dropped (maphash.String(m.seed, s) is the
       parameter x_maphash_String : bytes -> res Z, "the hash function of this instance"); a type
       parameter V with an empty constraint is a value type: binders (T_V : Type) (z_V : T_V), the
       type and its zero value.  Sound because nothing in the function can change the slices.
` + phase4Header() + `*)
From GV Require Import Lib.Bytes Lib.Res Lib.GoSem.
Open Scope Z_scope.
`
}

func readEcodes(path string) (map[string]string, error) {
	b, err := os.ReadFile(path)
	if err != nil {
		return nil, err
	}
	s := string(b)
	i, j := strings.Index(s, "(* ECODE-TABLE-BEGIN *)"), strings.Index(s, "(* ECODE-TABLE-END *)")
	if i < 0 || j < i {
		return nil, fmt.Errorf("%s: ecode table markers not found", path)
	}
	out := map[string]string{}
	for _, m := range regexp.MustCompile(`\("([^"]+)",\s*(-?\d+)\)`).FindAllStringSubmatch(s[i:j], -1) {
		out[m[1]] = m[2]
	}
	if len(out) == 0 {
		return nil, fmt.Errorf("%s: empty ecode table", path)
	}
	return out, nil
}

func main() {
	repo := flag.String("repo", "/repo", "repository root")
	outDir := flag.String("out", "", "directory for Funcs.v (stdout when empty)")
	sem := flag.String("sem", "", "path of coq/Lib/GoSem.v (for the ecode table)")
	allOf := flag.String("all-of", "", "self-test: <import path>=<short name>; translate every function of that package of -repo instead of the whitelist")
	flag.Parse()
	if *allOf != "" {
		kv := strings.SplitN(*allOf, "=", 2)
		if len(kv) != 2 {
			fmt.Fprintln(os.Stderr, "gotrans: -all-of wants <import path>=<short name>")
			os.Exit(2)
		}
		pkgShort = map[string]string{kv[0]: kv[1]}
		whitelist = nil
	}

	if *sem == "" {
		fmt.Fprintln(os.Stderr, "gotrans: -sem <coq/Lib/GoSem.v> is required")
		os.Exit(2)
	}
	ecodes, err := readEcodes(*sem)
	if err != nil {
		fmt.Fprintln(os.Stderr, "gotrans:", err)
		os.Exit(2)
	}
	absRepo, _ := filepath.Abs(*repo)
	if r, err := filepath.EvalSymlinks(absRepo); err == nil {
		absRepo = r
	}
	cfg := &packages.Config{
		Mode:       packages.NeedName | packages.NeedFiles | packages.NeedSyntax | packages.NeedTypes | packages.NeedTypesInfo | packages.NeedImports | packages.NeedDeps,
		Dir:        *repo,
		BuildFlags: []string{"-tags=verif"},
		Env:        append(os.Environ(), "GOFLAGS=-mod=mod", "GOPROXY=off", "GOSUMDB=off", "GOTOOLCHAIN=local"),
	}
	var patterns []string
	for p := range pkgShort {
		if *allOf != "" {
			patterns = append(patterns, p)
		} else {
			patterns = append(patterns, "./"+strings.TrimPrefix(p, modPath))
		}
	}
	sort.Strings(patterns)
	pkgs, err := packages.Load(cfg, patterns...)
	if err != nil {
		fmt.Fprintln(os.Stderr, "load:", err)
		os.Exit(2)
	}
	bad := false
	for _, p := range pkgs {
		for _, e := range p.Errors {
			fmt.Fprintln(os.Stderr, "package error:", e)
			bad = true
		}
	}
	if bad {
		os.Exit(2)
	}

	t := &tr{byObj: map[*types.Func]*fnInfo{}, ecodes: ecodes, repo: absRepo, pkgs: pkgs, tableCache: map[*types.Var]string{}}
	decls := map[fnSpec]*fnInfo{}
	for _, p := range pkgs {
		short, ok := pkgShort[p.PkgPath]
		if !ok {
			continue
		}
		for _, file := range p.Syntax {
			fname := p.Fset.Position(file.Pos()).Filename
			if strings.HasSuffix(fname, "_test.go") {
				continue
			}
			for _, d := range file.Decls {
				fd, ok := d.(*ast.FuncDecl)
				if !ok || fd.Body == nil {
					continue
				}
				obj, _ := p.TypesInfo.Defs[fd.Name].(*types.Func)
				if obj == nil {
					continue
				}
				sp := fnSpec{short, recvName(fd), fd.Name.Name}
				if *allOf != "" {
					whitelist = append(whitelist, sp)
				}
				cn := "g_" + short + "_" + fd.Name.Name
				if o, ok := coqNameOf[sp]; ok {
					cn = o
				}
				decls[sp] = &fnInfo{spec: sp, pkg: p, decl: fd, obj: obj, coqName: cn, errKeys: map[string]bool{}}
			}
		}
	}
	var missing []string
	names := map[string]bool{}
	seenName := map[string]bool{}
	for _, sp := range whitelist {
		if sp.recv != "" {
			k := sp.pkg + "." + sp.name
			if seenName[k] {
				ambiguousName[k] = true
			}
			seenName[k] = true
		}
	}
	for _, sp := range whitelist {
		f := decls[sp]
		if f == nil {
			missing = append(missing, fmt.Sprintf("%s.%s.%s: no such function in the source", sp.pkg, sp.recv, sp.name))
			continue
		}
		if names[f.coqName] {
			fmt.Fprintf(os.Stderr, "gotrans: duplicate Coq name %s\n", f.coqName)
			os.Exit(2)
		}
		names[f.coqName] = true
		t.byObj[f.obj] = f
		t.all = append(t.all, f)
	}
	for _, f := range t.all {
		t.translate(f)
	}

	var sb strings.Builder
	sb.WriteString(header())
	sb.WriteString("\n")
	for _, f := range t.order {
		sb.WriteString(f.text)
		sb.WriteString("\n")
	}
	var failures []string
	failures = append(failures, missing...)
	for _, f := range t.all {
		if f.state != 2 {
			failures = append(failures, fmt.Sprintf("%s (%s.%s): %s", f.coqName, f.spec.pkg, f.spec.name, strings.TrimPrefix(f.fail, absRepo+"/")))
		}
	}
	if len(failures) > 0 {
		sb.WriteString("(* NOT TRANSLATED — the construct is outside the supported subset; the definitions are omitted on\n   purpose so that the equivalence lemmas about them stop compiling:\n")
		for _, m := range failures {
			sb.WriteString("     " + strings.ReplaceAll(strings.ReplaceAll(m, "(*", "( *"), "*)", "* )") + "\n")
		}
		sb.WriteString("*)\n")
	}
	text := sb.String()
	if *outDir != "" {
		fn := filepath.Join(*outDir, "Funcs.v")
		old, _ := os.ReadFile(fn)
		if string(old) != text {
			if err := os.WriteFile(fn, []byte(text), 0o644); err != nil {
				fmt.Fprintln(os.Stderr, "gotrans:", err)
				os.Exit(2)
			}
			fmt.Println("Funcs.v updated")
		}
	} else {
		fmt.Print(text)
	}
	if len(failures) > 0 {
		for _, m := range failures {
			fmt.Fprintln(os.Stderr, "gotrans: NOT TRANSLATED:", m)
		}
		os.Exit(3)
	}
}
