// ext3.go — phase 3 of the translator (the write / encode side):
//   * switch without a tag (conditions evaluated top to bottom);
//   * a sub-slice p[a:] of a []byte parameter handed to a callee that stores into it
//     (GoSem.gsplice: the callee's final contents replace the tail of p);
//   * calls of methods of the SAME pointer receiver (p.M(...) inside a method of *T);
//   * `p == nil` for the pointer receiver.
package main

import (
	"fmt"
	"go/ast"
	"go/types"
)

// switch { case cond1: ... case cond2: ... default: ... } — the conditions are evaluated top to
// bottom until one holds; no fallthrough (refused by branchStmt)
func (c *fctx) switchCond(depth int, s *ast.SwitchStmt, rest func(int) string) string {
	var def *ast.CaseClause
	var clauses []*ast.CaseClause
	for _, st := range s.Body.List {
		cc := st.(*ast.CaseClause)
		if cc.List == nil {
			def = cc
		} else {
			clauses = append(clauses, cc)
		}
	}
	nbrk := len(c.brk)
	after := rest
	rest = func(d int) string {
		saved := c.brk
		c.brk = c.brk[:nbrk:nbrk]
		defer func() { c.brk = saved }()
		return after(d)
	}
	c.brk = append(c.brk[:nbrk:nbrk], rest)
	defer func() { c.brk = c.brk[:nbrk:nbrk] }()
	out := ""
	closeN := 0
	for _, cc := range clauses {
		if len(cc.List) != 1 {
			c.failf(cc, "case with %d conditions in a switch without a tag", len(cc.List))
		}
		if !isBool(c.info.TypeOf(cc.List[0])) {
			c.failf(cc, "case condition of type %s", c.info.TypeOf(cc.List[0]))
		}
		c.readMut, c.nestedMut, c.topCall = false, false, nil
		pre, cond := c.expr(cc.List[0])
		c.checkOrder(cc.List[0])
		out += c.lines(depth, pre)
		out += ind(depth) + "if " + cond + " then (\n"
		out += c.block(depth+1, cc.Body, rest)
		out += ind(depth) + ") else (\n"
		closeN++
	}
	if def != nil {
		out += c.block(depth+1, def.Body, rest)
	} else {
		out += rest(depth + 1)
	}
	if closeN > 0 {
		out += ind(depth)
		for i := 0; i < closeN; i++ {
			out += ")"
		}
		out += "\n"
	}
	return out
}

// an argument for a []byte parameter the callee stores into: `p` or `p[a:]` for a []byte parameter
// p of the caller that is stored into.  Returns the bindings that precede the call, the argument
// term, the pattern that receives the callee's final contents and the bindings that follow.
func (c *fctx) mutSliceArg(a ast.Expr) (pre []string, arg, pat string, post []string) {
	switch y := ast.Unparen(a).(type) {
	case *ast.Ident:
		n := c.mutParamName(y)
		return nil, c.readVar(n), c.assignVar(n), nil
	case *ast.SliceExpr:
		id, ok := ast.Unparen(y.X).(*ast.Ident)
		if !ok || y.High != nil || y.Max != nil || y.Slice3 {
			break
		}
		n := c.mutParamName(id)
		off := "0"
		if y.Low != nil {
			pre, off = c.expr(y.Low)
		}
		// the offset is evaluated once, before the call; the callee cannot change it
		o := c.fresh()
		sub := c.fresh()
		pre = append(pre, fmt.Sprintf("let %s := %s in", o, off))
		pre = append(pre, fmt.Sprintf("do %s <- gslice_from %s %s;", sub, c.readVar(n), o))
		post = []string{fmt.Sprintf("let %s := gsplice %s %s %s in", c.assignVar(n), n, o, sub)}
		return pre, sub, sub, post
	}
	c.failf(a, "argument for a parameter the callee stores into must be `p` or `p[a:]` for a []byte parameter p of the caller")
	return
}

// no other argument of the call may mention the variable a stored-into slice argument is rooted
// in (the callee assumes that its slice parameters do not alias each other)
func (c *fctx) checkNoAliasArgs(x *ast.CallExpr, callee *fnInfo) {
	root := func(e ast.Expr) types.Object {
		e = ast.Unparen(e)
		if se, ok := e.(*ast.SliceExpr); ok {
			e = ast.Unparen(se.X)
		}
		if id, ok := e.(*ast.Ident); ok {
			return c.info.Uses[id]
		}
		return nil
	}
	for i, a := range x.Args {
		if i >= len(callee.mutated) || !callee.mutated[i] || !isByteSlice(callee.params[i].Type()) {
			continue
		}
		r := root(a)
		if r == nil {
			continue
		}
		for j, b := range x.Args {
			if j == i || !isBytesLike(c.info.TypeOf(b)) {
				continue
			}
			bad := false
			ast.Inspect(b, func(n ast.Node) bool {
				if id, ok := n.(*ast.Ident); ok && c.info.Uses[id] == r {
					bad = true
				}
				return true
			})
			if bad {
				c.failf(b, "argument mentions %s, which is also handed to a parameter the callee stores into (aliasing is not modelled)", r.Name())
			}
		}
	}
}

// the receiver expression of a call p.M(...) is the caller's own pointer receiver
func (c *fctx) sameRecvCall(x *ast.CallExpr, callee *fnInfo) bool {
	if callee.recvStruct == nil || c.f.recvStruct == nil {
		return false
	}
	sel, ok := ast.Unparen(x.Fun).(*ast.SelectorExpr)
	if !ok || !c.isRecv(sel.X) {
		return false
	}
	return types.Identical(callee.recvStruct.Type(), c.f.recvStruct.Type())
}
