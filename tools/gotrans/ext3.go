// ext3.go — phase 3 of the translator (the write / encode side):
//   - switch without a tag (conditions evaluated top to bottom);
//   - a sub-slice p[a:] of a []byte parameter handed to a callee that stores into it
//     (GoSem.gsplice: the callee's final contents replace the tail of p);
//   - calls of methods of the SAME pointer receiver (p.M(...) inside a method of *T);
//   - `p == nil` for the pointer receiver.
package main

import (
	"fmt"
	"go/ast"
	"go/token"
	"go/types"
	"strings"
)

// switch { case cond1: ... case cond2: ... default: ... } — the conditions are evaluated top to
// bottom until one holds; no fallthrough (refused by branchStmt)
func (c *fctx) switchCond(depth int, s *ast.SwitchStmt, rest func(int) string) string {
	var def *ast.CaseClause
	var clauses []*ast.CaseClause
	for _, st := range s.Body.List {
		cc := st.(*ast.CaseClause)
		if cc.List == nil {
			def = cc
		} else {
			clauses = append(clauses, cc)
		}
	}
	nbrk := len(c.brk)
	after := rest
	rest = func(d int) string {
		saved := c.brk
		c.brk = c.brk[:nbrk:nbrk]
		defer func() { c.brk = saved }()
		return after(d)
	}
	c.brk = append(c.brk[:nbrk:nbrk], rest)
	defer func() { c.brk = c.brk[:nbrk:nbrk] }()
	out := ""
	closeN := 0
	for _, cc := range clauses {
		if len(cc.List) != 1 {
			c.failf(cc, "case with %d conditions in a switch without a tag", len(cc.List))
		}
		if !isBool(c.info.TypeOf(cc.List[0])) {
			c.failf(cc, "case condition of type %s", c.info.TypeOf(cc.List[0]))
		}
		c.readMut, c.nestedMut, c.topCall = false, false, nil
		pre, cond := c.expr(cc.List[0])
		c.checkOrder(cc.List[0])
		out += c.lines(depth, pre)
		out += ind(depth) + "if " + cond + " then (\n"
		out += c.block(depth+1, cc.Body, rest)
		out += ind(depth) + ") else (\n"
		closeN++
	}
	if def != nil {
		out += c.block(depth+1, def.Body, rest)
	} else {
		out += rest(depth + 1)
	}
	if closeN > 0 {
		out += ind(depth)
		for i := 0; i < closeN; i++ {
			out += ")"
		}
		out += "\n"
	}
	return out
}

// an argument for a []byte parameter the callee stores into: `p` or `p[a:]` for a []byte parameter
// p of the caller that is stored into.  Returns the bindings that precede the call, the argument
// term, the pattern that receives the callee's final contents and the bindings that follow.
func (c *fctx) mutSliceArg(a ast.Expr) (pre []string, arg, pat string, post []string) {
	switch y := ast.Unparen(a).(type) {
	case *ast.Ident:
		n := c.mutParamName(y)
		return nil, c.readVar(n), c.assignVar(n), nil
	case *ast.SliceExpr:
		id, ok := ast.Unparen(y.X).(*ast.Ident)
		if !ok || y.High != nil || y.Max != nil || y.Slice3 {
			break
		}
		n := c.mutParamName(id)
		off := "0"
		if y.Low != nil {
			pre, off = c.expr(y.Low)
		}
		// the offset is evaluated once, before the call; the callee cannot change it
		o := c.fresh()
		sub := c.fresh()
		pre = append(pre, fmt.Sprintf("let %s := %s in", o, off))
		pre = append(pre, fmt.Sprintf("do %s <- gslice_from %s %s;", sub, c.readVar(n), o))
		post = []string{fmt.Sprintf("let %s := gsplice %s %s %s in", c.assignVar(n), n, o, sub)}
		return pre, sub, sub, post
	}
	c.failf(a, "argument for a parameter the callee stores into must be `p` or `p[a:]` for a []byte parameter p of the caller")
	return
}

// no other argument of the call may mention the variable a stored-into slice argument is rooted
// in (the callee assumes that its slice parameters do not alias each other)
func (c *fctx) checkNoAliasArgs(x *ast.CallExpr, callee *fnInfo) {
	root := func(e ast.Expr) types.Object {
		e = ast.Unparen(e)
		if se, ok := e.(*ast.SliceExpr); ok {
			e = ast.Unparen(se.X)
		}
		if id, ok := e.(*ast.Ident); ok {
			return c.info.Uses[id]
		}
		return nil
	}
	for i, a := range x.Args {
		if i >= len(callee.mutated) || !callee.mutated[i] || !isByteSlice(callee.params[i].Type()) {
			continue
		}
		r := root(a)
		if r == nil {
			continue
		}
		for j, b := range x.Args {
			if j == i || !isBytesLike(c.info.TypeOf(b)) {
				continue
			}
			bad := false
			ast.Inspect(b, func(n ast.Node) bool {
				if id, ok := n.(*ast.Ident); ok && c.info.Uses[id] == r {
					bad = true
				}
				return true
			})
			if bad {
				c.failf(b, "argument mentions %s, which is also handed to a parameter the callee stores into (aliasing is not modelled)", r.Name())
			}
		}
	}
}

// the receiver expression of a call p.M(...) is the caller's own pointer receiver
func (c *fctx) sameRecvCall(x *ast.CallExpr, callee *fnInfo) bool {
	if callee.recvStruct == nil || c.f.recvStruct == nil {
		return false
	}
	sel, ok := ast.Unparen(x.Fun).(*ast.SelectorExpr)
	if !ok || !c.isRecv(sel.X) {
		return false
	}
	return types.Identical(callee.recvStruct.Type(), c.f.recvStruct.Type())
}

// ---------- nil tests ----------

func sel0(path string) string { return path } // methods directly on the root (not on a field of a struct of objects)

func isNilIdent(info *types.Info, e ast.Expr) bool {
	id, ok := ast.Unparen(e).(*ast.Ident)
	if !ok {
		return false
	}
	_, isNil := info.Uses[id].(*types.Nil)
	return isNil
}

// the flag "the interface value is nil" of an abstract object that is compared with nil
func (c *fctx) absNilName(v *types.Var) string {
	n := c.nameOf(v) + "_isnil"
	if _, ok := c.vars[n]; !ok {
		c.used[n] = true
		c.vars[n] = &cvar{name: n, root: v, isnil: true}
	}
	return n
}

// p == nil for the pointer receiver p, w == nil for an abstract object w with a nil flag:
// returns the term for `== nil`
func (c *fctx) nilTest(x *ast.BinaryExpr) (string, bool) {
	var other ast.Expr
	switch {
	case isNilIdent(c.info, x.Y):
		other = x.X
	case isNilIdent(c.info, x.X):
		other = x.Y
	default:
		return "", false
	}
	if c.isRecv(other) {
		return c.readVar(c.isnilName()), true
	}
	if root, path := c.absPath(other); root != nil && path == "" {
		if !c.f.nilable[root.v] {
			c.failf(x, "internal: %s is compared with nil but has no nil flag", root.v.Name())
		}
		return c.readVar(c.absNilName(root.v)), true
	}
	return "", false
}

// an abstract object of the caller that is handed to a parameter the callee compares with nil
// needs a nil flag itself
func (t *tr) mapNilable(f, callee *fnInfo, x *ast.CallExpr) {
	if callee == f {
		return
	}
	info := f.pkg.TypesInfo
	for i, p := range callee.params {
		if !callee.nilable[p] || i >= len(x.Args) {
			continue
		}
		if root, path := absPathOf(f, info, x.Args[i]); root != nil && path == "" {
			f.nilable[root.v] = true
		}
	}
}

// ---------- for k, v := range m over a Go map ----------
//
// Go does not specify the order in which a range statement enumerates a map.  The generated
// definition takes the order as an EXPLICIT PARAMETER ord_<k> : list K (one per range statement,
// trailing binders): the loop is a Fixpoint by structural recursion on that list, v is looked up
// in the map.  The definition does not test the oracle; the theorems assume GoSem.gmap_order_ok
// (each key of the map exactly once; [] for the nil map).  The body must not assign the map, the
// statement must not be inside another loop (one order per execution of the statement).

type oracle struct {
	name, typ, note string
}

func (c *fctx) newOracle(base, typ, note string) string {
	name := base
	for i := 2; c.used[name]; i++ {
		name = fmt.Sprintf("%s_%d", base, i)
	}
	c.used[name] = true
	c.f.oracles = append(c.f.oracles, oracle{name, typ, fmt.Sprintf(note, name)})
	return name
}

// the order oracles a callee takes become oracles of the caller (one set per call site)
func (c *fctx) calleeOracles(x *ast.CallExpr, callee *fnInfo) []string {
	if len(callee.oracles) == 0 {
		return nil
	}
	if ns, ok := c.callOrds[x]; ok {
		return ns
	}
	if len(c.loops) > 0 {
		c.failf(x, "call of %s, which enumerates maps, inside a loop (one enumeration order per execution)", callee.obj.Name())
	}
	var ns []string
	for _, o := range callee.oracles {
		ns = append(ns, c.newOracle("ord_"+callee.spec.name+"_"+o.name[len("ord_"):], o.typ,
			"%s: handed to "+callee.coqName+" as its "+o.name))
	}
	c.callOrds[x] = ns
	return ns
}

func (c *fctx) rangeStmt(depth int, s *ast.RangeStmt, rest func(int) string) string {
	if out, ok := c.csRange(depth, s, rest); ok {
		return out // a [][]byte / array leaf of the receiver (ext4.go)
	}
	kt, vt, isMap := mapKV(c.info.TypeOf(s.X))
	if !isMap && isByteSlice(c.info.TypeOf(s.X)) {
		return c.rangeBytes(depth, s, rest)
	}
	if !isMap {
		c.failf(s, "range over %s (only maps, with the enumeration order as a parameter, and []byte)", c.info.TypeOf(s.X))
	}
	if s.Tok != token.DEFINE {
		c.failf(s, "range statement that assigns existing variables")
	}
	fr := c.loopCache[s.Body]
	if fr == nil {
		if len(c.loops) > 0 {
			c.failf(s, "range over a map inside another loop (one enumeration order per execution)")
		}
		fr = c.translateRange(s, kt, vt)
		c.loopCache[s.Body] = fr
	}
	for _, n := range fr.free {
		c.readVar(n)
	}
	for _, n := range fr.carried {
		c.readVar(n)
		c.assignVar(n)
	}
	call := c.loopCall(fr, fr.oracle)
	t, r := c.fresh(), c.fresh()
	out := ""
	if sel, ok := ast.Unparen(s.X).(*ast.SelectorExpr); ok {
		out += c.lines(depth, c.recvCheck(sel.X)) // the range expression is evaluated once, before the loop
	}
	out += ind(depth) + fmt.Sprintf("do %s <- %s;\n", t, call)
	out += ind(depth) + fmt.Sprintf("match %s with\n", t)
	out += ind(depth) + fmt.Sprintf("| inr %s => Ok %s\n", r, r)
	pat := "_"
	if len(fr.carried) > 0 {
		pat = tuple(fr.carried)
	}
	out += ind(depth) + fmt.Sprintf("| inl %s =>\n", pat)
	out += rest(depth + 1)
	out += ind(depth) + "end\n"
	return out
}

func (c *fctx) translateRange(s *ast.RangeStmt, kt, vt types.Type) *loopFrame {
	// the map: a variable or a field of the receiver, read (not copied) in every iteration
	var mname string
	switch y := ast.Unparen(s.X).(type) {
	case *ast.Ident:
		if o, ok := c.info.Uses[y].(*types.Var); ok {
			if _, isG := c.pkgLevelVar(o); !isG {
				mname = c.nameOf(o)
			}
		}
	case *ast.SelectorExpr:
		if n, ok := c.fieldVar(y); ok {
			mname = n
		}
	}
	if mname == "" {
		c.failf(s, "range over %s (only a map variable or a map field of the receiver)", types.ExprString(s.X))
	}
	c.nloop++
	fr := &loopFrame{name: fmt.Sprintf("%s_loop%d", c.f.coqName, c.nloop), lo: s.Pos(), hi: s.End(), reads: map[string]bool{}, carriedSet: map[string]bool{}, canExit: true}
	ktyp := c.coqType(s, kt)
	base := "ord"
	if id, ok := s.Key.(*ast.Ident); ok && id.Name != "_" {
		base = "ord_" + id.Name
	}
	fr.oracle = c.newOracle(base, ktyp, "%s: the order in which `for ... := range "+types.ExprString(s.X)+"` enumerates the map (GoSem.gmap_order_ok)")
	fr.carried = c.carriedOfNodes(fr, []ast.Node{s.Body})
	for _, n := range fr.carried {
		fr.carriedSet[n] = true
	}
	if fr.carriedSet[mname] {
		c.failf(s, "the map %s is assigned inside its own range statement", types.ExprString(s.X))
	}
	carriedTuple := tuple(fr.carried)
	savedLoops, savedBrk := c.loops, c.brk
	c.loops = append(c.loops[:len(c.loops):len(c.loops)], fr)
	exit := func(d int) string { return ind(d) + "Ok (inl " + carriedTuple + ")\n" }
	c.brk = append(c.brk[:len(c.brk):len(c.brk)], exit)
	cont := func(d int) string { return ind(d) + "@@CALL:" + fr.name + "@@\n" }
	c.conts = append(c.conts, cont)
	var head []string
	if id, ok := s.Key.(*ast.Ident); ok && id.Name != "_" {
		head = append(head, fmt.Sprintf("let %s := k_ in", c.nameOf(c.info.Defs[id])))
	}
	if s.Value != nil {
		id, ok := s.Value.(*ast.Ident)
		if !ok {
			c.failf(s, "range value %s", types.ExprString(s.Value))
		}
		if id.Name != "_" {
			head = append(head, fmt.Sprintf("let %s := gmap_get %s %s k_ %s in", c.nameOf(c.info.Defs[id]), c.keyEqb(s, kt), c.readVar(mname), c.zero(s, vt)))
		}
	}
	body := c.lines(2, head) + c.block(2, s.Body.List, cont)
	c.conts = c.conts[:len(c.conts)-1]
	c.loops, c.brk = savedLoops, savedBrk

	for n := range fr.reads {
		if !fr.carriedSet[n] {
			fr.free = append(fr.free, n)
		}
	}
	c.sortVars(fr.free)
	binders := append(c.absBinders(c.f), c.extBinders(c.f)...)
	if c.f.needsRFuel {
		binders = append(binders, "(rfuel : nat)")
	}
	if c.f.needsFuel {
		binders = append(binders, "(fuel : nat)")
	}
	for _, g := range c.f.globals {
		if isIntTable(g.Type()) {
			binders = append(binders, fmt.Sprintf("(%s : list Z)", globalName(g)))
		} else {
			binders = append(binders, fmt.Sprintf("(%s : %s)", globalName(g), c.coqType(s, g.Type())))
		}
	}
	for _, n := range fr.free {
		binders = append(binders, c.binder(s, n))
	}
	binders = append(binders, "(ks : list "+ktyp+")")
	var cts []string
	for _, n := range fr.carried {
		binders = append(binders, c.binder(s, n))
		cts = append(cts, c.varCoqType(s, c.vars[n]))
	}
	ct := "unit"
	if len(cts) > 0 {
		ct = strings.Join(cts, " * ")
	}
	rt := c.f.resType
	self := c.loopCall(fr, "ks")
	body = strings.ReplaceAll(body, "@@CALL:"+fr.name+"@@", self)
	body = strings.ReplaceAll(body, "@@INR:"+fr.name+"@@", "inr ")
	if fr.usesRec {
		c.failf(s, "recursive call inside a range statement")
	}
	var sb strings.Builder
	fmt.Fprintf(&sb, "(* a range statement of %s over the map %s: ks is what is left of the enumeration order", c.f.spec.name, types.ExprString(s.X))
	if len(fr.carried) > 0 {
		fmt.Fprintf(&sb, "; inl: the loop ended, with the final %s", strings.Join(fr.carried, ", "))
	}
	fmt.Fprintf(&sb, "; inr: the function returned *)\n")
	fmt.Fprintf(&sb, "Fixpoint %s %s {struct ks} : res ((%s) + (%s)) :=\n  match ks with\n  | [] => Ok (inl %s)\n  | k_ :: ks =>\n%s  end.\n",
		fr.name, strings.Join(binders, " "), ct, rt, carriedTuple, body)
	c.f.loopText = append(c.f.loopText, sb.String())
	fr.done = true
	return fr
}
