// ext4.go — phase 4 of the translator (bufiox/defaultbuf.go): methods of a pointer receiver *S for
// the structs S listed in csStructs, whose state is more than scalar fields:
//   - a []byte field is a SLICE WITH CAPACITY (GoSem.gcslice: the contents of the backing array up
//     to the capacity, and the length): len, cap, s[a:b] up to cap, copy into it, nil tests;
//     local variables and parameters that such values flow into are slices with capacity too,
//     every other []byte (parameters, results) stays a value (its contents, GoSem.gcs_bytes);
//   - a [][]byte field is a GoSem.gcslist (append, len, range, nil);
//   - a field of an interface type (io.Reader, io.Writer) is an abstract object whose STATE IS A FIELD
//     (type parameter St_<recv>_<field>, methods m_<recv>_<field>_<M>); a method listed in
//     mutatingMethods (io.Reader.Read) is handed the contents of the window s[a:b] and returns its
//     final contents (GoSem.gcs_splice);
//   - a field of a struct type is flattened into its leaves (v_<recv>_<f>_<g>); an array field
//     [N]int is a list Z (a[i], a[i] = x, range); p.f.M(...) for a translated method M of the
//     nested struct gets the leaves below f and gives them back;
//   - *p = S{...} assigns every leaf (the zero value where the literal is silent);
//   - mcache.Malloc / mcache.Free / dirtmake.Bytes are methods of THE ALLOCATOR, an abstract object
//     that every function that allocates (or calls one that does) takes as its trailing parameter
//     v_mem : St_mem with the models m_mem_Malloc, m_mem_Free, m_mem_Bytes, so that successive
//     allocations may return different contents;
//   - the SHARING DISCIPLINE (checkSharing): values are not references, so a function in which a
//     slice with capacity could be stored into while another live variable refers to the same
//     backing array is refused.
package main

import (
	"fmt"
	"go/ast"
	"go/token"
	"go/types"
	"strings"
)

// the structs whose pointer-receiver methods are translated field by field with the leaf kinds below
var csStructs = map[string]bool{
	modPath + "bufiox.DefaultReader": true,
	modPath + "bufiox.DefaultWriter": true,
	modPath + "bufiox.maxSizeStats":  true,
	"semtest/sem.CBuf":               true, // the translator's differential self-test
	"semtest/sem.CStats":             true,
	"semtest/bad.cbuf":               true, // ... and its refused samples
	"semtest/bad.cstats":             true,
	"semtest/bad.cemb":               true,
}

// the allocator: functions that return fresh memory of arbitrary content / take memory back
const (
	mcacheMalloc = "github.com/bytedance/gopkg/lang/mcache.Malloc"
	mcacheFree   = "github.com/bytedance/gopkg/lang/mcache.Free"
)

var allocFns = map[string]string{
	mcacheMalloc:        "Malloc",
	mcacheFree:          "Free",
	dirtFn:              "Bytes",
	"semtest/ext.Alloc": "Malloc", // func Alloc(size int, capacity ...int) []byte
	"semtest/ext.Free":  "Free",
	"semtest/ext.Dirty": "Bytes", // in a method of a struct of csStructs only (elsewhere it is the external x_ext_Dirty)
}

const (
	leafPlain = iota
	leafCS    // []byte: gcslice
	leafCSL   // [][]byte: gcslist
	leafAbs   // an interface: the state of an abstract object
	leafArr   // [N]int: list Z
)

type leafInfo struct {
	kind   int
	path   []string
	field  *types.Var
	arrLen int64
}

var leafInfos = map[*types.Var]*leafInfo{} // the leaves of the structs of csStructs (depth 1: the field itself)
var leavesCache = map[*types.Named][]*types.Var{}
var leavesErr = map[*types.Named]string{}

func csNamed(t types.Type) *types.Named {
	n, ok := t.(*types.Named)
	if !ok || n.Obj().Pkg() == nil {
		return nil
	}
	if csStructs[n.Obj().Pkg().Path()+"."+n.Obj().Name()] {
		return n
	}
	return nil
}

func isSliceOfByteSlices(t types.Type) bool {
	s, ok := t.Underlying().(*types.Slice)
	return ok && isByteSlice(s.Elem())
}

func leafKindOf(t types.Type) (int, int64, bool) {
	switch {
	case isByteSlice(t):
		return leafCS, 0, true
	case isSliceOfByteSlices(t):
		return leafCSL, 0, true
	case isAbstractType(t):
		return leafAbs, 0, true
	case isErrorIface(t), isBool(t), isString(t), isFloat64(t):
		return leafPlain, 0, true
	}
	if a, ok := t.Underlying().(*types.Array); ok {
		if _, _, isInt := intTypeInfo(a.Elem()); isInt {
			return leafArr, a.Len(), true
		}
		return 0, 0, false
	}
	if _, _, ok := intTypeInfo(t); ok {
		return leafPlain, 0, true
	}
	if _, _, ok := mapKV(t); ok {
		return leafPlain, 0, true
	}
	return 0, 0, false
}

// the leaves of a struct of csStructs, in field order (nested structs flattened)
func csLeaves(n *types.Named) ([]*types.Var, string) {
	if ls, ok := leavesCache[n]; ok {
		return ls, leavesErr[n]
	}
	var out []*types.Var
	var walk func(st *types.Struct, prefix []string) string
	walk = func(st *types.Struct, prefix []string) string {
		for i := 0; i < st.NumFields(); i++ {
			fv := st.Field(i)
			path := append(append([]string{}, prefix...), fv.Name())
			if fv.Embedded() {
				return fmt.Sprintf("embedded field %s", strings.Join(path, "."))
			}
			if k, al, ok := leafKindOf(fv.Type()); ok {
				lv := fv
				if len(prefix) > 0 {
					lv = types.NewField(fv.Pos(), fv.Pkg(), strings.Join(path, "_"), fv.Type(), false)
				}
				leafInfos[lv] = &leafInfo{kind: k, path: path, field: fv, arrLen: al}
				out = append(out, lv)
				continue
			}
			if sub, isStruct := fv.Type().Underlying().(*types.Struct); isStruct && sub.NumFields() > 0 {
				if e := walk(sub, path); e != "" {
					return e
				}
				continue
			}
			return fmt.Sprintf("field %s of type %s", strings.Join(path, "."), fv.Type())
		}
		return ""
	}
	why := walk(n.Underlying().(*types.Struct), nil)
	leavesCache[n], leavesErr[n] = out, why
	return out, why
}

func (f *fnInfo) leafByPath(path []string) *types.Var {
	for _, lv := range f.recvFields {
		li := leafInfos[lv]
		if li == nil || len(li.path) != len(path) {
			continue
		}
		same := true
		for i := range path {
			if li.path[i] != path[i] {
				same = false
			}
		}
		if same {
			return lv
		}
	}
	return nil
}

// e = recv.f.g...: the field path below the receiver of a cs method (nil when e is something else)
func (f *fnInfo) recvPath(info *types.Info, e ast.Expr) ([]string, bool) {
	if !f.cs || f.recvStruct == nil {
		return nil, false
	}
	switch x := ast.Unparen(e).(type) {
	case *ast.Ident:
		if info.Uses[x] == f.recvStruct {
			return []string{}, true
		}
	case *ast.SelectorExpr:
		if fv, ok := info.Uses[x.Sel].(*types.Var); ok && fv.IsField() {
			if p, ok := f.recvPath(info, x.X); ok {
				return append(p, x.Sel.Name), true
			}
		}
	}
	return nil, false
}

// the leaf a selector expression recv.f(.g) denotes
func (f *fnInfo) leafOfExpr(info *types.Info, e ast.Expr) *types.Var {
	if _, isSel := ast.Unparen(e).(*ast.SelectorExpr); !isSel {
		return nil
	}
	p, ok := f.recvPath(info, e)
	if !ok || len(p) == 0 {
		return nil
	}
	return f.leafByPath(p)
}

func (f *fnInfo) leafKind(info *types.Info, e ast.Expr) (*types.Var, int) {
	lv := f.leafOfExpr(info, e)
	if lv == nil {
		return nil, -1
	}
	return lv, leafInfos[lv].kind
}

func (f *fnInfo) leafOfRoot(r *absRoot) *types.Var {
	for lv, rr := range f.fieldRoots {
		if rr == r {
			return lv
		}
	}
	return nil
}

// ---------- analysis ----------

// the receiver *S of a method of a struct of csStructs
func (t *tr) analyseCSReceiver(f *fnInfo, recv *types.Var) bool {
	e, isPtr := ptrElem(recv.Type())
	if !isPtr {
		return false
	}
	n := csNamed(e)
	if n == nil {
		return false
	}
	f.cs = true
	f.csVars = map[*types.Var]bool{}
	f.fieldRoots = map[*types.Var]*absRoot{}
	f.movedTo = map[*types.Var]*types.Var{}
	leaves, why := csLeaves(n)
	if why != "" {
		f.fail = why
		return true
	}
	f.recvStruct, f.recvFields = recv, leaves
	for _, lv := range leaves {
		if leafInfos[lv].kind == leafAbs {
			rv := types.NewVar(lv.Pos(), lv.Pkg(), recv.Name()+"_"+lv.Name(), lv.Type())
			r := &absRoot{v: rv}
			f.abs = append(f.abs, r)
			f.fieldRoots[lv] = r
		}
	}
	t.analyseCSVars(f)
	return true
}

var emptyIface = types.NewInterfaceType(nil, nil)

// the allocator of f: a trailing synthetic parameter `mem`, an abstract object
func (t *tr) ensureAlloc(f *fnInfo) *absRoot {
	if f.allocRoot == nil {
		v := types.NewParam(f.decl.Pos(), f.pkg.Types, "mem", emptyIface)
		f.allocRoot = &absRoot{v: v}
		f.abs = append(f.abs, f.allocRoot)
		f.params = append(f.params, v)
		f.mutated = append(f.mutated, true)
		f.dropped = append(f.dropped, false)
	}
	return f.allocRoot
}

func allocName(fn *types.Func) string {
	if fn == nil {
		return ""
	}
	return allocFns[fn.Origin().FullName()]
}

func localVarOf(info *types.Info, e ast.Expr) *types.Var {
	id, ok := ast.Unparen(e).(*ast.Ident)
	if !ok {
		return nil
	}
	o := info.Defs[id]
	if o == nil {
		o = info.Uses[id]
	}
	v, _ := o.(*types.Var)
	if v == nil || v.IsField() || (v.Pkg() != nil && v.Parent() == v.Pkg().Scope()) {
		return nil
	}
	return v
}

// is e a slice with capacity?
func (f *fnInfo) isCSExpr(info *types.Info, e ast.Expr) bool {
	if !f.cs {
		return false
	}
	switch x := ast.Unparen(e).(type) {
	case *ast.Ident:
		v := localVarOf(info, x)
		return v != nil && f.csVars[v]
	case *ast.SelectorExpr:
		_, k := f.leafKind(info, x)
		return k == leafCS
	case *ast.SliceExpr:
		return f.isCSExpr(info, x.X)
	case *ast.CallExpr:
		n := allocName(calleeOf(info, x))
		return n == "Malloc" || n == "Bytes"
	}
	return false
}

// which local variables / parameters are slices with capacity, which interface-typed parameters
// are moved into a field, which allocator functions are called
func (t *tr) analyseCSVars(f *fnInfo) {
	info := f.pkg.TypesInfo
	isResult := func(v *types.Var) bool {
		for _, r := range f.results {
			if r == v {
				return true
			}
		}
		return false
	}
	mark := func(l ast.Expr) bool {
		v := localVarOf(info, l)
		if v == nil || !isByteSlice(v.Type()) || isResult(v) || f.csVars[v] {
			return false
		}
		f.csVars[v] = true
		return true
	}
	for changed := true; changed; {
		changed = false
		ast.Inspect(f.decl.Body, func(n ast.Node) bool {
			switch x := n.(type) {
			case *ast.AssignStmt:
				if len(x.Lhs) == len(x.Rhs) {
					for i := range x.Lhs {
						if f.isCSExpr(info, x.Rhs[i]) && mark(x.Lhs[i]) {
							changed = true
						}
					}
				}
			case *ast.ValueSpec:
				if len(x.Values) == len(x.Names) {
					for i, nm := range x.Names {
						if f.isCSExpr(info, x.Values[i]) && mark(nm) {
							changed = true
						}
					}
				}
			case *ast.RangeStmt:
				if _, k := f.leafKind(info, x.X); k == leafCSL && x.Value != nil && x.Tok == token.DEFINE {
					if mark(x.Value) {
						changed = true
					}
				}
			case *ast.CallExpr:
				if id, ok := ast.Unparen(x.Fun).(*ast.Ident); ok && id.Name == "cap" && len(x.Args) == 1 {
					if _, isB := info.Uses[id].(*types.Builtin); isB && mark(x.Args[0]) {
						changed = true
					}
				}
			case *ast.CompositeLit:
				// S{f: p}: a parameter that becomes a []byte field has a capacity; an interface-typed
				// parameter that becomes an interface-typed field is the state of that object
				e, _ := ptrElem(f.recvStruct.Type())
				if !types.Identical(info.TypeOf(x), e) {
					return true
				}
				for _, el := range x.Elts {
					kv, ok := el.(*ast.KeyValueExpr)
					if !ok {
						continue
					}
					kid, ok := kv.Key.(*ast.Ident)
					if !ok {
						continue
					}
					lv := f.leafByPath([]string{kid.Name})
					if lv == nil {
						continue
					}
					switch leafInfos[lv].kind {
					case leafCS:
						if mark(kv.Value) {
							changed = true
						}
					case leafAbs:
						if v := localVarOf(info, kv.Value); v != nil && isAbstractType(v.Type()) && f.movedTo[v] == nil {
							for _, p := range f.params {
								if p == v {
									f.movedTo[v] = lv
								}
							}
						}
					}
				}
			}
			return true
		})
	}
	ast.Inspect(f.decl.Body, func(n ast.Node) bool {
		if call, ok := n.(*ast.CallExpr); ok {
			if fn := calleeOf(info, call); fn != nil && allocName(fn) != "" {
				t.ensureAlloc(f).addMethod(allocName(fn), fn.Origin())
			}
		}
		return true
	})
}

// a callee's objects that are fields of the common receiver, and its allocator, are the caller's
func (t *tr) mapCS(f, callee *fnInfo, x *ast.CallExpr) {
	if callee == f || !f.cs || !callee.cs {
		return
	}
	if callee.allocRoot != nil {
		r := t.ensureAlloc(f)
		for _, m := range callee.allocRoot.methods {
			r.addMethod(m.path, m.fn)
		}
	}
	sel, ok := ast.Unparen(x.Fun).(*ast.SelectorExpr)
	if !ok {
		return
	}
	if p, ok := f.recvPath(f.pkg.TypesInfo, sel.X); !ok || len(p) != 0 {
		return
	}
	if f.recvStruct == nil || callee.recvStruct == nil || !types.Identical(f.recvStruct.Type(), callee.recvStruct.Type()) {
		return
	}
	for lv, r := range callee.fieldRoots {
		if mine := f.fieldRoots[lv]; mine != nil {
			for _, m := range r.methods {
				mine.addMethod(m.path, m.fn)
			}
		}
	}
}

// ---------- types and names ----------

func leafTypeName(k int) string {
	switch k {
	case leafCS:
		return "gcslice"
	case leafCSL:
		return "gcslist"
	case leafArr:
		return "(list Z)"
	}
	return ""
}

func (c *fctx) leafCoqType(n ast.Node, fv *types.Var) string {
	if li := leafInfos[fv]; li != nil && c.f.cs {
		if li.kind == leafAbs {
			return c.f.fieldRoots[fv].stName()
		}
		if s := leafTypeName(li.kind); s != "" {
			return s
		}
	}
	return c.coqType(n, fv.Type())
}

func (c *fctx) csVarType(v *cvar) (string, bool) {
	if !c.f.cs || v.isnil {
		return "", false
	}
	if v.field != nil {
		if li := leafInfos[v.field]; li != nil {
			if s := leafTypeName(li.kind); s != "" {
				return s, true
			}
		}
		return "", false
	}
	if rv, ok := v.root.(*types.Var); ok {
		if c.f.csVars[rv] {
			return "gcslice", true
		}
		if lv := c.f.movedTo[rv]; lv != nil {
			return c.f.fieldRoots[lv].stName(), true
		}
	}
	return "", false
}

// the zero value of a local variable
func (c *fctx) zeroVar(n ast.Node, v *types.Var) string {
	if c.f.cs && c.f.csVars[v] {
		return "gcs_nil"
	}
	return c.zero(n, v.Type())
}

func (c *fctx) isCS(e ast.Expr) bool { return c.f.isCSExpr(c.info, e) }

// ---------- expressions ----------

// csTerm translates an expression that denotes a slice with capacity (type gcslice)
func (c *fctx) csTerm(e ast.Expr) (pre []string, term string) {
	switch x := ast.Unparen(e).(type) {
	case *ast.Ident:
		if isNilIdent(c.info, x) {
			return nil, "gcs_nil"
		}
		if v := localVarOf(c.info, x); v != nil && c.f.csVars[v] {
			return nil, c.readVar(c.nameOf(v))
		}
	case *ast.SelectorExpr:
		if lv, k := c.f.leafKind(c.info, x); k == leafCS {
			c.readMut = true
			return c.recvCheck(x.X), c.readVar(c.fieldName(c.f.recvStruct, lv))
		}
	case *ast.SliceExpr:
		if x.Slice3 {
			c.failf(e, "three-index slice expression")
		}
		if !c.isCS(x.X) {
			break
		}
		p, a := c.csTerm(x.X)
		lo, hi := "0", "(gcs_len "+a+")"
		if x.Low != nil {
			var p1 []string
			p1, lo = c.expr(x.Low)
			p = append(p, p1...)
		}
		if x.High != nil {
			var p2 []string
			p2, hi = c.expr(x.High)
			p = append(p, p2...)
		}
		if x.Low == nil && x.High == nil {
			return p, a
		}
		t := c.fresh()
		return append(p, fmt.Sprintf("do %s <- gcs_slice %s %s %s;", t, a, lo, hi)), t
	case *ast.CallExpr:
		if n := allocName(c.calleeFunc(x)); n == "Malloc" || n == "Bytes" {
			p, ts := c.allocCall(x)
			return p, ts[0]
		}
	}
	c.failf(e, "%s is not a slice with capacity (nil, a []byte field of the receiver, a variable such a value flows into, a slice of one, a fresh allocation)", types.ExprString(e))
	return nil, ""
}

// the hook of expr: a slice with capacity where a value is wanted is its contents; a[i] for an
// array leaf; s[i] for a slice with capacity
func (c *fctx) csExpr(e ast.Expr) (pre []string, term string, ok bool) {
	if !c.f.cs {
		return nil, "", false
	}
	switch x := ast.Unparen(e).(type) {
	case *ast.Ident, *ast.SliceExpr:
		if c.isCS(e) {
			p, t := c.csTerm(e)
			return p, "(gcs_bytes " + t + ")", true
		}
	case *ast.SelectorExpr:
		lv, k := c.f.leafKind(c.info, x)
		switch k {
		case leafCS:
			p, t := c.csTerm(e)
			return p, "(gcs_bytes " + t + ")", true
		case leafCSL, leafArr, leafAbs:
			c.failf(e, "the field %s used as a value (only len, range, append, nil tests, a[i], method calls are translated)", strings.Join(leafInfos[lv].path, "."))
		}
	case *ast.IndexExpr:
		if lv, k := c.f.leafKind(c.info, x.X); k == leafArr {
			c.readMut = true
			p := c.recvCheck(ast.Unparen(x.X).(*ast.SelectorExpr).X)
			p2, i := c.expr(x.Index)
			t := c.fresh()
			return append(append(p, p2...), fmt.Sprintf("do %s <- gelem %s %s;", t, c.readVar(c.fieldName(c.f.recvStruct, lv)), i)), t, true
		}
		if c.isCS(x.X) {
			p, a := c.csTerm(x.X)
			p2, i := c.expr(x.Index)
			t := c.fresh()
			return append(append(p, p2...), fmt.Sprintf("do %s <- gindex (gcs_bytes %s) %s;", t, a, i)), t, true
		}
	case *ast.CallExpr:
		if n := allocName(c.calleeFunc(x)); n == "Malloc" || n == "Bytes" {
			p, t := c.csTerm(e)
			return p, "(gcs_bytes " + t + ")", true
		}
	}
	return nil, "", false
}

// x == nil / x != nil for a slice with capacity or a [][]byte field: the term for `== nil`
func (c *fctx) csNilTest(x *ast.BinaryExpr) (pre []string, term string, ok bool) {
	if !c.f.cs {
		return nil, "", false
	}
	var other ast.Expr
	switch {
	case isNilIdent(c.info, x.Y):
		other = x.X
	case isNilIdent(c.info, x.X):
		other = x.Y
	default:
		return nil, "", false
	}
	if c.isCS(other) {
		p, t := c.csTerm(other)
		return p, "(gcs_is_nil " + t + ")", true
	}
	if lv, k := c.f.leafKind(c.info, other); k == leafCSL {
		c.readMut = true
		p := c.recvCheck(ast.Unparen(other).(*ast.SelectorExpr).X)
		return p, "(gcsl_is_nil " + c.readVar(c.fieldName(c.f.recvStruct, lv)) + ")", true
	}
	return nil, "", false
}

// the variable a store destination is rooted in: `X`, `X[a:]`, `X[:b]`, `X[a:b]` for a variable or
// field X that is a slice with capacity; returns the bindings, the Coq name of X, lo and hi
func (c *fctx) csDest(e ast.Expr) (pre []string, name, lo, hi string, ok bool) {
	e = ast.Unparen(e)
	base := e
	var se *ast.SliceExpr
	if s, isSlice := e.(*ast.SliceExpr); isSlice {
		if s.Slice3 {
			c.failf(e, "three-index slice expression")
		}
		se, base = s, ast.Unparen(s.X)
	}
	switch b := base.(type) {
	case *ast.Ident:
		v := localVarOf(c.info, b)
		if v == nil || !c.f.csVars[v] {
			return nil, "", "", "", false
		}
		if c.f.csReadOnly(c.info, v) {
			c.failf(e, "store into %s, a range variable over a [][]byte field (a read-only view of the element)", b.Name)
		}
		name = c.nameOf(v)
	case *ast.SelectorExpr:
		lv, k := c.f.leafKind(c.info, b)
		if k != leafCS {
			return nil, "", "", "", false
		}
		c.readMut = true
		pre = c.recvCheck(b.X)
		name = c.fieldName(c.f.recvStruct, lv)
	default:
		return nil, "", "", "", false
	}
	lo, hi = "0", "(gcs_len "+c.readVar(name)+")"
	if se != nil && se.Low != nil {
		var p []string
		p, lo = c.expr(se.Low)
		pre = append(pre, p...)
	}
	if se != nil && se.High != nil {
		var p []string
		p, hi = c.expr(se.High)
		pre = append(pre, p...)
	}
	return pre, name, lo, hi, true
}

// a range variable over a [][]byte field
func (f *fnInfo) csReadOnly(info *types.Info, v *types.Var) bool {
	ro := false
	ast.Inspect(f.decl.Body, func(n ast.Node) bool {
		if rs, ok := n.(*ast.RangeStmt); ok && rs.Value != nil {
			if localVarOf(info, rs.Value) == v {
				ro = true
			}
		}
		return true
	})
	return ro
}

// mcache.Malloc(size[, capacity]) / dirtmake.Bytes(len, cap) / mcache.Free(b)
func (c *fctx) allocCall(x *ast.CallExpr) (pre []string, terms []string) {
	fn := c.calleeFunc(x)
	name := allocName(fn)
	root := c.f.allocRoot
	if root == nil {
		c.failf(x, "internal: allocator call without an allocator object")
	}
	if x.Ellipsis.IsValid() {
		c.failf(x, "variadic call")
	}
	st := c.nameOf(root.v)
	switch name {
	case "Malloc", "Bytes":
		if len(x.Args) < 1 || len(x.Args) > 2 {
			c.failf(x, "%s with %d arguments", fn.Name(), len(x.Args))
		}
		p, ts := c.exprs(x.Args)
		if len(ts) == 1 {
			ts = append(ts, ts[0]) // Malloc(size): the capacity asked for is the size
		}
		c.noteMut(x)
		t := c.fresh()
		cur := c.readVar(st)
		pre = append(p, fmt.Sprintf("do (%s, %s) <- %s %s %s %s;", c.assignVar(st), t, root.mName(name), cur, ts[0], ts[1]))
		return pre, []string{t}
	case "Free":
		if len(x.Args) != 1 {
			c.failf(x, "%s with %d arguments", fn.Name(), len(x.Args))
		}
		p, a := c.csTerm(x.Args[0])
		c.noteMut(x)
		cur := c.readVar(st)
		return append(p, fmt.Sprintf("do %s <- %s %s %s;", c.assignVar(st), root.mName(name), cur, a)), nil
	}
	c.failf(x, "internal: allocator function %s", name)
	return nil, nil
}

// the model types of the allocator's methods
func allocMethodType(r *absRoot, name string) string {
	st := r.stName()
	switch name {
	case "Malloc", "Bytes":
		return st + " -> Z -> Z -> res (" + st + " * gcslice)"
	case "Free":
		return st + " -> gcslice -> res " + st
	}
	return ""
}

// the hook of call: len / cap / copy on slices with capacity, the allocator
func (c *fctx) csCall(x *ast.CallExpr) (pre []string, terms []string, ok bool) {
	if !c.f.cs {
		return nil, nil, false
	}
	if id, isId := ast.Unparen(x.Fun).(*ast.Ident); isId {
		if _, isB := c.info.Uses[id].(*types.Builtin); isB {
			switch id.Name {
			case "len", "cap":
				if len(x.Args) != 1 {
					return nil, nil, false
				}
				a := x.Args[0]
				if c.isCS(a) {
					p, t := c.csTerm(a)
					return p, []string{"(gcs_" + id.Name + " " + t + ")"}, true
				}
				if lv, k := c.f.leafKind(c.info, a); k == leafCSL || k == leafArr {
					if id.Name == "cap" && k == leafCSL {
						c.failf(x, "cap of a [][]byte field (its capacity is not modelled)")
					}
					c.readMut = true
					p := c.recvCheck(ast.Unparen(a).(*ast.SelectorExpr).X)
					n := c.readVar(c.fieldName(c.f.recvStruct, lv))
					if k == leafCSL {
						return p, []string{"(gcsl_len " + n + ")"}, true
					}
					return p, []string{"(glen " + n + ")"}, true
				}
				if id.Name == "cap" {
					c.failf(x, "cap of %s, which is not a slice with capacity", types.ExprString(a))
				}
			case "copy":
				if len(x.Args) != 2 {
					return nil, nil, false
				}
				p1, name, lo, hi, isCS := c.csDest(x.Args[0])
				if !isCS {
					return nil, nil, false
				}
				if !isBytesLike(c.info.TypeOf(x.Args[1])) {
					c.failf(x, "copy from %s", c.info.TypeOf(x.Args[1]))
				}
				c.noteMut(x)
				p2, src := c.expr(x.Args[1])
				n := c.fresh()
				cur := c.readVar(name)
				pre = append(append(p1, p2...), fmt.Sprintf("do (%s, %s) <- gcs_copy %s %s %s %s;", c.assignVar(name), n, cur, lo, hi, src))
				return pre, []string{n}, true
			case "append":
				if len(x.Args) >= 1 {
					if _, k := c.f.leafKind(c.info, x.Args[0]); k == leafCSL {
						c.failf(x, "append to a [][]byte field outside `f = append(f, s)`")
					}
					if c.isCS(x.Args[0]) {
						c.failf(x, "append to a slice with capacity")
					}
				}
			}
			return nil, nil, false
		}
	}
	if n := allocName(c.calleeFunc(x)); n != "" {
		p, ts := c.allocCall(x)
		if n != "Free" {
			ts = []string{"(gcs_bytes " + ts[0] + ")"}
		}
		return p, ts, true
	}
	return nil, nil, false
}

// ---------- assignments ----------

func (c *fctx) csAssign(s *ast.AssignStmt) ([]string, bool) {
	if !c.f.cs || len(s.Lhs) != 1 || len(s.Rhs) != 1 || (s.Tok != token.ASSIGN && s.Tok != token.DEFINE) {
		return nil, false
	}
	l, r := ast.Unparen(s.Lhs[0]), s.Rhs[0]
	// *p = S{...}
	if st, ok := l.(*ast.StarExpr); ok && c.isRecv(st.X) {
		cl, ok := ast.Unparen(r).(*ast.CompositeLit)
		if !ok {
			c.failf(s, "assignment to *%s of anything but a composite literal", c.f.recvStruct.Name())
		}
		return c.csStructAssign(s, cl), true
	}
	// a[i] = x for an array leaf
	if ix, ok := l.(*ast.IndexExpr); ok {
		if lv, k := c.f.leafKind(c.info, ix.X); k == leafArr {
			c.readMut = true
			pre := c.recvCheck(ast.Unparen(ix.X).(*ast.SelectorExpr).X)
			p1, i := c.expr(ix.Index)
			p2, v := c.expr(r)
			name := c.fieldName(c.f.recvStruct, lv)
			cur := c.readVar(name)
			pre = append(append(pre, p1...), p2...)
			return append(pre, fmt.Sprintf("do %s <- garr_set %s %s %s;", c.assignVar(name), cur, i, v)), true
		}
		if c.isCS(ix.X) {
			pre, name, _, _, ok := c.csDest(ix.X)
			if !ok {
				c.failf(s, "indexed assignment to %s", types.ExprString(ix.X))
			}
			p1, i := c.expr(ix.Index)
			p2, v := c.expr(r)
			t := c.fresh()
			cur := c.readVar(name)
			pre = append(append(pre, p1...), p2...)
			// s[i] = x needs i < len(s): the index is checked against the contents, the store is a 1-byte copy
			pre = append(pre, fmt.Sprintf("do _ <- gindex (gcs_bytes %s) %s;", cur, i))
			return append(pre, fmt.Sprintf("do (%s, %s) <- gcs_copy %s %s (%s + 1) [gbyte %s];", c.assignVar(name), t, cur, i, i, v)), true
		}
		return nil, false
	}
	// the left-hand side is a slice with capacity / a [][]byte leaf
	isCSLhs := false
	switch y := l.(type) {
	case *ast.Ident:
		if y.Name != "_" {
			if v := localVarOf(c.info, y); v != nil && c.f.csVars[v] {
				isCSLhs = true
			}
		}
	case *ast.SelectorExpr:
		lv, k := c.f.leafKind(c.info, y)
		switch k {
		case leafCS:
			isCSLhs = true
		case leafCSL:
			name := c.fieldName(c.f.recvStruct, lv)
			if isNilIdent(c.info, r) {
				return []string{c.bindLine(s.Lhs[0], c.assignVar(name), "gcsl_nil")}, true
			}
			if call, ok := ast.Unparen(r).(*ast.CallExpr); ok && len(call.Args) == 2 && !call.Ellipsis.IsValid() {
				if id, ok := ast.Unparen(call.Fun).(*ast.Ident); ok && id.Name == "append" {
					if _, isB := c.info.Uses[id].(*types.Builtin); isB {
						if lv2, _ := c.f.leafKind(c.info, call.Args[0]); lv2 == lv {
							c.readMut = true
							pre := c.recvCheck(y.X)
							p, a := c.csTerm(call.Args[1])
							cur := c.readVar(name)
							pre = append(pre, p...)
							return append(pre, c.bindLine(s.Lhs[0], c.assignVar(name), fmt.Sprintf("(gcsl_append %s %s)", cur, a))), true
						}
					}
				}
			}
			c.failf(s, "assignment to the [][]byte field %s (only f = nil and f = append(f, s) are translated)", strings.Join(leafInfos[lv].path, "."))
		case leafArr, leafAbs:
			c.failf(s, "assignment to the field %s as a whole", strings.Join(leafInfos[lv].path, "."))
		}
	}
	if !isCSLhs {
		return nil, false
	}
	pre, t := c.csTerm(r)
	name := c.lhsName(s.Lhs[0])
	return append(pre, c.bindLine(s.Lhs[0], name, t)), true
}

// *p = S{f: v, ...}: every leaf is assigned (the zero value where the literal is silent)
func (c *fctx) csStructAssign(s *ast.AssignStmt, cl *ast.CompositeLit) []string {
	e, _ := ptrElem(c.f.recvStruct.Type())
	if !types.Identical(c.info.TypeOf(cl), e) {
		c.failf(s, "composite literal of type %s assigned to *%s", c.info.TypeOf(cl), c.f.recvStruct.Name())
	}
	given := map[string]ast.Expr{}
	for _, el := range cl.Elts {
		kv, ok := el.(*ast.KeyValueExpr)
		if !ok {
			c.failf(el, "composite literal without field names")
		}
		kid, ok := kv.Key.(*ast.Ident)
		if !ok {
			c.failf(el, "composite literal key %s", types.ExprString(kv.Key))
		}
		if c.f.leafByPath([]string{kid.Name}) == nil {
			c.failf(el, "composite literal gives the field %s, which is not a leaf (a nested struct)", kid.Name)
		}
		given[kid.Name] = kv.Value
	}
	var pre, vals []string
	// the values, in the order of the literal's elements (source order)
	valOf := map[*types.Var]string{}
	for _, el := range cl.Elts {
		kv := el.(*ast.KeyValueExpr)
		lv := c.f.leafByPath([]string{kv.Key.(*ast.Ident).Name})
		li := leafInfos[lv]
		switch li.kind {
		case leafCS:
			p, t := c.csTerm(kv.Value)
			pre = append(pre, p...)
			valOf[lv] = t
		case leafCSL:
			if !isNilIdent(c.info, kv.Value) {
				c.failf(el, "a [][]byte field can only be given nil")
			}
			valOf[lv] = "gcsl_nil"
		case leafAbs:
			v := localVarOf(c.info, kv.Value)
			if v == nil || c.f.movedTo[v] != lv {
				c.failf(el, "an interface-typed field can only be given an interface-typed parameter (which then stands for the state of that object)")
			}
			valOf[lv] = c.readVar(c.nameOf(v))
		case leafArr:
			c.failf(el, "an array field in a composite literal")
		default:
			p, t := c.exprAs(kv.Value, lv.Type())
			pre = append(pre, p...)
			valOf[lv] = t
		}
	}
	pre = append(pre, fmt.Sprintf("do _ <- gptr_check %s;", c.readVar(c.isnilName())))
	for _, lv := range c.f.recvFields {
		li := leafInfos[lv]
		v, ok := valOf[lv]
		if !ok {
			switch li.kind {
			case leafCS:
				v = "gcs_nil"
			case leafCSL:
				v = "gcsl_nil"
			case leafAbs:
				c.failf(s, "the composite literal must give the interface-typed field %s (a nil interface value has no state)", strings.Join(li.path, "."))
			case leafArr:
				v = fmt.Sprintf("(repeat 0 %d)", li.arrLen)
			default:
				v = c.zero(s, lv.Type())
			}
		}
		vals = append(vals, v)
	}
	for i, lv := range c.f.recvFields {
		// the values were evaluated before any leaf is assigned: they only mention parameters and constants
		pre = append(pre, fmt.Sprintf("let %s := %s in", c.assignVar(c.fieldName(c.f.recvStruct, lv)), vals[i]))
	}
	// a leaf read on the right would see an earlier let: refuse literals that read the receiver
	for _, el := range cl.Elts {
		bad := false
		ast.Inspect(el.(*ast.KeyValueExpr).Value, func(n ast.Node) bool {
			if id, ok := n.(*ast.Ident); ok && c.info.Uses[id] == c.f.recvStruct {
				bad = true
			}
			return true
		})
		if bad {
			c.failf(el, "the composite literal assigned to *%s reads %s", c.f.recvStruct.Name(), c.f.recvStruct.Name())
		}
	}
	return pre
}

// ---------- a window s[a:b] handed to a method that stores into its argument ----------

func (c *fctx) csMutArg(a ast.Expr) (pre []string, arg, pat string, post []string, ok bool) {
	if !c.f.cs {
		return nil, "", "", nil, false
	}
	pre, name, lo, hi, isCS := c.csDest(a)
	if !isCS {
		return nil, "", "", nil, false
	}
	o, sub, p := c.fresh(), c.fresh(), c.fresh()
	cur := c.readVar(name)
	pre = append(pre, fmt.Sprintf("let %s := %s in", o, lo))
	pre = append(pre, fmt.Sprintf("do %s <- gcs_slice %s %s %s;", sub, cur, o, hi))
	post = []string{fmt.Sprintf("let %s := gcs_splice %s %s %s in", c.assignVar(name), name, o, p)}
	return pre, "(gcs_bytes " + sub + ")", p, post, true
}

// ---------- p.f.M(...) for a translated method of a nested struct ----------

// the path below the caller's receiver of the struct the callee's receiver points to
func (c *fctx) subRecvCall(x *ast.CallExpr, callee *fnInfo) ([]string, bool) {
	if !c.f.cs || !callee.cs || callee.recvStruct == nil || c.f.recvStruct == nil {
		return nil, false
	}
	sel, ok := ast.Unparen(x.Fun).(*ast.SelectorExpr)
	if !ok {
		return nil, false
	}
	p, ok := c.f.recvPath(c.info, sel.X)
	if !ok || len(p) == 0 {
		return nil, false
	}
	ce, _ := ptrElem(callee.recvStruct.Type())
	if !types.Identical(c.info.TypeOf(sel.X), ce) {
		return nil, false
	}
	for _, lv := range callee.recvFields {
		if c.f.leafByPath(append(append([]string{}, p...), leafInfos[lv].path...)) == nil {
			return nil, false
		}
	}
	return p, true
}

func (c *fctx) subRecvLeaf(prefix []string, calleeLeaf *types.Var) *types.Var {
	return c.f.leafByPath(append(append([]string{}, prefix...), leafInfos[calleeLeaf].path...))
}

// ---------- loops: what an iteration may assign ----------

func (c *fctx) csCarriedCall(x *ast.CallExpr, add func(ast.Expr), set map[string]bool) {
	if !c.f.cs {
		return
	}
	fn := c.calleeFunc(x)
	if fn == nil {
		return
	}
	if allocName(fn) != "" && c.f.allocRoot != nil {
		set[c.nameOf(c.f.allocRoot.v)] = true
	}
	if callee := c.t.byObj[fn.Origin()]; callee != nil {
		if callee.allocRoot != nil && c.f.allocRoot != nil {
			set[c.nameOf(c.f.allocRoot.v)] = true
		}
		if p, ok := c.subRecvCall(x, callee); ok {
			for _, lv := range callee.recvFields {
				set[c.fieldName(c.f.recvStruct, c.subRecvLeaf(p, lv))] = true
			}
		}
		return
	}
	// a method of an abstract object that stores into a window
	for i, a := range x.Args {
		if methodStoresInto(fn, i) {
			b := ast.Unparen(a)
			if se, ok := b.(*ast.SliceExpr); ok {
				b = ast.Unparen(se.X)
			}
			add(b)
		}
	}
}

// ---------- for _, x := range <[][]byte leaf> / <array leaf> ----------

func (c *fctx) csRange(depth int, s *ast.RangeStmt, rest func(int) string) (string, bool) {
	if !c.f.cs {
		return "", false
	}
	lv, k := c.f.leafKind(c.info, s.X)
	if k != leafCSL && k != leafArr {
		return "", false
	}
	if s.Tok != token.DEFINE && (s.Key != nil || s.Value != nil) {
		c.failf(s, "range statement that assigns existing variables")
	}
	c.readMut, c.nestedMut, c.topCall = false, false, nil
	name := c.fieldName(c.f.recvStruct, lv)
	pre := c.recvCheck(ast.Unparen(s.X).(*ast.SelectorExpr).X)
	xs := c.readVar(name)
	elemT := "Z"
	if k == leafCSL {
		xs, elemT = "(gcsl_items "+xs+")", "gcslice"
	}
	fr := c.loopCache[s.Body]
	if fr == nil {
		fr = c.translateRangeList(s, name, elemT)
		c.loopCache[s.Body] = fr
	}
	for _, n := range fr.free {
		c.readVar(n)
	}
	for _, n := range fr.carried {
		c.readVar(n)
		c.assignVar(n)
	}
	call := c.loopCall(fr, xs+" 0")
	t, r := c.fresh(), c.fresh()
	out := c.lines(depth, pre)
	out += ind(depth) + fmt.Sprintf("do %s <- %s;\n", t, call)
	out += ind(depth) + fmt.Sprintf("match %s with\n", t)
	if len(c.loops) == 0 {
		out += ind(depth) + fmt.Sprintf("| inr %s => Ok %s\n", r, r)
	} else {
		out += ind(depth) + fmt.Sprintf("| inr %s => Ok (@@INR:%s@@%s)\n", r, c.loops[len(c.loops)-1].name, r)
	}
	pat := "_"
	if len(fr.carried) > 0 {
		pat = tuple(fr.carried)
	}
	out += ind(depth) + fmt.Sprintf("| inl %s =>\n", pat)
	out += rest(depth + 1)
	out += ind(depth) + "end\n"
	return out, true
}

func (c *fctx) translateRangeList(s *ast.RangeStmt, listName, elemT string) *loopFrame {
	c.nloop++
	fr := &loopFrame{name: fmt.Sprintf("%s_loop%d", c.f.coqName, c.nloop), lo: s.Pos(), hi: s.End(), reads: map[string]bool{}, carriedSet: map[string]bool{}, canExit: true}
	fr.carried = c.carriedOfNodes(fr, []ast.Node{s.Body})
	for _, n := range fr.carried {
		fr.carriedSet[n] = true
	}
	if fr.carriedSet[listName] {
		c.failf(s, "%s is assigned inside its own range statement", types.ExprString(s.X))
	}
	carriedTuple := tuple(fr.carried)
	savedLoops, savedBrk := c.loops, c.brk
	c.loops = append(c.loops[:len(c.loops):len(c.loops)], fr)
	exit := func(d int) string { return ind(d) + "Ok (inl " + carriedTuple + ")\n" }
	c.brk = append(c.brk[:len(c.brk):len(c.brk)], exit)
	cont := func(d int) string { return ind(d) + "@@CALL:" + fr.name + "@@\n" }
	c.conts = append(c.conts, cont)
	var head []string
	if id, ok := s.Key.(*ast.Ident); ok && id.Name != "_" {
		head = append(head, fmt.Sprintf("let %s := i_ in", c.nameOf(c.info.Defs[id])))
	}
	if s.Value != nil {
		id, ok := s.Value.(*ast.Ident)
		if !ok {
			c.failf(s, "range value %s", types.ExprString(s.Value))
		}
		if id.Name != "_" {
			head = append(head, fmt.Sprintf("let %s := x_ in", c.nameOf(c.info.Defs[id])))
		}
	}
	body := c.lines(2, head) + c.block(2, s.Body.List, cont)
	c.conts = c.conts[:len(c.conts)-1]
	c.loops, c.brk = savedLoops, savedBrk
	if fr.usesRec {
		c.failf(s, "recursive call inside a range statement over a field")
	}
	for n := range fr.reads {
		if !fr.carriedSet[n] {
			fr.free = append(fr.free, n)
		}
	}
	c.sortVars(fr.free)
	binders := append(c.absBinders(c.f), c.extBinders(c.f)...)
	if c.f.needsRFuel {
		binders = append(binders, "(rfuel : nat)")
	}
	if c.f.needsFuel {
		binders = append(binders, "(fuel : nat)")
	}
	for _, g := range c.f.globals {
		if isIntTable(g.Type()) {
			binders = append(binders, fmt.Sprintf("(%s : list Z)", globalName(g)))
		} else {
			binders = append(binders, fmt.Sprintf("(%s : %s)", globalName(g), c.coqType(s, g.Type())))
		}
	}
	for _, n := range fr.free {
		binders = append(binders, c.binder(s, n))
	}
	binders = append(binders, "(xs : list "+elemT+") (i_ : Z)")
	var cts []string
	for _, n := range fr.carried {
		binders = append(binders, c.binder(s, n))
		cts = append(cts, c.varCoqType(s, c.vars[n]))
	}
	ct := "unit"
	if len(cts) > 0 {
		ct = strings.Join(cts, " * ")
	}
	self := c.loopCall(fr, "xs (i_ + 1)")
	body = strings.ReplaceAll(body, "@@CALL:"+fr.name+"@@", self)
	body = strings.ReplaceAll(body, "@@INR:"+fr.name+"@@", "inr ")
	var sb strings.Builder
	fmt.Fprintf(&sb, "(* a range statement of %s over the field %s (evaluated once, before the loop): xs is what is left of it, i_ the index", c.f.spec.name, types.ExprString(s.X))
	if len(fr.carried) > 0 {
		fmt.Fprintf(&sb, "; inl: the loop ended, with the final %s", strings.Join(fr.carried, ", "))
	}
	fmt.Fprintf(&sb, "; inr: the function returned *)\n")
	fmt.Fprintf(&sb, "Fixpoint %s %s {struct xs} : res ((%s) + (%s)) :=\n  match xs with\n  | [] => Ok (inl %s)\n  | x_ :: xs =>\n%s  end.\n",
		fr.name, strings.Join(binders, " "), ct, c.f.resType, carriedTuple, body)
	c.f.loopText = append(c.f.loopText, sb.String())
	fr.done = true
	return fr
}

// ---------- the sharing discipline ----------
//
// A slice with capacity is a VALUE in the generated definition.  That is sound as long as no store
// goes through one variable while another live variable refers to the same backing array.  Such
// sharing arises from  Y = E(X)  (E a slice of X, X a different variable),  L = append(L, X)  and
// S{f: p}.  checkSharing walks the body in source order:
//   - X local and never mentioned after the statement (nor earlier in an enclosing loop): the
//     statement MOVES X, nothing is shared;
//   - otherwise X and Y are shared until X or Y is assigned as a whole by a statement of the same or
//     an enclosing block (one that every path from the sharing statement passes);
//   - while X and Y are shared, no statement may store into either (copy destination, window handed
//     to a storing method, a call of a method of the same receiver), and the function must not
//     return with two FIELDS shared.
//
// Range variables over a [][]byte field are read-only views.  Slices handed out to the caller
// ([]byte results) are not tracked: aliasing between the internal buffer and them is the subject
// of the heap-level models (property C09), not of this translation.
type shareFact struct {
	x, y  string // Coq names
	block *ast.BlockStmt
	xLeaf bool
	yLeaf bool
}

func (c *fctx) checkSharing() {
	f := c.f
	if !f.cs {
		return
	}
	info := c.info
	// the variable an expression is rooted in: (name, isLeaf)
	var rootOf func(e ast.Expr) (string, bool, *types.Var)
	rootOf = func(e ast.Expr) (string, bool, *types.Var) {
		switch x := ast.Unparen(e).(type) {
		case *ast.Ident:
			if v := localVarOf(info, x); v != nil && f.csVars[v] {
				return "v:" + v.Name() + fmt.Sprint(v.Pos()), false, v
			}
		case *ast.SelectorExpr:
			if lv, k := f.leafKind(info, x); k == leafCS || k == leafCSL {
				return "l:" + lv.Name(), true, nil
			}
		case *ast.SliceExpr:
			return rootOf(x.X)
		}
		return "", false, nil
	}
	var facts []shareFact
	parents := map[ast.Node]ast.Node{}
	var stack []ast.Node
	ast.Inspect(f.decl.Body, func(n ast.Node) bool {
		if n == nil {
			stack = stack[:len(stack)-1]
			return true
		}
		if len(stack) > 0 {
			parents[n] = stack[len(stack)-1]
		}
		stack = append(stack, n)
		return true
	})
	blockOf := func(n ast.Node) *ast.BlockStmt {
		for p := parents[n]; p != nil; p = parents[p] {
			if b, ok := p.(*ast.BlockStmt); ok {
				return b
			}
		}
		return f.decl.Body
	}
	encloses := func(outer *ast.BlockStmt, inner *ast.BlockStmt) bool {
		for n := ast.Node(inner); n != nil; n = parents[n] {
			if n == outer {
				return true
			}
		}
		return false
	}
	inLoopDeclaredOutside := func(n ast.Node, v *types.Var) bool {
		for p := parents[n]; p != nil; p = parents[p] {
			switch l := p.(type) {
			case *ast.ForStmt:
				if v.Pos() < l.Pos() || v.Pos() >= l.End() {
					return true
				}
			case *ast.RangeStmt:
				if v.Pos() < l.Pos() || v.Pos() >= l.End() {
					return true
				}
			}
		}
		return false
	}
	usedAfter := func(v *types.Var, pos token.Pos) bool {
		used := false
		ast.Inspect(f.decl.Body, func(n ast.Node) bool {
			if id, ok := n.(*ast.Ident); ok && id.Pos() >= pos && info.Uses[id] == v {
				used = true
			}
			return true
		})
		return used
	}
	share := func(stmt ast.Node, src ast.Expr, dst string, dstLeaf bool) {
		x, xLeaf, xv := rootOf(src)
		if x == "" || x == dst {
			return
		}
		if xv != nil && !usedAfter(xv, stmt.End()) && !inLoopDeclaredOutside(stmt, xv) {
			return // a move
		}
		facts = append(facts, shareFact{x: x, y: dst, block: blockOf(stmt), xLeaf: xLeaf, yLeaf: dstLeaf})
	}
	kill := func(stmt ast.Node, name string) {
		b := blockOf(stmt)
		var keep []shareFact
		for _, sf := range facts {
			if (sf.x == name || sf.y == name) && encloses(b, sf.block) {
				continue
			}
			keep = append(keep, sf)
		}
		facts = keep
	}
	store := func(n ast.Node, e ast.Expr) {
		name, _, _ := rootOf(e)
		for _, sf := range facts {
			if name != "" && (sf.x == name || sf.y == name) {
				c.failf(n, "store into %s while it may share its backing array with another live variable (values are not references: sharing discipline)", types.ExprString(e))
			}
		}
	}
	var walk func(n ast.Node)
	walk = func(n ast.Node) {
		switch x := n.(type) {
		case nil:
			return
		case *ast.BlockStmt:
			for _, st := range x.List {
				walk(st)
			}
		case *ast.IfStmt:
			walk(x.Init)
			walkExpr(c, x.Cond, store)
			walk(x.Body)
			if x.Else != nil {
				walk(x.Else)
			}
		case *ast.ForStmt:
			walk(x.Init)
			for pass := 0; pass < 2; pass++ { // twice: a store early in the body follows a share late in it
				if x.Cond != nil {
					walkExpr(c, x.Cond, store)
				}
				walk(x.Body)
				walk(x.Post)
			}
		case *ast.RangeStmt:
			for pass := 0; pass < 2; pass++ {
				walk(x.Body)
			}
		case *ast.SwitchStmt:
			walk(x.Init)
			for _, cc := range x.Body.List {
				for _, st := range cc.(*ast.CaseClause).Body {
					walk(st)
				}
			}
		case *ast.LabeledStmt:
			walk(x.Stmt)
		case *ast.ReturnStmt:
			for _, r := range x.Results {
				walkExpr(c, r, store)
			}
			for _, sf := range facts {
				if sf.xLeaf && sf.yLeaf {
					c.failf(n, "the function can return while two fields of the receiver share a backing array (sharing discipline)")
				}
			}
		case *ast.AssignStmt:
			for _, r := range x.Rhs {
				walkExpr(c, r, store)
			}
			for _, l := range x.Lhs {
				if ix, ok := ast.Unparen(l).(*ast.IndexExpr); ok {
					store(n, ix.X)
				}
			}
			if len(x.Lhs) == len(x.Rhs) {
				for i, l := range x.Lhs {
					dst, dstLeaf, _ := rootOf(l)
					if _, isSlice := ast.Unparen(l).(*ast.SliceExpr); dst == "" || isSlice {
						continue
					}
					kill(n, dst)
					r := ast.Unparen(x.Rhs[i])
					if call, ok := r.(*ast.CallExpr); ok {
						if id, ok := ast.Unparen(call.Fun).(*ast.Ident); ok && id.Name == "append" && len(call.Args) == 2 {
							share(n, call.Args[1], dst, dstLeaf)
						}
						continue
					}
					share(n, r, dst, dstLeaf)
				}
			}
			// *p = S{buf: q}
			for _, r := range x.Rhs {
				if cl, ok := ast.Unparen(r).(*ast.CompositeLit); ok {
					for _, el := range cl.Elts {
						if kv, ok := el.(*ast.KeyValueExpr); ok {
							if kid, ok := kv.Key.(*ast.Ident); ok {
								if lv := f.leafByPath([]string{kid.Name}); lv != nil && leafInfos[lv].kind == leafCS {
									kill(n, "l:"+lv.Name())
									share(n, kv.Value, "l:"+lv.Name(), true)
								}
							}
						}
					}
				}
			}
		case *ast.DeclStmt:
			if gd, ok := x.Decl.(*ast.GenDecl); ok {
				for _, sp := range gd.Specs {
					if vs, ok := sp.(*ast.ValueSpec); ok && len(vs.Values) == len(vs.Names) {
						for i, nm := range vs.Names {
							walkExpr(c, vs.Values[i], store)
							if dst, _, _ := rootOf(nm); dst != "" {
								share(n, vs.Values[i], dst, false)
							}
						}
					}
				}
			}
		case *ast.ExprStmt:
			walkExpr(c, x.X, store)
		case *ast.IncDecStmt, *ast.BranchStmt, *ast.EmptyStmt:
		default:
			c.failf(n, "statement %T in a method of a struct with slices with capacity", n)
		}
	}
	walk(f.decl.Body)
	for _, sf := range facts {
		if sf.xLeaf && sf.yLeaf {
			c.failf(f.decl, "the function can end while two fields of the receiver share a backing array (sharing discipline)")
		}
	}
}

// the stores an expression performs: copy destinations, windows handed to storing methods, calls of
// methods of the same receiver (which may store into any field)
func walkExpr(c *fctx, e ast.Expr, store func(n ast.Node, e ast.Expr)) {
	if e == nil {
		return
	}
	ast.Inspect(e, func(n ast.Node) bool {
		call, ok := n.(*ast.CallExpr)
		if !ok {
			return true
		}
		if id, ok := ast.Unparen(call.Fun).(*ast.Ident); ok {
			if _, isB := c.info.Uses[id].(*types.Builtin); isB && id.Name == "copy" && len(call.Args) == 2 {
				store(n, call.Args[0])
			}
			return true
		}
		fn := c.calleeFunc(call)
		if fn == nil {
			return true
		}
		for i, a := range call.Args {
			if methodStoresInto(fn, i) {
				store(n, a)
			}
		}
		if callee := c.t.byObj[fn.Origin()]; callee != nil && c.sameRecvCall(call, callee) {
			for _, lv := range c.f.recvFields {
				if k := leafInfos[lv].kind; k == leafCS || k == leafCSL {
					store(n, &ast.SelectorExpr{X: ast.NewIdent(c.f.recvStruct.Name()), Sel: ast.NewIdent(lv.Name())})
				}
			}
		}
		return true
	})
}

func phase4Header() string {
	return `   Phase 4 (bufiox: slices with capacity, struct state, the allocator):
     * a method of *S for a struct S listed in csStructs (bufiox.DefaultReader, DefaultWriter,
       maxSizeStats) takes the nil flag v_<p>_isnil and one binder per LEAF of S (nested structs are
       flattened: v_<p>_<f>_<g>) and returns the final leaves first, like the pointer receivers of
       phase 2; *p = S{...} assigns every leaf (the zero value where the literal is silent);
     * a []byte leaf is a SLICE WITH CAPACITY, GoSem.gcslice = option (bytes * Z): None is nil,
       Some (mem, l) has the contents mem of the backing array from the slice's first element to
       its capacity and the length l; len / cap / s[a:b] (checked against the capacity) /
       copy(s[a:b], v) / s == nil are gcs_len / gcs_cap / gcs_slice / gcs_copy / gcs_is_nil; local
       variables and parameters such values flow into (x := mcache.Malloc(n), S{buf: p}, cap(p)) are
       slices with capacity too; where a []byte VALUE is wanted (a result, an argument, the source
       of a copy) the slice stands for its contents (gcs_bytes);
     * values are not references: the translator's SHARING DISCIPLINE (ext4.go, checkSharing)
       refuses a function in which a slice with capacity could be stored into while another live
       variable refers to the same backing array (Y = X[a:b] moves X when X is a local that is
       never mentioned again; otherwise X or Y must be assigned as a whole before the next store
       into either, and two fields must not be left sharing).  ASSUMED, not checked: at entry the
       leaves of the receiver refer to pairwise distinct backing arrays that nothing else stores
       into during the call, and a parameter stored into a field is handed over by the caller.  The
       []byte results (contents) are copies as far as the definition is concerned: ALIASING BETWEEN
       THE INTERNAL BUFFER AND SLICES HANDED OUT IS NOT MODELLED here (heap-level models, C09);
     * a [][]byte leaf is GoSem.gcslist (nil, len, f = append(f, s), range: a Fixpoint by
       structural recursion on the items, the range variable a read-only view);
     * a leaf of an interface type (io.Reader, io.Writer) is an abstract object whose state is the
       leaf: type parameter St_<p>_<f>, one parameter m_<p>_<f>_<M> per method called; a method
       listed in mutatingMethods (io.Reader.Read) is handed the CONTENTS of the window s[a:b] and
       its model returns, after the state, the final contents of the window (trusted: of the same
       length, GoSem.gcs_splice), then the results.  An interface-typed parameter whose only use
       is to be stored into such a leaf (reset) stands for the state of that object;
     * an array leaf [N]int is a list Z (assumed of length N): a[i] is gelem, a[i] = x garr_set,
       range a Fixpoint on the list; p.f.M(...) for a translated method M of the nested struct f
       is called with the leaves below f (nil flag false) and gives them back;
     * mcache.Malloc(size[, cap]), mcache.Free(b) and, in these methods, dirtmake.Bytes(len, cap)
       are methods of THE ALLOCATOR, an abstract object that a function that allocates (or calls
       one that does) takes as its TRAILING parameter v_mem : St_mem, with the models m_mem_Malloc,
       m_mem_Bytes : St_mem -> Z -> Z -> res (St_mem * gcslice) (size, capacity asked for — the size
       again when Malloc is given one argument) and m_mem_Free : St_mem -> gcslice -> res St_mem.
       Trusted: the memory returned is referred to by nothing else.  What the models return (length,
       capacity, arbitrary contents) is a hypothesis of the theorems, not of the definitions.
`
}
