#!/bin/bash
# Differential test of the translator and of coq/Lib/GoSem.v against the Go compiler:
# translate every function of testdata/sem, run the same functions with Go on a grid of inputs
# (testdata/cmd/gen prints the observed results as Coq Examples), and let coqc check that the
# generated Gallina definitions compute exactly these results (vm_compute).
set -e
cd "$(dirname "$0")"
ROOT=$(cd ../.. && pwd)
export GOFLAGS=-mod=mod GOPROXY=off GOSUMDB=off GOTOOLCHAIN=local
OUT=$ROOT/build/semtest
rm -rf "$OUT"; mkdir -p "$OUT/bad"
go build -o "$ROOT/build/gotrans" .
"$ROOT/build/gotrans" -repo testdata -all-of semtest/sem=sem -sem "$ROOT/coq/Lib/GoSem.v" -out "$OUT" >/dev/null
(cd testdata && go run ./cmd/gen) > "$OUT/Cases.v"
cd "$OUT"
[ -f "$ROOT/coq/Lib/GoSem.vo" ] || (cd "$ROOT/coq" && coqc -R . GV Lib/Bytes.v && coqc -R . GV Lib/Res.v && coqc -R . GV Lib/GoSem.v)
timeout 900 coqc -R "$ROOT/coq" GV -R . SemTest Funcs.v
timeout 900 coqc -R "$ROOT/coq" GV -R . SemTest Cases.v
# negative test: every function Bad* of testdata/bad must be refused (exit status 3, named on stderr)
set +e
"$ROOT/build/gotrans" -repo "$ROOT/tools/gotrans/testdata" -all-of semtest/bad=bad -sem "$ROOT/coq/Lib/GoSem.v" -out "$OUT/bad" > /dev/null 2> "$OUT/bad.err"; rc=$?
set -e
[ "$rc" = 3 ] || { echo "gotrans semtest: expected exit status 3 on testdata/bad, got $rc"; exit 1; }
for f in $(grep -oE '^func (\([^)]*\) )?Bad[A-Za-z0-9]*' "$ROOT/tools/gotrans/testdata/bad/bad.go" | awk '{print $NF}'); do
  grep -q "NOT TRANSLATED: g_bad_$f " "$OUT/bad.err" || { echo "gotrans semtest: $f was not refused"; exit 1; }
  if grep -q "Definition g_bad_$f " "$OUT/bad/Funcs.v"; then echo "gotrans semtest: $f was emitted"; exit 1; fi
done
echo "gotrans semtest: $(grep -c '^Definition g_sem_' Funcs.v) functions, $(grep -c '^Example' Cases.v) results of the Go compiler reproduced by the generated definitions; $(grep -cE '^func (\([^)]*\) )?Bad' "$ROOT/tools/gotrans/testdata/bad/bad.go") unsupported constructs refused"
