// ext.go — phase 2 of the translator: for loops (Fixpoints on explicit fuel), self-recursion
// (a Fixpoint on an explicit recursion fuel), pointer-to-integer parameters, Go maps, local
// struct variables (field by field), local byte slices made by make, package-level tables, and
// calls of methods of ABSTRACT OBJECTS (interface / type-parameter typed values, whose methods
// are given as function parameters of the generated definition).
package main

import (
	"fmt"
	"go/ast"
	"go/constant"
	"go/token"
	"go/types"
	"sort"
	"strings"
)

// ---------- types ----------

func ptrElem(t types.Type) (types.Type, bool) {
	p, ok := t.Underlying().(*types.Pointer)
	if !ok {
		return nil, false
	}
	return p.Elem(), true
}

// *T for an integer type T
func ptrToInt(t types.Type) (types.Type, bool) {
	e, ok := ptrElem(t)
	if !ok {
		return nil, false
	}
	if _, _, isInt := intTypeInfo(e); !isInt {
		return nil, false
	}
	return e, true
}

func mapKV(t types.Type) (k, v types.Type, ok bool) {
	m, isMap := t.Underlying().(*types.Map)
	if !isMap {
		return nil, nil, false
	}
	return m.Key(), m.Elem(), true
}

// a struct type with at least one field (the empty struct BinaryProtocol is a stateless receiver)
func structFields(t types.Type) ([]*types.Var, bool) {
	if _, isTP := t.(*types.TypeParam); isTP {
		return nil, false
	}
	st, ok := t.Underlying().(*types.Struct)
	if !ok || st.NumFields() == 0 {
		return nil, false
	}
	var fs []*types.Var
	for i := 0; i < st.NumFields(); i++ {
		fs = append(fs, st.Field(i))
	}
	return fs, true
}

// a value whose methods are given from outside: of a type parameter, or of an interface type
// (other than error) with at least one method
func isAbstractType(t types.Type) bool {
	if _, ok := valueTypeParam(t); ok {
		return false
	}
	if _, ok := t.(*types.TypeParam); ok {
		return true
	}
	if isErrorIface(t) {
		return false
	}
	if it, ok := t.Underlying().(*types.Interface); ok {
		return it.NumMethods() > 0
	}
	return false
}

// ---------- abstract objects ----------

type absMethod struct {
	path string // "Next", "r.SkipN": selector path from the root to the method
	fn   *types.Func
}

type absRoot struct {
	v       *types.Var
	methods []*absMethod // sorted by path
	poke    bool         // windows into its memory are stored into: the poke operation is a parameter (ext3b.go)
}

func (r *absRoot) stName() string { return "St_" + r.v.Name() }
func (r *absRoot) mName(path string) string {
	return "m_" + r.v.Name() + "_" + strings.ReplaceAll(path, ".", "_")
}
func (r *absRoot) addMethod(path string, fn *types.Func) {
	for _, m := range r.methods {
		if m.path == path {
			return
		}
	}
	r.methods = append(r.methods, &absMethod{path, fn})
	sort.Slice(r.methods, func(i, j int) bool { return r.methods[i].path < r.methods[j].path })
}

func (f *fnInfo) absOf(o types.Object) *absRoot {
	for _, r := range f.abs {
		if r.v == o {
			return r
		}
	}
	return nil
}

func joinPath(a, b string) string {
	if a == "" {
		return b
	}
	return a + "." + b
}

// absPathOf: e is `x` or `x.f.g` for an abstract root x of f (fields of abstract type only)
func absPathOf(f *fnInfo, info *types.Info, e ast.Expr) (*absRoot, string) {
	switch x := ast.Unparen(e).(type) {
	case *ast.Ident:
		if o, ok := info.Uses[x].(*types.Var); ok {
			if r := f.absOf(o); r != nil {
				return r, ""
			}
		}
	case *ast.SelectorExpr:
		if lv, k := f.leafKind(info, x); k == leafAbs {
			return f.fieldRoots[lv], "" // an interface-typed leaf of the receiver (ext4.go)
		}
		if r, p := absPathOf(f, info, x.X); r != nil {
			if fv, ok := info.Uses[x.Sel].(*types.Var); ok && fv.IsField() {
				return r, joinPath(p, x.Sel.Name)
			}
		}
	}
	return nil, ""
}

func (c *fctx) absPath(e ast.Expr) (*absRoot, string) { return absPathOf(c.f, c.info, e) }

// binders / arguments that stand for the abstract objects of f
func (c *fctx) absBinders(f *fnInfo) []string {
	bs := f.typeParamBinders()
	for _, r := range f.abs {
		bs = append(bs, fmt.Sprintf("(%s : Type)", r.stName()))
		for _, m := range r.methods {
			bs = append(bs, fmt.Sprintf("(%s : %s)", r.mName(m.path), c.methodType(r, m)))
		}
		if r.poke {
			bs = append(bs, fmt.Sprintf("(%s : %s -> Z -> bytes -> res %s)", r.pokeName(), r.stName(), r.stName()))
		}
	}
	return bs
}

func (c *fctx) absArgs(f *fnInfo) []string {
	as := f.typeParamArgs()
	for _, r := range f.abs {
		as = append(as, r.stName())
		for _, m := range r.methods {
			as = append(as, r.mName(m.path))
		}
		if r.poke {
			as = append(as, r.pokeName())
		}
	}
	return as
}

// St -> args -> res (St * results)
func (c *fctx) methodType(r *absRoot, m *absMethod) string {
	if r == c.f.allocRoot && r != nil {
		return allocMethodType(r, m.path)
	}
	sig := m.fn.Type().(*types.Signature)
	if sig.Variadic() {
		c.failf(c.f.decl, "variadic method %s of an abstract object", m.path)
	}
	parts := []string{r.stName()}
	rts := []string{r.stName()}
	for i := 0; i < sig.Params().Len(); i++ {
		pt := sig.Params().At(i).Type()
		if isAbstractType(pt) {
			continue // an interface-typed parameter: only the literal nil is handed to it (callAbstract)
		}
		parts = append(parts, c.coqType(c.f.decl, pt))
		if methodStoresInto(m.fn, i) {
			rts = append(rts, "bytes") // the final contents of the []byte argument
		}
	}
	for i := 0; i < sig.Results().Len(); i++ {
		if i == 0 && isRegionMethod(m.fn) {
			rts = append(rts, "gregion")
			continue
		}
		rts = append(rts, c.coqType(c.f.decl, sig.Results().At(i).Type()))
	}
	return strings.Join(parts, " -> ") + " -> res (" + strings.Join(rts, " * ") + ")"
}

// obj.M(args) for an abstract object: the given model m_obj_M is applied to the object's state
func (c *fctx) callAbstract(x *ast.CallExpr, root *absRoot, path string, fn *types.Func) (pre []string, terms []string) {
	var m *absMethod
	for _, mm := range root.methods {
		if mm.path == path {
			m = mm
		}
	}
	if m == nil {
		c.failf(x, "internal: method %s of %s not recorded", path, root.v.Name())
	}
	if x.Ellipsis.IsValid() {
		c.failf(x, "variadic call")
	}
	sig := m.fn.Type().(*types.Signature)
	var args []string
	var mpats, post []string
	for i, a := range x.Args {
		pt := sig.Params().At(i).Type()
		if isAbstractType(pt) {
			if !isNilIdent(c.info, a) {
				c.failf(a, "argument for the interface-typed parameter of the method %s must be the literal nil", path)
			}
			continue
		}
		if methodStoresInto(m.fn, i) {
			if pp, arg, pat, po, ok := c.csMutArg(a); ok {
				pre = append(pre, pp...)
				args = append(args, arg)
				mpats = append(mpats, pat)
				post = append(post, po...)
				continue
			}
			pp, arg, pat, po := c.mutSliceArg(a)
			pre = append(pre, pp...)
			args = append(args, arg)
			mpats = append(mpats, pat)
			post = append(post, po...)
			continue
		}
		if c.isMutatedParam(a) {
			c.failf(a, "a []byte that is stored into is handed to the method %s, which is not known to store into it (mutatingMethods)", path)
		}
		p, t := c.exprAs(a, pt)
		pre = append(pre, p...)
		args = append(args, t)
	}
	c.noteMut(x)
	if c.f.nilable[root.v] && path == sel0(path) {
		// a method call through a nil interface value panics (after the arguments were evaluated)
		pre = append(pre, fmt.Sprintf("do _ <- gptr_check %s;", c.readVar(c.absNilName(root.v))))
	}
	st := c.nameOf(root.v)
	cur := c.readVar(st)
	pats := append([]string{c.assignVar(st)}, mpats...)
	for i := 0; i < sig.Results().Len(); i++ {
		t := c.fresh()
		pats = append(pats, t)
		terms = append(terms, t)
	}
	pre = append(pre, fmt.Sprintf("do %s <- %s;", tuple(pats), strings.TrimSpace(root.mName(path)+" "+cur+" "+strings.Join(args, " "))))
	pre = append(pre, post...)
	return pre, terms
}

// ---------- variables ----------

type cvar struct {
	name  string
	root  types.Object // the Go variable the name stands for (or a field of which)
	field *types.Var
	isnil bool // the flag "the pointer receiver is nil"
}

func (c *fctx) varCoqType(n ast.Node, v *cvar) string {
	if v.isnil {
		return "bool"
	}
	if t, ok := c.csVarType(v); ok {
		return t
	}
	if v.field != nil {
		return c.coqType(n, v.field.Type())
	}
	if r := c.f.absOf(v.root); r != nil {
		return r.stName()
	}
	if rv, ok := v.root.(*types.Var); ok && c.f.regionOf[rv] != nil {
		return "gregion"
	}
	if e, ok := ptrElem(v.root.Type()); ok {
		return c.coqType(n, e)
	}
	return c.coqType(n, v.root.Type())
}

// s.f for a local struct variable s (each field is a variable of its own)
func (c *fctx) fieldVar(x *ast.SelectorExpr) (string, bool) {
	id, ok := ast.Unparen(x.X).(*ast.Ident)
	if !ok {
		return "", false
	}
	o, ok := c.info.Uses[id].(*types.Var)
	if !ok {
		return "", false
	}
	if _, isG := c.pkgLevelVar(o); isG {
		return "", false
	}
	if c.f.absOf(o) != nil {
		return "", false
	}
	if _, isStruct := structFields(o.Type()); !isStruct && o != c.f.recvStruct && !c.f.elemView[o] {
		return "", false
	}
	fv, ok := c.info.Uses[x.Sel].(*types.Var)
	if !ok || !fv.IsField() {
		return "", false
	}
	if c.f.cs && o == c.f.recvStruct {
		// a leaf of the receiver (ext4.go); a nested struct as a whole is not a variable
		if lv := c.f.leafByPath([]string{fv.Name()}); lv != nil {
			return c.fieldName(o, lv), true
		}
		return "", false
	}
	c.coqType(x, fv.Type())
	return c.fieldName(o, fv), true
}

func (c *fctx) fieldName(o *types.Var, fv *types.Var) string {
	if c.f.cs && o == c.f.recvStruct {
		if r := c.f.fieldRoots[fv]; r != nil {
			return c.nameOf(r.v) // an interface-typed leaf: the state of that abstract object
		}
	}
	n := c.nameOf(o) + "_" + fv.Name()
	if _, ok := c.vars[n]; !ok {
		if c.used[n] {
			c.failf(c.f.decl, "internal: name clash on %s", n)
		}
		c.used[n] = true
		c.vars[n] = &cvar{name: n, root: o, field: fv}
	}
	return n
}

// the Coq names of a (named) result: one per field for a struct
func (c *fctx) resultNames(r *types.Var) []string {
	if fs, ok := structFields(r.Type()); ok {
		var ns []string
		for _, fv := range fs {
			ns = append(ns, c.readVar(c.fieldName(r, fv)))
		}
		return ns
	}
	return []string{c.readVar(c.nameOf(r))}
}

func (c *fctx) resultTypes(n ast.Node, r *types.Var) []string {
	if c.f.regionOf[r] != nil {
		return []string{"gregion"}
	}
	if fs, ok := structFields(r.Type()); ok {
		var ts []string
		for _, fv := range fs {
			ts = append(ts, c.coqType(n, fv.Type()))
		}
		return ts
	}
	return []string{c.coqType(n, r.Type())}
}

// *p for a pointer-to-integer parameter p: the Coq variable holds the pointee
func (c *fctx) derefName(x *ast.StarExpr) string {
	id, ok := ast.Unparen(x.X).(*ast.Ident)
	if !ok {
		c.failf(x, "dereference of %s", types.ExprString(x.X))
	}
	o, _ := c.info.Uses[id].(*types.Var)
	for i, p := range c.f.params {
		if p == o {
			if _, isInt := ptrToInt(p.Type()); isInt && c.f.mutated[i] {
				c.readMut = true
				return c.nameOf(o)
			}
		}
	}
	c.failf(x, "dereference of %s, which is not a pointer-to-integer parameter", id.Name)
	return ""
}

// variables whose value a callee can change: reading one in the same expression as such a call
// has no specified order
func (c *fctx) isThreadedVar(o *types.Var) bool {
	for i, p := range c.f.params {
		if p == o && c.f.mutated[i] {
			return true
		}
	}
	if c.f.owned[o] || c.f.addrOf[o] {
		return true
	}
	if _, _, isMap := mapKV(o.Type()); isMap {
		return true
	}
	return false
}

func (c *fctx) outside(fr *loopFrame, name string) bool {
	v := c.vars[name]
	if v == nil {
		c.failf(c.f.decl, "internal: unregistered variable %s", name)
	}
	p := v.root.Pos()
	return p < fr.lo || p >= fr.hi
}

// readVar / assignVar record the use of a Coq variable in the enclosing loops
func (c *fctx) readVar(name string) string {
	for _, fr := range c.loops {
		if c.outside(fr, name) {
			fr.reads[name] = true
		}
	}
	return name
}

func (c *fctx) assignVar(name string) string {
	if name == "_" || c.exiting > 0 {
		return name
	}
	for _, fr := range c.loops {
		if c.outside(fr, name) && !fr.carriedSet[name] {
			c.failf(c.f.decl, "internal: %s is assigned inside %s but was not found to be loop-carried", name, fr.name)
		}
	}
	return name
}

func (c *fctx) keyEqb(n ast.Node, k types.Type) string {
	if isString(k) {
		return "beqb"
	}
	if _, _, ok := intTypeInfo(k); ok {
		return "Z.eqb"
	}
	c.failf(n, "map key type %s", k)
	return ""
}

// a package-level array / slice of integers that is only ever read (checked over the whole
// package): a leading parameter gv_<name> : list Z, indexed with a bounds check
func (c *fctx) globalTable(e ast.Expr) (string, bool) {
	id, ok := ast.Unparen(e).(*ast.Ident)
	if !ok {
		return "", false
	}
	o, ok := c.info.Uses[id].(*types.Var)
	if !ok {
		return "", false
	}
	gv, isG := c.pkgLevelVar(o)
	if !isG || !isIntTable(gv.Type()) {
		return "", false
	}
	if why := c.t.tableWritten(gv); why != "" {
		c.failf(e, "package-level table %s is not read-only: %s", gv.Name(), why)
	}
	return globalName(gv), true
}

func isIntTable(t types.Type) bool {
	var el types.Type
	switch a := t.Underlying().(type) {
	case *types.Array:
		el = a.Elem()
	default:
		return false
	}
	_, _, ok := intTypeInfo(el)
	return ok
}

// every occurrence of the table in its package must be the operand of an index expression that
// is read (never an assignment target, never sliced, addressed or passed on)
func (t *tr) tableWritten(gv *types.Var) string {
	if r, ok := t.tableCache[gv]; ok {
		return r
	}
	res := ""
	for _, p := range t.pkgs {
		if p.Types != gv.Pkg() {
			continue
		}
		for _, file := range p.Syntax {
			okUse := map[*ast.Ident]bool{}
			ast.Inspect(file, func(n ast.Node) bool {
				switch x := n.(type) {
				case *ast.IndexExpr:
					if id, ok := ast.Unparen(x.X).(*ast.Ident); ok {
						okUse[id] = true
					}
				case *ast.AssignStmt:
					for _, l := range x.Lhs {
						if ix, ok := ast.Unparen(l).(*ast.IndexExpr); ok {
							if id, ok := ast.Unparen(ix.X).(*ast.Ident); ok && p.TypesInfo.Uses[id] == gv {
								res = "assigned at " + p.Fset.Position(l.Pos()).String()
							}
						}
					}
				case *ast.IncDecStmt:
					if ix, ok := ast.Unparen(x.X).(*ast.IndexExpr); ok {
						if id, ok := ast.Unparen(ix.X).(*ast.Ident); ok && p.TypesInfo.Uses[id] == gv {
							res = "assigned at " + p.Fset.Position(x.Pos()).String()
						}
					}
				case *ast.UnaryExpr:
					if x.Op == token.AND {
						if ix, ok := ast.Unparen(x.X).(*ast.IndexExpr); ok {
							if id, ok := ast.Unparen(ix.X).(*ast.Ident); ok && p.TypesInfo.Uses[id] == gv {
								res = "element address taken at " + p.Fset.Position(x.Pos()).String()
							}
						}
					}
				}
				return true
			})
			ast.Inspect(file, func(n ast.Node) bool {
				if id, ok := n.(*ast.Ident); ok && p.TypesInfo.Uses[id] == gv && !okUse[id] {
					res = "used other than indexed at " + p.Fset.Position(id.Pos()).String()
				}
				return true
			})
		}
	}
	t.tableCache[gv] = res
	return res
}

// ---------- make ----------

func (c *fctx) makeCall(x *ast.CallExpr) (pre []string, terms []string) {
	t := c.info.TypeOf(x)
	if _, _, ok := mapKV(t); ok {
		if len(x.Args) > 2 {
			c.failf(x, "make with %d arguments", len(x.Args))
		}
		var pre []string
		if len(x.Args) == 2 {
			// the size hint of a map never panics at run time (negative: treated as 0); a constant
			// must be non-negative (compile-time rule); the expression is evaluated for its panics
			tv := c.info.Types[x.Args[1]]
			if tv.Value != nil && constant.Sign(tv.Value) < 0 {
				c.failf(x, "make(map, n) with a negative constant size hint")
			}
			pre, _ = c.expr(x.Args[1])
		}
		ct := c.coqType(x, t)
		return pre, []string{"(Some [] : " + strings.Trim(ct, "()") + ")"}
	}
	if isByteSlice(t) && len(x.Args) == 2 {
		p, n := c.expr(x.Args[1])
		tmp := c.fresh()
		return append(p, fmt.Sprintf("do %s <- gmake_bytes %s;", tmp, n)), []string{tmp}
	}
	c.failf(x, "make of %s (only maps and make([]byte, n))", t)
	return nil, nil
}

// ---------- error constructors ----------

var errCtorLib = map[string]bool{
	libErrorf: true, libErrorsNew: true,
	modPath + "protocol/thrift.NewProtocolException":    true,
	modPath + "protocol/thrift.NewApplicationException": true,
}

func shortFull(full string) string {
	for p, s := range pkgShort {
		if strings.HasPrefix(full, p+".") {
			return s + "." + strings.TrimPrefix(full, p+".")
		}
	}
	return full
}

// the ecode key of the error a constructor call builds: <pkg>.<func>#<constructor>, followed by
// #k (k-th call of that constructor in the function, in source order) when there are several
func (c *fctx) errCtorKey(x *ast.CallExpr, full string) string {
	key := fmt.Sprintf("%s#%s", c.f.keyBase(), shortFull(full))
	if c.f.nErrCtor[full] > 1 {
		key += fmt.Sprintf("#%d", c.f.errCtorIx[x])
	}
	return key
}

// <pkg>.<func>, or <pkg>.<recv>.<func> when several whitelisted methods of the package share the name
func (f *fnInfo) keyBase() string {
	if f.spec.recv != "" && ambiguousName[f.spec.pkg+"."+f.spec.name] {
		return f.spec.pkg + "." + f.spec.recv + "." + f.spec.name
	}
	return f.spec.pkg + "." + f.spec.name
}

var ambiguousName = map[string]bool{}

// an argument of an error constructor: free of effects, except that err.Error() panics on nil
func (c *fctx) pureArg(a ast.Expr) []string {
	switch y := ast.Unparen(a).(type) {
	case *ast.Ident:
		// reading a variable has no effect (the text of the message is not modelled)
		if _, isVar := c.info.Uses[y].(*types.Var); isVar {
			return nil
		}
	case *ast.IndexExpr:
		// m[k] for a package-level map: never panics
		if id, ok := ast.Unparen(y.X).(*ast.Ident); ok {
			if v, ok := c.info.Uses[id].(*types.Var); ok {
				if _, isG := c.pkgLevelVar(v); isG {
					if _, _, isMap := mapKV(v.Type()); isMap {
						return c.pureArg(y.Index)
					}
				}
			}
		}
	}
	if call, ok := ast.Unparen(a).(*ast.CallExpr); ok {
		if sel, ok := ast.Unparen(call.Fun).(*ast.SelectorExpr); ok && len(call.Args) == 0 && sel.Sel.Name == "Error" {
			if id, ok := ast.Unparen(sel.X).(*ast.Ident); ok && isErrorIface(c.info.TypeOf(id)) {
				return []string{fmt.Sprintf("do _ <- gerr_deref %s;", c.identTerm(id))}
			}
		}
		if fn := c.calleeFunc(call); fn != nil && fn.FullName() == "fmt.Sprintf" {
			var pre []string
			for _, b := range call.Args {
				pre = append(pre, c.pureArg(b)...)
			}
			return pre
		}
	}
	if p, _ := c.expr(a); len(p) != 0 {
		c.failf(a, "argument of an error constructor that can panic")
	}
	return nil
}

// ---------- calls of translated functions ----------

func (f *fnInfo) flatResultCount() int {
	n := 0
	for _, r := range f.results {
		if fs, ok := structFields(r.Type()); ok {
			n += len(fs)
		} else {
			n++
		}
	}
	return n
}

// the head a self-call is applied to (already applied to the abstract objects' models and to
// the smaller recursion fuel): inside a loop Fixpoint it is the parameter rec_
func (c *fctx) recHead() string {
	if len(c.loops) > 0 {
		for _, fr := range c.loops {
			fr.usesRec = true
		}
		return "rec_"
	}
	return "(" + strings.Join(append(append(append([]string{c.f.coqName}, c.absArgs(c.f)...), c.extArgs(c.f)...), "rfuel'"), " ") + ")"
}

func (c *fctx) callTranslated(x *ast.CallExpr, callee *fnInfo) (pre []string, terms []string) {
	self := callee == c.f
	if !self {
		c.t.translate(callee)
		if callee.state != 2 {
			c.failf(x, "call of %s, whose translation failed", callee.obj.FullName())
		}
		for k := range callee.errKeys {
			c.f.errKeys[k] = true
		}
	}
	if x.Ellipsis.IsValid() || callee.obj.Type().(*types.Signature).Variadic() {
		c.failf(x, "variadic call")
	}
	for _, r := range callee.results {
		if _, isStruct := structFields(r.Type()); isStruct {
			c.failf(x, "call of %s, which returns a struct", callee.obj.FullName())
		}
	}
	if len(callee.typeParams) > 0 {
		c.failf(x, "call of %s, a method of a generic type", callee.obj.FullName())
	}
	sameRecv := c.sameRecvCall(x, callee)
	subPath, subRecv := c.subRecvCall(x, callee)
	if callee.recvStruct != nil && !sameRecv && !subRecv {
		c.failf(x, "call of %s, a method of a pointer to a struct with fields (only p.M(...) for the caller's own receiver p is translated)", callee.obj.FullName())
	}
	c.checkNoAliasArgs(x, callee)
	var head []string
	segs := map[*absRoot][]string{} // per abstract object of the callee: its state type and method models
	var args []string
	var pats []string
	var post []string
	var recvArgs []string
	if subRecv {
		// p.f.M(...) for a translated method of the nested struct f (ext4.go): &p.f is never nil
		// (p itself is dereferenced), the callee gets the leaves below f and gives them back
		c.noteMut(x)
		pre = append(pre, fmt.Sprintf("do _ <- gptr_check %s;", c.readVar(c.isnilName())))
		recvArgs = append(recvArgs, "false")
		for _, fv := range callee.recvFields {
			n := c.fieldName(c.f.recvStruct, c.subRecvLeaf(subPath, fv))
			recvArgs = append(recvArgs, c.readVar(n))
			pats = append(pats, c.assignVar(n))
		}
	}
	if sameRecv {
		// the callee's abstract objects that are leaves of the common receiver (ext4.go)
		for lv, r := range callee.fieldRoots {
			mine := c.f.fieldRoots[lv]
			segs[r] = append(segs[r], mine.stName())
			for _, m := range r.methods {
				segs[r] = append(segs[r], mine.mName(m.path))
			}
		}
	}
	if sameRecv {
		// p.M(...) for the caller's own pointer receiver p: the callee gets the nil flag and the
		// current fields, its final fields are the caller's afterwards (a method call through a nil
		// pointer is not itself a panic)
		c.noteMut(x)
		recvArgs = append(recvArgs, c.readVar(c.isnilName()))
		for _, fv := range callee.recvFields {
			n := c.fieldName(c.f.recvStruct, fv)
			recvArgs = append(recvArgs, c.readVar(n))
			pats = append(pats, c.assignVar(n))
		}
	}
	// which of the caller's abstract objects each abstract object of the callee is
	absArg := func(calleeRoot *absRoot, e ast.Expr) []string {
		if id, ok := ast.Unparen(e).(*ast.Ident); ok {
			if _, isNil := c.info.Uses[id].(*types.Nil); isNil {
				// the nil interface value: no state, every method call panics (the callee tests its flag)
				if !callee.nilable[calleeRoot.v] {
					c.failf(e, "nil handed to the abstract object %s of %s, which is never compared with nil", calleeRoot.v.Name(), callee.obj.Name())
				}
				segs[calleeRoot] = append(segs[calleeRoot], "unit")
				for _, m := range calleeRoot.methods {
					n := 1 + m.fn.Type().(*types.Signature).Params().Len()
					segs[calleeRoot] = append(segs[calleeRoot], "(fun "+strings.TrimSpace(strings.Repeat("_ ", n))+" => Panic 5)")
				}
				if calleeRoot.poke {
					segs[calleeRoot] = append(segs[calleeRoot], "(fun _ _ _ => Panic 5)")
				}
				pats = append(pats, "_")
				return []string{"true", "tt"}
			}
		}
		root, path := c.absPath(e)
		if root == nil {
			c.failf(e, "argument for the abstract object %s must be an abstract object of the caller", calleeRoot.v.Name())
		}
		var flag []string
		if callee.nilable[calleeRoot.v] {
			if !c.f.nilable[root.v] || path != "" {
				c.failf(e, "internal: %s is handed to a parameter that is compared with nil but has no nil flag", root.v.Name())
			}
			flag = []string{c.readVar(c.absNilName(root.v))}
		}
		segs[calleeRoot] = append(segs[calleeRoot], root.stName())
		for _, m := range calleeRoot.methods {
			full := joinPath(path, m.path)
			found := false
			for _, mm := range root.methods {
				if mm.path == full {
					found = true
				}
			}
			if !found {
				c.failf(e, "internal: method %s of %s not recorded", full, root.v.Name())
			}
			segs[calleeRoot] = append(segs[calleeRoot], root.mName(full))
		}
		if calleeRoot.poke {
			if !root.poke || path != "" {
				c.failf(e, "internal: the poke operation of %s is not a parameter", root.v.Name())
			}
			segs[calleeRoot] = append(segs[calleeRoot], root.pokeName())
		}
		c.noteMut(x)
		st := c.nameOf(root.v)
		cur := c.readVar(st)
		pats = append(pats, c.assignVar(st))
		return append(flag, cur)
	}
	var recvArg string
	if callee.recv != nil {
		sel, ok := ast.Unparen(x.Fun).(*ast.SelectorExpr)
		if !ok {
			c.failf(x, "call of the method %s without a receiver expression", callee.obj.FullName())
		}
		recvArg = strings.Join(absArg(callee.absOf(callee.recv), sel.X), " ")
	}
	var pargs []string
	for i, a := range x.Args {
		p := callee.params[i]
		if callee.dropped[i] {
			if _, ok := ast.Unparen(a).(*ast.Ident); !ok && c.info.Types[a].Value == nil {
				c.failf(a, "argument for the unused parameter %s of %s must be a variable or a constant", p.Name(), callee.obj.Name())
			}
			continue
		}
		if r := callee.absOf(p); r != nil {
			pargs = append(pargs, absArg(r, a)...)
			continue
		}
		if callee.mutated[i] {
			c.noteMut(x)
			if isByteSlice(p.Type()) {
				pp, arg, pat, po := c.mutSliceArg(a)
				pre = append(pre, pp...)
				pargs = append(pargs, arg)
				pats = append(pats, pat)
				post = append(post, po...)
				continue
			}
			n := c.threadedArg(a, p)
			pargs = append(pargs, c.readVar(n))
			pats = append(pats, c.assignVar(n))
			continue
		}
		pp, t := c.exprAs(a, p.Type())
		pre = append(pre, pp...)
		pargs = append(pargs, t)
	}
	if callee.allocRoot != nil {
		// the allocator (ext4.go): the callee's trailing parameter is the caller's allocator
		mine := c.f.allocRoot
		if mine == nil {
			c.failf(x, "internal: %s allocates but the caller has no allocator object", callee.obj.Name())
		}
		segs[callee.allocRoot] = append(segs[callee.allocRoot], mine.stName())
		for _, m := range callee.allocRoot.methods {
			segs[callee.allocRoot] = append(segs[callee.allocRoot], mine.mName(m.path))
		}
		c.noteMut(x)
		st := c.nameOf(mine.v)
		pargs = append(pargs, c.readVar(st))
		pats = append(pats, c.assignVar(st))
	}
	for _, r := range callee.abs {
		head = append(head, segs[r]...)
	}
	name := callee.coqName
	if self {
		name = c.recHead()
	} else {
		head = append(head, c.extArgs(callee)...)
		if callee.needsRFuel {
			head = append(head, "rfuel")
		}
	}
	if callee.needsFuel {
		head = append(head, "fuel")
	}
	if self {
		// rec_ / (F abs rfuel') is already applied to the models and the recursion fuel
		head = nil
		if callee.needsFuel {
			head = []string{"fuel"}
		}
	}
	for _, g := range callee.globals {
		args = append(args, globalName(g))
	}
	if recvArg != "" {
		args = append(args, recvArg)
	}
	args = append(args, recvArgs...)
	args = append(args, pargs...)
	args = append(args, c.calleeOracles(x, callee)...)
	for i := 0; i < callee.flatResultCount(); i++ {
		t := c.fresh()
		pats = append(pats, t)
		terms = append(terms, t)
	}
	pat := "_"
	if len(pats) >= 1 {
		pat = tuple(pats)
	}
	all := append(append([]string{name}, head...), args...)
	pre = append(pre, fmt.Sprintf("do %s <- %s;", pat, strings.Join(all, " ")))
	pre = append(pre, post...)
	return pre, terms
}

// the caller's variable that a pointer / map parameter of the callee refers to
func (c *fctx) threadedArg(a ast.Expr, p *types.Var) string {
	if _, isPtr := ptrToInt(p.Type()); isPtr {
		switch y := ast.Unparen(a).(type) {
		case *ast.UnaryExpr: // &x for a local integer variable x
			if id, ok := ast.Unparen(y.X).(*ast.Ident); ok && y.Op == token.AND {
				if o, ok := c.info.Uses[id].(*types.Var); ok && c.f.addrOf[o] {
					c.coqType(a, o.Type())
					return c.nameOf(o)
				}
			}
		case *ast.Ident: // p, a pointer parameter of the caller, passed on
			o, _ := c.info.Uses[y].(*types.Var)
			for i, q := range c.f.params {
				if q == o && c.f.mutated[i] {
					if _, ok := ptrToInt(q.Type()); ok {
						return c.nameOf(o)
					}
				}
			}
		}
		c.failf(a, "argument for the pointer parameter %s must be &x for a local integer variable x, or a pointer parameter of the caller", p.Name())
	}
	if _, _, isMap := mapKV(p.Type()); isMap {
		if id, ok := ast.Unparen(a).(*ast.Ident); ok {
			if o, ok := c.info.Uses[id].(*types.Var); ok {
				if _, isG := c.pkgLevelVar(o); !isG {
					for i, q := range c.f.params {
						if q == o && !c.f.mutated[i] {
							c.failf(a, "internal: map parameter %s not recorded as mutated", id.Name)
						}
					}
					c.coqType(a, o.Type())
					return c.nameOf(o)
				}
			}
		}
		c.failf(a, "argument for the map parameter %s, which the callee stores into, must be a variable of the caller", p.Name())
	}
	c.failf(a, "internal: threaded parameter %s of type %s", p.Name(), p.Type())
	return ""
}

// ---------- loops ----------

type loopFrame struct {
	name       string
	lo, hi     token.Pos // variables declared in [lo, hi) are local to an iteration
	carried    []string  // variables declared outside that an iteration assigns: arguments and result
	carriedSet map[string]bool
	reads      map[string]bool
	free       []string // variables declared outside that are only read: arguments
	usesRec    bool     // the body calls the enclosing function: the loop takes it as rec_
	canExit    bool     // has a condition or a break: can end without returning from the function
	oracle     string   // a range statement over a map: the name of its order oracle
	done       bool
}

func (c *fctx) sortVars(ns []string) {
	sort.Slice(ns, func(i, j int) bool {
		a, b := c.vars[ns[i]], c.vars[ns[j]]
		if a.root.Pos() != b.root.Pos() {
			return a.root.Pos() < b.root.Pos()
		}
		return ns[i] < ns[j]
	})
}

// the variables declared outside the loop that its condition, post statement or body may assign
// (found syntactically; assignVar checks during the translation that none was missed)
func (c *fctx) carriedOf(fr *loopFrame, s *ast.ForStmt) []string {
	return c.carriedOfNodes(fr, []ast.Node{s.Cond, s.Post, s.Body})
}

func (c *fctx) carriedOfNodes(fr *loopFrame, nodes []ast.Node) []string {
	set := map[string]bool{}
	var add func(e ast.Expr)
	add = func(e ast.Expr) {
		switch x := ast.Unparen(e).(type) {
		case *ast.Ident:
			if x.Name == "_" {
				return
			}
			o := c.info.Uses[x]
			if o == nil {
				o = c.info.Defs[x]
			}
			if v, ok := o.(*types.Var); ok && c.f.elemView[v] {
				fs, _ := elemViewStruct(v)
				for _, fv := range fs {
					set[c.fieldName(v, fv)] = true
				}
				return
			}
			if v, ok := o.(*types.Var); ok {
				if _, isG := c.pkgLevelVar(v); !isG {
					set[c.nameOf(v)] = true
				}
			}
		case *ast.StarExpr:
			add(x.X)
		case *ast.IndexExpr:
			add(x.X)
		case *ast.SliceExpr:
			add(x.X)
		case *ast.UnaryExpr:
			if x.Op == token.AND {
				add(x.X)
			}
		case *ast.SelectorExpr:
			if n, ok := c.fieldVar(x); ok {
				set[n] = true
			} else if r, _ := c.absPath(x); r != nil {
				set[c.nameOf(r.v)] = true
			}
		}
	}
	visit := func(n ast.Node) bool {
		switch x := n.(type) {
		case *ast.AssignStmt:
			for _, l := range x.Lhs {
				add(l)
				if ix, ok := ast.Unparen(l).(*ast.IndexExpr); ok && c.isRegionExpr(ix.X) {
					_, _, r := c.regionExprQuiet(ix.X)
					if r != nil {
						set[c.nameOf(r.v)] = true
					}
				}
			}
		case *ast.IncDecStmt:
			add(x.X)
		case *ast.CallExpr:
			c.csCarriedCall(x, add, set)
			if len(x.Args) == 2 && c.isRegionExpr(x.Args[0]) {
				if fn := c.calleeFunc(x); fn != nil && putLib[fn.FullName()] != 0 {
					if _, _, r := c.regionExprQuiet(x.Args[0]); r != nil {
						set[c.nameOf(r.v)] = true
					}
				}
			}
			var id *ast.Ident
			switch fe := ast.Unparen(x.Fun).(type) {
			case *ast.Ident:
				id = fe
			case *ast.SelectorExpr:
				id = fe.Sel
			}
			if id == nil {
				return true
			}
			switch o := c.info.Uses[id].(type) {
			case *types.Builtin:
				if o.Name() == "copy" && len(x.Args) == 2 {
					add(x.Args[0])
				}
			case *types.Func:
				if putLib[o.FullName()] != 0 && len(x.Args) == 2 {
					add(x.Args[0])
				}
				if callee := c.t.byObj[o.Origin()]; callee != nil {
					c.t.analyse(callee, map[*fnInfo]bool{})
					for j, m := range callee.mutated {
						if m && j < len(x.Args) {
							add(x.Args[j])
						}
					}
					if c.sameRecvCall(x, callee) {
						for _, fv := range callee.recvFields {
							set[c.fieldName(c.f.recvStruct, fv)] = true
						}
					}
					if sel, ok := ast.Unparen(x.Fun).(*ast.SelectorExpr); ok && callee.recv != nil {
						add(sel.X)
					}
				} else if sel, ok := ast.Unparen(x.Fun).(*ast.SelectorExpr); ok {
					if r, _ := c.absPath(sel.X); r != nil {
						set[c.nameOf(r.v)] = true
					}
				}
			}
		}
		return true
	}
	for _, n := range nodes {
		if n != nil && !isNilNode(n) {
			ast.Inspect(n, visit)
		}
	}
	var out []string
	for n := range set {
		if c.outside(fr, n) {
			out = append(out, n)
		}
	}
	c.sortVars(out)
	return out
}

func isNilNode(n ast.Node) bool {
	switch x := n.(type) {
	case ast.Expr:
		return x == nil
	case ast.Stmt:
		return x == nil
	}
	return false
}

func (c *fctx) binder(n ast.Node, name string) string {
	return fmt.Sprintf("(%s : %s)", name, c.varCoqType(n, c.vars[name]))
}

func (c *fctx) forStmt(depth int, s *ast.ForStmt, rest func(int) string) string {
	if s.Init != nil {
		inner := *s
		inner.Init = nil
		return c.block(depth, []ast.Stmt{s.Init, &inner}, rest)
	}
	fr := c.loopCache[s.Body]
	if fr == nil {
		fr = c.translateLoop(s)
		c.loopCache[s.Body] = fr
	}
	// the call, in the enclosing context
	for _, n := range fr.free {
		c.readVar(n)
	}
	for _, n := range fr.carried {
		c.readVar(n)
		c.assignVar(n)
	}
	if fr.usesRec && len(c.loops) > 0 {
		for _, o := range c.loops {
			o.usesRec = true
		}
	}
	call := c.loopCall(fr, "fuel")
	if fr.usesRec {
		call = strings.Replace(call, "@@REC@@", c.recHead(), 1)
	}
	if !fr.canExit {
		// the loop ends only by returning from the function
		if len(c.loops) == 0 {
			return ind(depth) + call + "\n"
		}
		r := c.fresh()
		return ind(depth) + fmt.Sprintf("do %s <- %s;\n", r, call) + ind(depth) + fmt.Sprintf("Ok (@@INR:%s@@%s)\n", c.loops[len(c.loops)-1].name, r)
	}
	t, r := c.fresh(), c.fresh()
	out := ind(depth) + fmt.Sprintf("do %s <- %s;\n", t, call)
	out += ind(depth) + fmt.Sprintf("match %s with\n", t)
	if len(c.loops) == 0 {
		out += ind(depth) + fmt.Sprintf("| inr %s => Ok %s\n", r, r)
	} else {
		out += ind(depth) + fmt.Sprintf("| inr %s => Ok (@@INR:%s@@%s)\n", r, c.loops[len(c.loops)-1].name, r)
	}
	pat := "_"
	if len(fr.carried) > 0 {
		pat = tuple(fr.carried)
	}
	out += ind(depth) + fmt.Sprintf("| inl %s =>\n", pat)
	out += rest(depth + 1)
	out += ind(depth) + "end\n"
	return out
}

// NAME <abstract objects> [rec_] [rfuel] fuel <globals> <free> <lf> <carried>
func (c *fctx) loopCall(fr *loopFrame, lf string) string {
	parts := append([]string{fr.name}, c.absArgs(c.f)...)
	parts = append(parts, c.extArgs(c.f)...)
	if fr.usesRec {
		parts = append(parts, "@@REC@@")
	}
	if c.f.needsRFuel {
		parts = append(parts, "rfuel")
	}
	if c.f.needsFuel {
		parts = append(parts, "fuel")
	}
	for _, g := range c.f.globals {
		parts = append(parts, globalName(g))
	}
	parts = append(parts, fr.free...)
	parts = append(parts, lf)
	parts = append(parts, fr.carried...)
	return strings.Join(parts, " ")
}

func (c *fctx) translateLoop(s *ast.ForStmt) *loopFrame {
	c.nloop++
	fr := &loopFrame{name: fmt.Sprintf("%s_loop%d", c.f.coqName, c.nloop), hi: s.End(), reads: map[string]bool{}, carriedSet: map[string]bool{}}
	switch {
	case s.Cond != nil:
		fr.lo = s.Cond.Pos()
	case s.Post != nil:
		fr.lo = s.Post.Pos()
	default:
		fr.lo = s.Body.Pos()
	}
	fr.carried = c.carriedOf(fr, s)
	for _, n := range fr.carried {
		fr.carriedSet[n] = true
	}
	carriedTuple := tuple(fr.carried)
	savedLoops, savedBrk := c.loops, c.brk
	c.loops = append(c.loops[:len(c.loops):len(c.loops)], fr)
	exit := func(d int) string { return ind(d) + "Ok (inl " + carriedTuple + ")\n" }
	c.brk = append(c.brk[:len(c.brk):len(c.brk)], func(d int) string {
		fr.canExit = true
		return exit(d)
	})
	// continue / the end of the body: the post statement, then the next iteration
	cont := func(d int) string {
		var post []ast.Stmt
		if s.Post != nil {
			post = []ast.Stmt{s.Post}
		}
		return c.block(d, post, func(d int) string { return ind(d) + "@@CALL:" + fr.name + "@@\n" })
	}
	c.conts = append(c.conts, cont)
	var body string
	if s.Cond != nil {
		fr.canExit = true
		c.readMut, c.nestedMut, c.topCall = false, false, nil
		pre, cond := c.expr(s.Cond)
		c.checkOrder(s.Cond)
		body = c.lines(2, pre) + ind(2) + "if " + cond + " then (\n" + c.block(3, s.Body.List, cont) + ind(2) + ") else (\n" + exit(3) + ind(2) + ")\n"
	} else {
		body = c.block(2, s.Body.List, cont)
	}
	c.conts = c.conts[:len(c.conts)-1]
	c.loops, c.brk = savedLoops, savedBrk

	for n := range fr.reads {
		if !fr.carriedSet[n] {
			fr.free = append(fr.free, n)
		}
	}
	c.sortVars(fr.free)

	// header
	binders := append(c.absBinders(c.f), c.extBinders(c.f)...)
	if fr.usesRec {
		binders = append(binders, "(rec_ : "+c.recType()+")")
	}
	if c.f.needsRFuel {
		binders = append(binders, "(rfuel : nat)")
	}
	if c.f.needsFuel {
		binders = append(binders, "(fuel : nat)")
	}
	for _, g := range c.f.globals {
		if isIntTable(g.Type()) {
			binders = append(binders, fmt.Sprintf("(%s : list Z)", globalName(g)))
		} else {
			binders = append(binders, fmt.Sprintf("(%s : %s)", globalName(g), c.coqType(s, g.Type())))
		}
	}
	for _, n := range fr.free {
		binders = append(binders, c.binder(s, n))
	}
	binders = append(binders, "(lf : nat)")
	var cts []string
	for _, n := range fr.carried {
		binders = append(binders, c.binder(s, n))
		cts = append(cts, c.varCoqType(s, c.vars[n]))
	}
	ct := "unit"
	if len(cts) > 0 {
		ct = strings.Join(cts, " * ")
	}
	rt := c.f.resType
	typ := "res (" + rt + ")"
	inr := ""
	if fr.canExit {
		typ = "res ((" + ct + ") + (" + rt + "))"
		inr = "inr "
	}
	self := strings.Replace(c.loopCall(fr, "lf"), "@@REC@@", "rec_", 1)
	body = strings.ReplaceAll(body, "@@CALL:"+fr.name+"@@", self)
	body = strings.ReplaceAll(body, "@@INR:"+fr.name+"@@", inr)
	var sb strings.Builder
	fmt.Fprintf(&sb, "(* a for statement of %s: lf is the fuel of this loop (one unit per iteration), fuel the\n   fuel handed to inner loops and callees", c.f.spec.name)
	if fr.canExit {
		if len(fr.carried) > 0 {
			fmt.Fprintf(&sb, "; inl: the loop ended, with the final %s", strings.Join(fr.carried, ", "))
		}
		fmt.Fprintf(&sb, "; inr: the function returned")
	} else {
		fmt.Fprintf(&sb, "; the loop ends only by returning from the function")
	}
	fmt.Fprintf(&sb, " *)\n")
	fmt.Fprintf(&sb, "Fixpoint %s %s {struct lf} : %s :=\n  match lf with\n  | O => Err gfuel\n  | S lf =>\n%s  end.\n", fr.name, strings.Join(binders, " "), typ, body)
	c.f.loopText = append(c.f.loopText, sb.String())
	fr.done = true
	return fr
}

// the type of the enclosing function applied to its abstract objects and the recursion fuel
func (c *fctx) recType() string {
	return strings.Join(append(append([]string{}, c.f.binderTypes...), c.f.resTypeFull()), " -> ")
}

func (f *fnInfo) resTypeFull() string { return "res (" + f.resType + ")" }

func (c *fctx) branchStmt(depth int, s *ast.BranchStmt) string {
	if s.Tok == token.GOTO && s.Label != nil {
		return c.gotoStmt(depth, s)
	}
	if s.Label != nil {
		c.failf(s, "%s with a label", s.Tok)
	}
	switch s.Tok {
	case token.BREAK:
		if len(c.brk) == 0 {
			c.failf(s, "break outside a loop or switch")
		}
		return c.brk[len(c.brk)-1](depth)
	case token.CONTINUE:
		if len(c.conts) == 0 {
			c.failf(s, "continue outside a loop")
		}
		return c.conts[len(c.conts)-1](depth)
	}
	c.failf(s, "%s statement", s.Tok)
	return ""
}

// ---------- analysis ----------

// analyseExt: receiver / parameters that are abstract objects, pointer parameters, parameters
// that are never used, loops, error constructor ordinals, owned local slices, &x arguments,
// and the methods called on the abstract objects (those of callees are added by mapAbstract)
func (t *tr) analyseExt(f *fnInfo, seen map[*fnInfo]bool) {
	info := f.pkg.TypesInfo
	sig := f.obj.Type().(*types.Signature)
	f.owned, f.addrOf = map[*types.Var]bool{}, map[*types.Var]bool{}
	f.nilable = map[*types.Var]bool{}
	f.dirtOwned = map[*types.Var]bool{}
	defer t.analyseRegions(f)
	f.nErrCtor, f.errCtorIx = map[string]int{}, map[ast.Node]int{}
	if recv := sig.Recv(); recv != nil && !t.analyseCSReceiver(f, recv) {
		rt := recv.Type()
		if e, isPtr := ptrElem(rt); isPtr {
			rt = e // a pointer receiver is assumed non-nil
		}
		if fs, ok := structFields(rt); ok {
			all := true
			for _, fv := range fs {
				if !isAbstractType(fv.Type()) {
					all = false
				}
			}
			if all {
				f.recv = recv
				f.abs = append(f.abs, &absRoot{v: recv})
			} else if _, isPtr := ptrElem(recv.Type()); isPtr {
				ok := true
				for _, fv := range fs {
					_, _, isMap := mapKV(fv.Type())
					_, _, isInt := intTypeInfo(fv.Type())
					if !isMap && !isInt && !isBool(fv.Type()) && !isBytesLike(fv.Type()) && !isFloat64(fv.Type()) {
						ok = false
					}
				}
				if ok {
					f.recvStruct, f.recvFields = recv, fs
				} else {
					t.analyseROReceiver(f, recv, fs)
				}
			}
		}
	}
	t.analyseElemViews(f)
	used := map[types.Object]bool{}
	ast.Inspect(f.decl.Body, func(n ast.Node) bool {
		if id, ok := n.(*ast.Ident); ok {
			if o := info.Uses[id]; o != nil {
				used[o] = true
			}
		}
		return true
	})
	for i, p := range f.params {
		if (f.allocRoot != nil && p == f.allocRoot.v) || f.movedTo[p] != nil {
			continue // the allocator (ext4.go); an interface value that is stored into a field
		}
		switch {
		case !used[p] && (!translatableParam(p.Type()) || isAbstractType(p.Type())):
			f.dropped[i] = true
		case isAbstractType(p.Type()):
			f.abs = append(f.abs, &absRoot{v: p})
			f.mutated[i] = true
		default:
			if _, ok := ptrToInt(p.Type()); ok {
				f.mutated[i] = true
			}
		}
	}
	// candidates for owned local slices: x := make([]byte, n)
	cand := map[*types.Var]bool{}
	allowed := map[*ast.Ident]bool{}
	ast.Inspect(f.decl.Body, func(n ast.Node) bool {
		switch x := n.(type) {
		case *ast.ForStmt:
			f.hasLoop, f.needsFuel = true, true
		case *ast.RangeStmt:
			f.hasRange = true
		case *ast.BinaryExpr:
			// w == nil / w != nil for an abstract object w: it gets a nil flag
			if x.Op == token.EQL || x.Op == token.NEQ {
				for _, pr := range [][2]ast.Expr{{x.X, x.Y}, {x.Y, x.X}} {
					if id, ok := ast.Unparen(pr[1]).(*ast.Ident); ok {
						if _, isNil := info.Uses[id].(*types.Nil); isNil {
							if root, path := absPathOf(f, info, pr[0]); root != nil && path == "" {
								f.nilable[root.v] = true
							}
						}
					}
				}
			}
		case *ast.AssignStmt:
			if x.Tok == token.DEFINE && len(x.Lhs) == 1 && len(x.Rhs) == 1 {
				if id, ok := x.Lhs[0].(*ast.Ident); ok {
					if call, ok := ast.Unparen(x.Rhs[0]).(*ast.CallExpr); ok {
						if fid, ok := ast.Unparen(call.Fun).(*ast.Ident); ok && fid.Name == "make" {
							if _, isB := info.Uses[fid].(*types.Builtin); isB {
								if v, ok := info.Defs[id].(*types.Var); ok && isByteSlice(v.Type()) {
									cand[v] = true
								}
							}
						}
						// x := dirtmake.Bytes(n, n): a fresh buffer of arbitrary content; it may also be handed
						// (whole or as x[a:]) to callees and methods that store into it, and be returned
						if fn := calleeOf(info, call); fn != nil && dirtFns[fn.FullName()] && !f.cs {
							if v, ok := info.Defs[id].(*types.Var); ok && isByteSlice(v.Type()) {
								cand[v] = true
								f.dirtOwned[v] = true
							}
						}
					}
				}
			}
		case *ast.IndexExpr:
			if id, ok := ast.Unparen(x.X).(*ast.Ident); ok {
				allowed[id] = true
			}
		case *ast.CallExpr:
			var id *ast.Ident
			switch fe := ast.Unparen(x.Fun).(type) {
			case *ast.Ident:
				id = fe
			case *ast.SelectorExpr:
				id = fe.Sel
			}
			if id == nil {
				return true
			}
			switch o := info.Uses[id].(type) {
			case *types.Builtin:
				if o.Name() == "len" && len(x.Args) == 1 {
					if a, ok := ast.Unparen(x.Args[0]).(*ast.Ident); ok {
						allowed[a] = true
					}
				}
			case *types.Func:
				if errCtorLib[o.FullName()] || o.FullName() == libPrepend {
					f.nErrCtor[o.FullName()]++
					f.errCtorIx[x] = f.nErrCtor[o.FullName()]
				}
				// &x for a local integer variable x, as an argument
				for _, a := range x.Args {
					if u, ok := ast.Unparen(a).(*ast.UnaryExpr); ok && u.Op == token.AND {
						if xid, ok := ast.Unparen(u.X).(*ast.Ident); ok {
							if v, ok := info.Uses[xid].(*types.Var); ok && !v.IsField() && v.Parent() != v.Pkg().Scope() {
								if _, _, isInt := intTypeInfo(v.Type()); isInt {
									f.addrOf[v] = true
								}
							}
						}
					}
				}
				if _, isExt := externalFns[o.Origin().FullName()]; isExt && t.byObj[o.Origin()] == nil && !(f.cs && allocName(o) != "") {
					f.addExtern(o.Origin())
				}
				// a method of an abstract object that is not itself translated
				if t.byObj[o.Origin()] == nil {
					if sel, ok := ast.Unparen(x.Fun).(*ast.SelectorExpr); ok {
						if root, path := absPathOf(f, info, sel.X); root != nil {
							root.addMethod(joinPath(path, sel.Sel.Name), o)
						}
					}
				}
			}
		}
		return true
	})
	// the extra uses of a dirtmake buffer: an argument x / x[a:] of a call, an operand of return
	ast.Inspect(f.decl.Body, func(n ast.Node) bool {
		mark := func(e ast.Expr) {
			e = ast.Unparen(e)
			if se, ok := e.(*ast.SliceExpr); ok && se.High == nil && se.Max == nil {
				e = ast.Unparen(se.X)
			}
			if id, ok := e.(*ast.Ident); ok {
				if v, ok := info.Uses[id].(*types.Var); ok && f.dirtOwned[v] {
					allowed[id] = true
				}
			}
		}
		switch x := n.(type) {
		case *ast.CallExpr:
			if fid, ok := ast.Unparen(x.Fun).(*ast.Ident); ok {
				if _, isB := info.Uses[fid].(*types.Builtin); isB {
					return true
				}
			}
			for _, a := range x.Args {
				mark(a)
			}
		case *ast.ReturnStmt:
			for _, r := range x.Results {
				if id, ok := ast.Unparen(r).(*ast.Ident); ok {
					if v, ok := info.Uses[id].(*types.Var); ok && f.dirtOwned[v] {
						allowed[id] = true
					}
				}
			}
		}
		return true
	})
	ast.Inspect(f.decl.Body, func(n ast.Node) bool {
		if id, ok := n.(*ast.Ident); ok {
			if v, ok := info.Uses[id].(*types.Var); ok && cand[v] && !allowed[id] {
				delete(cand, v)
			}
		}
		return true
	})
	f.owned = cand
}

func translatableParam(t types.Type) bool {
	if structParamOK(t) {
		return true
	}
	if isErrorIface(t) || isBool(t) || isBytesLike(t) || isFloat64(t) || isAbstractType(t) {
		return true
	}
	if _, _, ok := intTypeInfo(t); ok {
		return true
	}
	if _, ok := ptrToInt(t); ok {
		return true
	}
	if _, _, ok := mapKV(t); ok {
		return true
	}
	return false
}

// the methods the callee calls on its abstract objects are methods of the caller's objects
func (t *tr) mapAbstract(f, callee *fnInfo, x *ast.CallExpr) {
	if callee == f {
		return
	}
	info := f.pkg.TypesInfo
	one := func(r *absRoot, e ast.Expr) {
		root, path := absPathOf(f, info, e)
		if root == nil {
			return // refused when the call is translated
		}
		for _, m := range r.methods {
			root.addMethod(joinPath(path, m.path), m.fn)
		}
		if r.poke && path == "" {
			root.poke = true
		}
	}
	if callee.recv != nil {
		if sel, ok := ast.Unparen(x.Fun).(*ast.SelectorExpr); ok {
			one(callee.absOf(callee.recv), sel.X)
		}
	}
	for i, p := range callee.params {
		if r := callee.absOf(p); r != nil && r.v != callee.recv && i < len(x.Args) {
			one(r, x.Args[i])
		}
	}
}

// every call of f in its package must pass &x (x a local integer variable) or a pointer
// parameter for each pointer parameter: the generated definition assumes the pointers are
// non-nil and that nothing else refers to the variable during the call
func (t *tr) checkPointerCallSites(f *fnInfo) string {
	var ptrs []int
	for i, p := range f.params {
		if _, ok := ptrToInt(p.Type()); ok {
			ptrs = append(ptrs, i)
		}
	}
	if len(ptrs) == 0 {
		return ""
	}
	bad := ""
	for _, p := range t.pkgs {
		for _, file := range p.Syntax {
			ast.Inspect(file, func(n ast.Node) bool {
				call, ok := n.(*ast.CallExpr)
				if !ok {
					return true
				}
				var id *ast.Ident
				switch fe := ast.Unparen(call.Fun).(type) {
				case *ast.Ident:
					id = fe
				case *ast.SelectorExpr:
					id = fe.Sel
				}
				if id == nil {
					return true
				}
				if o, ok := p.TypesInfo.Uses[id].(*types.Func); !ok || o.Origin() != f.obj {
					return true
				}
				seen := map[types.Object]bool{}
				for _, i := range ptrs {
					if i >= len(call.Args) {
						continue
					}
					var v types.Object
					switch a := ast.Unparen(call.Args[i]).(type) {
					case *ast.UnaryExpr:
						if xid, ok := ast.Unparen(a.X).(*ast.Ident); ok && a.Op == token.AND {
							if lv, ok := p.TypesInfo.Uses[xid].(*types.Var); ok && !lv.IsField() && lv.Parent() != lv.Pkg().Scope() {
								v = lv
							}
						}
					case *ast.Ident:
						if pv, ok := p.TypesInfo.Uses[a].(*types.Var); ok {
							if _, isPtr := ptrToInt(pv.Type()); isPtr && pv.Parent() != pv.Pkg().Scope() {
								v = pv
							}
						}
					}
					if v == nil || seen[v] {
						bad = fmt.Sprintf("%s: argument %d of this call is not &x for a distinct local integer variable (nor a pointer parameter passed on)", p.Fset.Position(call.Pos()), i+1)
					}
					seen[v] = true
				}
				return true
			})
		}
	}
	return bad
}

// ---------- a pointer receiver *T for a struct T of translatable fields ----------

func isEmptyStruct(t types.Type) bool {
	if t == nil { // the blank identifier
		return false
	}
	if _, isTP := t.(*types.TypeParam); isTP {
		return false
	}
	st, ok := t.Underlying().(*types.Struct)
	return ok && st.NumFields() == 0
}

func (c *fctx) isnilName() string {
	n := c.nameOf(c.f.recvStruct) + "_isnil"
	if _, ok := c.vars[n]; !ok {
		c.used[n] = true
		c.vars[n] = &cvar{name: n, root: c.f.recvStruct, isnil: true}
	}
	return n
}

func (c *fctx) isRecv(e ast.Expr) bool {
	id, ok := ast.Unparen(e).(*ast.Ident)
	if !ok || c.f.recvStruct == nil {
		return false
	}
	return c.info.Uses[id] == c.f.recvStruct
}

func (c *fctx) isRecvField(e ast.Expr) bool {
	sel, ok := ast.Unparen(e).(*ast.SelectorExpr)
	return ok && c.isRecv(sel.X)
}

// p.f dereferences p: panics when the receiver is nil
func (c *fctx) recvCheck(x ast.Expr) []string {
	if !c.isRecv(x) {
		return nil
	}
	return []string{fmt.Sprintf("do _ <- gptr_check %s;", c.readVar(c.isnilName()))}
}

// the binding of an assigned variable; a field of the receiver is assigned through the pointer
func (c *fctx) bindLine(lhs ast.Expr, name, term string) string {
	if c.isRecvField(lhs) {
		return fmt.Sprintf("do %s <- gptr_set %s %s;", name, c.readVar(c.isnilName()), term)
	}
	return fmt.Sprintf("let %s := %s in", name, term)
}

// ---------- external functions with a given model ----------

// Calls of these functions become calls of a function parameter of the generated definition.
// Sound when the Go function is a deterministic function of its arguments that neither keeps
// state nor stores into them (thrift.Binary.Skip reads its slice only).
var externalFns = map[string]string{
	"(" + modPath + "protocol/thrift.BinaryProtocol).Skip": "x_thrift_Binary_Skip",
	"semtest/ext.Calc": "x_ext_Calc", // the translator's differential self-test (testdata/ext)
	// uninitialised memory: the content is an oracle (at most one call per function, see dirtFn)
	dirtFn:              "x_dirtmake_Bytes",
	"semtest/ext.Dirty": "x_ext_Dirty",
	// the hash function of a strmap instance (its seed, a field, is not an argument of the model)
	modPath + "internal/hash/maphash.String": "x_maphash_String",
	"semtest/ext.Keyed":                      "x_ext_Keyed",
}

const dirtFn = "github.com/bytedance/gopkg/lang/dirtmake.Bytes"

// functions whose result is freshly allocated memory of arbitrary content
var dirtFns = map[string]bool{dirtFn: true, "semtest/ext.Dirty": true}

func (f *fnInfo) addExtern(fn *types.Func) {
	for _, e := range f.externs {
		if e == fn {
			return
		}
	}
	f.externs = append(f.externs, fn)
	sort.Slice(f.externs, func(i, j int) bool { return f.externs[i].FullName() < f.externs[j].FullName() })
}

func (c *fctx) extBinders(f *fnInfo) []string {
	var bs []string
	for _, e := range f.externs {
		sig := e.Type().(*types.Signature)
		var parts, rts []string
		for i := 0; i < sig.Params().Len(); i++ {
			if extDropped[e.FullName()][i] {
				continue
			}
			parts = append(parts, c.coqType(c.f.decl, sig.Params().At(i).Type()))
		}
		for i := 0; i < sig.Results().Len(); i++ {
			rts = append(rts, c.coqType(c.f.decl, sig.Results().At(i).Type()))
		}
		bs = append(bs, fmt.Sprintf("(%s : %s -> res (%s))", externalFns[e.FullName()], strings.Join(parts, " -> "), strings.Join(rts, " * ")))
	}
	return bs
}

func (c *fctx) extArgs(f *fnInfo) []string {
	var as []string
	for _, e := range f.externs {
		as = append(as, externalFns[e.FullName()])
	}
	return as
}

func (c *fctx) callExternal(x *ast.CallExpr, fn *types.Func, name string) (pre []string, terms []string) {
	sig := fn.Type().(*types.Signature)
	if x.Ellipsis.IsValid() || sig.Variadic() {
		c.failf(x, "variadic call")
	}
	if dirtFns[fn.FullName()] {
		// the oracle is a function of the sizes: two calls would be given the same content
		if c.dirtCall != nil && c.dirtCall != x {
			c.failf(x, "a second allocation of uninitialised memory in one function (the content oracle is a function of the sizes)")
		}
		if len(c.loops) > 0 {
			c.failf(x, "allocation of uninitialised memory inside a loop")
		}
		c.dirtCall = x
	}
	var args []string
	for i, a := range x.Args {
		if extDropped[fn.FullName()][i] {
			if !c.droppedArgOK(a) {
				c.failf(a, "this argument of %s must be a field of the read-only receiver (it is not an argument of the model)", fn.Name())
			}
			continue
		}
		if c.isMutatedParam(a) {
			c.failf(a, "argument of an external function that is stored into elsewhere")
		}
		p, t := c.exprAs(a, sig.Params().At(i).Type())
		pre = append(pre, p...)
		args = append(args, t)
	}
	var pats []string
	for i := 0; i < sig.Results().Len(); i++ {
		t := c.fresh()
		pats = append(pats, t)
		terms = append(terms, t)
	}
	pre = append(pre, fmt.Sprintf("do %s <- %s;", tuple(pats), strings.TrimSpace(name+" "+strings.Join(args, " "))))
	return pre, terms
}

// goto L for a label L of the function's outermost block that comes later: the statements
// from L to the end of the function follow (a backward goto would be a loop: refused)
func (c *fctx) gotoStmt(depth int, s *ast.BranchStmt) string {
	list := c.f.decl.Body.List
	for i, st := range list {
		ls, ok := st.(*ast.LabeledStmt)
		if !ok || ls.Label.Name != s.Label.Name {
			continue
		}
		if ls.Pos() < s.Pos() {
			c.failf(s, "backward goto")
		}
		savedBrk, savedConts := c.brk, c.conts
		c.brk, c.conts = nil, nil
		c.exiting++
		defer func() { c.brk, c.conts = savedBrk, savedConts; c.exiting-- }()
		return c.block(depth, list[i:], c.endK)
	}
	c.failf(s, "goto to a label that is not a statement of the function's outermost block")
	return ""
}
